----------------------------- MODULE SlotCache -----------------------------
(***************************************************************************)
(* Implementation-shaped model of the poller's operator slots (C10):        *)
(* fd_operator_cache.go (alloc from the free list, freeable = wait for the    *)
(* token + reset + queue, free = the poller moves the queue back to the free   *)
(* list at the end of a batch), fd_operator.go (the state word 0 unused /      *)
(* 1 in use / 2 the poller dispatches through it; inuse, unused, do, done,     *)
(* the detach-once counter, reset) and defaultPoll.handler as far as slots go   *)
(* (an event carries the slot pointer it was registered with; do() or skip;     *)
(* OnRead; appendHup = remember the slot's OnHup, detach, done; hang-up task).   *)
(*                                                                               *)
(* Three users each open one descriptor (alloc, set the slot's fields, register  *)
(* level-triggered), idle, and close it (detach, Free, close(2)) at any time     *)
(* relative to each other, to their peers (send, close) and to the poller.       *)
(* Slots are named in the order of their first allocation (never-used slots are   *)
(* interchangeable): the free list is the stack `ret` of returned slots on top    *)
(* of `supply` fresh ones; when both are empty the cache grows by a block.        *)
(* Grain: one action = the code between two schedule points of one goroutine.     *)
(***************************************************************************)
EXTENDS Integers, Sequences, FiniteSets, TLC

CONSTANTS Conns,                \* e.g. {"A", "B", "G"}
          Supply,               \* never-used slots left in the current block at the start
          Block,                \* slots added when the cache grows
          MaxSend,              \* bound on what a peer sends
          Dev_ReclaimOnEmpty,   \* deviation: alloc takes slots from the freeable queue when the free list is empty
          Dev_QueueBeforeReset, \* deviation: freeable queues the slot before it has waited for the token and reset it
          Dev_LateOnHup,        \* deviation: the hang-up queue holds slots; the task reads a slot's OnHup only when it gets to it
          Dev_FreeAtHandlerStart \* deviation: the queue is moved back to the free list when the handler starts a batch, not after it

VARIABLES slot,    \* [1..MaxSlot -> [st, owner (whose fields are set; "" after reset), det (detached counter > 0)]]
          named,   \* number of slots named so far
          supply,  \* fresh slots left
          ret,     \* returned slots, allocatable (top first)
          pend,    \* the freeable queue (operatorCache.freelist)
          u,       \* [Conns -> [pc, s (slot), reg (registered with epoll), open (descriptor open)]]
          k,       \* [Conns -> [pending (unread bytes in the socket), sent, peerClosed]]
          P,       \* poller (the real Wait loop): [pc, msec (timeout of the next epoll_wait), batch (seq of [c, s, hup]), i, hups (owners whose OnHup was queued)]
          H,       \* hang-up tasks started and not yet run: seq of seq of owners
          got,     \* [Conns -> bytes its OnRead received]
          torn,    \* conns whose OnHup ran
          bad      \* rule names

vars == <<slot, named, supply, ret, pend, u, k, P, H, got, torn, bad>>
MaxSlot == 8
NoSlot == [st |-> 0, owner |-> "", det |-> FALSE]

Init == /\ slot = [i \in 1 .. MaxSlot |-> NoSlot] /\ named = 0 /\ supply = Supply /\ ret = <<>> /\ pend = <<>>
        /\ u = [c \in Conns |-> [pc |-> "u_start", s |-> 0, reg |-> FALSE, open |-> FALSE]]
        /\ k = [c \in Conns |-> [pending |-> 0, sent |-> 0, peerClosed |-> FALSE]]
        /\ P = [pc |-> "p_wait", msec |-> -1, batch |-> <<>>, i |-> 0, hups |-> <<>>]
        /\ H = <<>> /\ got = [c \in Conns |-> 0] /\ torn = {} /\ bad = {}

Reverse(s) == [j \in 1 .. Len(s) |-> s[Len(s) + 1 - j]]
InBatch(s) == P.pc # "p_wait" /\ P.i >= 1 /\ \E j \in P.i .. Len(P.batch) : j >= 1 /\ P.batch[j].s = s

\* ---- users ------------------------------------------------------------------------------------
\* operatorCache.alloc: top of the free list; a fresh slot; a new block; (deviation) the freeable queue
AllocFrom ==
    IF ret # <<>> THEN [s |-> Head(ret), ret |-> Tail(ret), pend |-> pend, named |-> named, supply |-> supply]
    ELSE IF supply > 0 THEN [s |-> named + 1, ret |-> ret, pend |-> pend, named |-> named + 1, supply |-> supply - 1]
    ELSE IF Dev_ReclaimOnEmpty /\ pend # <<>>
         THEN (LET r == Reverse(pend) IN [s |-> Head(r), ret |-> Tail(r), pend |-> <<>>, named |-> named, supply |-> supply])
    ELSE [s |-> named + 1, ret |-> ret, pend |-> pend, named |-> named + 1, supply |-> Block - 1]

\* start: socketpair, Alloc, the user sets FD and the callbacks, Control(PollReadable) (hook 14)
UStart(c) ==
    /\ u[c].pc = "u_start" /\ named < MaxSlot
    /\ LET a == AllocFrom IN
       /\ ret' = a.ret /\ pend' = a.pend /\ named' = a.named /\ supply' = a.supply
       /\ bad' = bad \cup (IF slot[a.s].owner # "" THEN {"slot_handed_out_while_owned"} ELSE {})
                     \cup (IF InBatch(a.s) THEN {"slot_reassigned_while_fetched_events_pending"} ELSE {})
       /\ slot' = [slot EXCEPT ![a.s].owner = c]
       /\ u' = [u EXCEPT ![c] = [pc |-> "u_ctl", s |-> a.s, reg |-> FALSE, open |-> TRUE]]
    /\ UNCHANGED <<k, P, H, got, torn>>

\* defaultPoll.Control(PollReadable): operator.inuse() (hook 12)
UCtl(c) == /\ u[c].pc = "u_ctl" /\ u' = [u EXCEPT ![c].pc = "u_inuse"]
           /\ UNCHANGED <<slot, named, supply, ret, pend, k, P, H, got, torn, bad>>

\* inuse: CAS 0 -> 1 (returns at once when it is 1 already; spins while it is 2); EPOLL_CTL_ADD; the user idles (hook 1002)
UInuse(c) ==
    /\ u[c].pc \in {"u_inuse", "u_inuse_spin"}
    /\ LET s == u[c].s IN
       IF slot[s].st = 2
       THEN /\ u[c].pc = "u_inuse" /\ u' = [u EXCEPT ![c].pc = "u_inuse_spin"] /\ UNCHANGED slot
       ELSE /\ slot' = [slot EXCEPT ![s].st = 1]
            /\ u' = [u EXCEPT ![c].pc = "u_idle", ![c].reg = TRUE]
    /\ UNCHANGED <<named, supply, ret, pend, k, P, H, got, torn, bad>>

\* the user closes: operator.Control(PollDetach) (hook 14)
UIdle(c) == /\ u[c].pc = "u_idle" /\ u' = [u EXCEPT ![c].pc = "u_det"]
            /\ UNCHANGED <<slot, named, supply, ret, pend, k, P, H, got, torn, bad>>

\* Control(PollDetach): once per slot life: EPOLL_CTL_DEL of the slot's descriptor; then Free -> freeable -> unused() (hook 13)
Detach(s) == IF slot[s].det THEN [sl |-> slot, who |-> ""]
             ELSE [sl |-> [slot EXCEPT ![s].det = TRUE], who |-> slot[s].owner]
UDet(c) ==
    /\ u[c].pc = "u_det"
    /\ LET d == Detach(u[c].s) IN
       /\ slot' = d.sl
       /\ u' = [x \in Conns |-> IF x = c THEN [u[x] EXCEPT !.pc = "u_unused", !.reg = IF d.who = c THEN FALSE ELSE u[x].reg]
                                ELSE IF x = d.who THEN [u[x] EXCEPT !.reg = FALSE] ELSE u[x]]
    /\ pend' = IF Dev_QueueBeforeReset THEN Append(pend, u[c].s) ELSE pend
    /\ UNCHANGED <<named, supply, ret, k, P, H, got, torn, bad>>

\* unused: CAS 1 -> 0 (returns at once when it is 0; spins while it is 2); reset; queue the slot; the user closes the descriptor
UUnused(c) ==
    /\ u[c].pc \in {"u_unused", "u_unused_spin"}
    /\ LET s == u[c].s IN
       IF slot[s].st = 2
       THEN /\ u[c].pc = "u_unused" /\ u' = [u EXCEPT ![c].pc = "u_unused_spin"] /\ UNCHANGED <<slot, pend, bad>>
       ELSE /\ bad' = bad \cup (IF slot[s].owner # c THEN {"reset_of_a_slot_owned_by_another"} ELSE {})
            /\ slot' = [slot EXCEPT ![s] = NoSlot]
            /\ pend' = IF Dev_QueueBeforeReset THEN pend ELSE Append(pend, s)
            /\ u' = [u EXCEPT ![c].pc = "u_done", ![c].open = FALSE, ![c].reg = FALSE]
    /\ UNCHANGED <<named, supply, ret, k, P, H, got, torn>>

\* ---- poller -----------------------------------------------------------------------------------
Ready(c) == u[c].reg /\ u[c].open /\ (k[c].pending > 0 \/ k[c].peerClosed)
RECURSIVE Perms(_)
Perms(S) == IF S = {} THEN {<<>>} ELSE UNION {{<<x>> \o p : p \in Perms(S \ {x})} : x \in S}

\* epoll_wait (hook 46): one event per ready registered descriptor, each carrying the slot it was registered with; after a batch the
\* loop polls once more without blocking (msec = 0) and only then blocks (msec = -1); then the point between fetch and handler (hook 54)
PWait == /\ P.pc = "p_wait"
         /\ IF \E c \in Conns : Ready(c)
            THEN \E order \in Perms({c \in Conns : Ready(c)}) :
                   P' = [P EXCEPT !.pc = "p_fetched", !.msec = 0, !.i = 1,
                                  !.batch = [j \in 1 .. Len(order) |-> [c |-> order[j], s |-> u[order[j]].s, hup |-> k[order[j]].peerClosed]]]
            ELSE P.msec = 0 /\ P' = [P EXCEPT !.msec = -1]
         /\ UNCHANGED <<slot, named, supply, ret, pend, u, k, H, got, torn, bad>>

\* the handler starts (its first event: hook 42)
PFetched == /\ P.pc = "p_fetched" /\ P' = [P EXCEPT !.pc = "p_ev"]
            /\ IF Dev_FreeAtHandlerStart THEN ret' = Reverse(pend) \o ret /\ pend' = <<>> ELSE UNCHANGED <<ret, pend>>
            /\ UNCHANGED <<slot, named, supply, u, k, H, got, torn, bad>>

\* handler: next event (hook 42) -> operator.do() (hook 10)
PEv == /\ P.pc = "p_ev" /\ P' = [P EXCEPT !.pc = "p_do"]
       /\ UNCHANGED <<slot, named, supply, ret, pend, u, k, H, got, torn, bad>>

\* end of the batch: onhups() starts the hang-up task, opcache.free() moves the queue to the free list
EndBatch(PP) ==
    /\ P' = [PP EXCEPT !.pc = "p_wait", !.batch = <<>>, !.i = 0, !.hups = <<>>]
    /\ H' = IF PP.hups # <<>> THEN Append(H, PP.hups) ELSE H
    /\ IF Dev_FreeAtHandlerStart THEN UNCHANGED <<ret, pend>> ELSE ret' = Reverse(pend) \o ret /\ pend' = <<>>
NextEvent(PP) == IF PP.i < Len(PP.batch) THEN /\ P' = [PP EXCEPT !.pc = "p_ev", !.i = @ + 1] /\ UNCHANGED <<H, ret, pend>>
                 ELSE EndBatch(PP)

\* do(): CAS 1 -> 2 or skip; OnRead of whoever owns the slot now reads that owner's descriptor; a hang-up is queued and the slot detached
PDo == /\ P.pc = "p_do"
       /\ LET e == P.batch[P.i] s == e.s o == slot[s].owner IN
          IF slot[s].st # 1
          THEN /\ NextEvent(P) /\ UNCHANGED <<slot, k, got, bad>>
          ELSE /\ slot' = [slot EXCEPT ![s].st = 2]
               /\ bad' = bad \cup (IF o # e.c THEN {"event_dispatched_to_another_owner"} ELSE {})
                             \cup (IF o # "" /\ k[o].pending = 0 /\ ~k[o].peerClosed THEN {"spurious_read_event"} ELSE {})
               /\ IF o # "" THEN /\ got' = [got EXCEPT ![o] = @ + k[o].pending] /\ k' = [k EXCEPT ![o].pending = 0]
                            ELSE UNCHANGED <<got, k>>
               /\ IF e.hup THEN P' = [P EXCEPT !.pc = "p_det", !.hups = Append(@, [o |-> o, s |-> s])] ELSE P' = [P EXCEPT !.pc = "p_done"]
               /\ UNCHANGED <<H, ret, pend>>
       /\ UNCHANGED <<named, supply, u, torn>>

\* appendHup: detach (hook 14), then done (hook 11)
PDet == /\ P.pc = "p_det"
        /\ LET d == Detach(P.batch[P.i].s) IN
           /\ slot' = d.sl
           /\ u' = [x \in Conns |-> IF x = d.who THEN [u[x] EXCEPT !.reg = FALSE] ELSE u[x]]
        /\ P' = [P EXCEPT !.pc = "p_done"]
        /\ UNCHANGED <<named, supply, ret, pend, k, H, got, torn, bad>>

PDone == /\ P.pc = "p_done"
         /\ slot' = [slot EXCEPT ![P.batch[P.i].s].st = 1]
         /\ NextEvent(P)
         /\ UNCHANGED <<named, supply, u, k, got, torn, bad>>

\* ---- hang-up task (hook 41): runs the queued OnHup closures ---------------------------------------
HRun == /\ H # <<>>
        /\ LET hs == Head(H) owners == {(IF Dev_LateOnHup THEN slot[hs[j].s].owner ELSE hs[j].o) : j \in 1 .. Len(hs)} \ {""} IN
           /\ torn' = torn \cup owners
           /\ bad' = bad \cup (IF \E o \in owners : ~k[o].peerClosed THEN {"torn_down_by_anothers_event"} ELSE {})
        /\ H' = Tail(H)
        /\ UNCHANGED <<slot, named, supply, ret, pend, u, k, P, got>>

\* ---- peers -----------------------------------------------------------------------------------------
PeerSend(c) == /\ u[c].open /\ ~k[c].peerClosed /\ k[c].sent < MaxSend
               /\ k' = [k EXCEPT ![c].pending = @ + 1, ![c].sent = @ + 1]
               /\ UNCHANGED <<slot, named, supply, ret, pend, u, P, H, got, torn, bad>>
PeerClose(c) == /\ u[c].open /\ ~k[c].peerClosed /\ k' = [k EXCEPT ![c].peerClosed = TRUE]
                /\ UNCHANGED <<slot, named, supply, ret, pend, u, P, H, got, torn, bad>>

UserNext(c) == UStart(c) \/ UCtl(c) \/ UInuse(c) \/ UIdle(c) \/ UDet(c) \/ UUnused(c)
PollerNext == PWait \/ PFetched \/ PEv \/ PDo \/ PDet \/ PDone
Next == (\E c \in Conns : UserNext(c) \/ PeerSend(c) \/ PeerClose(c)) \/ PollerNext \/ HRun
Spec == Init /\ [][Next]_vars

UPt(c) == CASE u[c].pc = "u_start" -> 1000 [] u[c].pc \in {"u_ctl", "u_det"} -> 14 [] u[c].pc \in {"u_inuse", "u_inuse_spin"} -> 12
            [] u[c].pc = "u_idle" -> 1002 [] u[c].pc \in {"u_unused", "u_unused_spin"} -> 13 [] OTHER -> 0
PPt == CASE P.pc = "p_wait" -> 46 [] P.pc = "p_fetched" -> 54 [] P.pc = "p_ev" -> 42 [] P.pc = "p_do" -> 10 [] P.pc = "p_det" -> 14 [] P.pc = "p_done" -> 11 [] OTHER -> 0

\* ---- properties ---------------------------------------------------------------------------------------
TypeOK == named \in 0 .. MaxSlot /\ \A i \in 1 .. MaxSlot : slot[i].st \in 0 .. 2
\* a slot has a single owner, is not reassigned while a fetched event may still be dispatched through it, events reach only the
\* connection they were fetched for, nobody is torn down by another's event, nobody resets another's slot
NoBad == bad = {}
\* the free list and the queue never hold a slot twice, nor a slot that is in use
ListsOK == /\ \A i, j \in 1 .. Len(ret) : i # j => ret[i] # ret[j]
           /\ \A i, j \in 1 .. Len(pend) : i # j => pend[i] # pend[j]
           /\ \A i \in 1 .. Len(ret) : slot[ret[i]].st = 0 /\ slot[ret[i]].owner = ""
\* everything a peer sent to a connection that stays registered is delivered: no terminal state with unread data behind a registration
Delivered == (~ENABLED Next) => \A c \in Conns : (u[c].reg /\ u[c].open) => k[c].pending = 0
=============================================================================
