SPECIFICATION Spec
CONSTANTS
  NShards = 2
  Adders = {"a1", "a2"}
  AddsPer = 2
  Dev_TrigBeforeRing = TRUE
  Dev_EarlyClosed = FALSE
INVARIANTS AtMostOnce TriggerNonNeg NothingStranded
CHECK_DEADLOCK FALSE
