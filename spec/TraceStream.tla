---------------------------- MODULE TraceStream ----------------------------
(* Trace validation of recorded stream sessions against StreamObs (same scheme as TraceConn). *)
EXTENDS StreamObs, Json, TLC, FiniteSets

Trace == ndJsonDeserialize("trace.ndjson")
VARIABLES l, viol
tvars == <<s, l, viol>>

TraceInit == s = InitVal /\ l = 1 /\ viol = {} /\ TLCSet(1, <<0, {}>>)
\* (bounded: a build in which almost every event breaks a rule would otherwise make every state carry an ever larger set)
Judge(ev, V) == viol' = IF Cardinality(viol) < 400 THEN viol \cup {<<ev.t, l, r>> : r \in V} ELSE viol

Step(ev) ==
    CASE ev.e = "Init" -> s' = InitVal /\ UNCHANGED viol
      [] ev.e = "Submit" -> s' = SubmitEff(ev.n) /\ UNCHANGED viol
      [] ev.e = "Flushed" -> s' = FlushedEff(ev.n, ev.err) /\ UNCHANGED viol
      [] ev.e = "WriteErr" -> s' = [s EXCEPT !.failed = TRUE] /\ UNCHANGED viol
      [] ev.e = "Deliver" -> s' = DeliverEff(ev.n) /\ Judge(ev, DeliverViol(ev.n, ev.m))
      [] ev.e = "SenderClosed" -> s' = [s EXCEPT !.senderClosed = TRUE] /\ UNCHANGED viol
      [] ev.e = "Eos" -> s' = [s EXCEPT !.eos = TRUE] /\ Judge(ev, EosViol(ev.n))
      [] OTHER -> UNCHANGED <<s, viol>>

TraceNext == l <= Len(Trace) /\ Step(Trace[l]) /\ l' = l + 1 /\ TLCSet(1, <<l', viol'>>)
TraceSpec == TraceInit /\ [][TraceNext]_tvars
Report == PrintT(<<"TRACE-RESULT", TLCGet(1)[1] - 1, Len(Trace), TLCGet(1)[2]>>)
=============================================================================
