SPECIFICATION Spec
CONSTANTS
  Conns = {"A", "B", "G"}
  Supply = 1
  Block = 2
  MaxSend = 0
  Dev_ReclaimOnEmpty = FALSE
  Dev_LateOnHup = TRUE
  Dev_FreeAtHandlerStart = FALSE
  Dev_QueueBeforeReset = FALSE
INVARIANTS NoBad
CHECK_DEADLOCK FALSE
