SPECIFICATION TSpec
POSTCONDITION Report
CHECK_DEADLOCK FALSE
CONSTANTS
  NShards = 2
  Adders = {"a1", "a2"}
  AddsPer = 1
  Dev_TrigBeforeRing = FALSE
  Dev_EarlyClosed = FALSE
