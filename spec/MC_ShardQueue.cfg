SPECIFICATION Spec
CONSTANTS
  NShards = 2
  Adders = {"a1", "a2"}
  AddsPer = 2
  Dev_TrigBeforeRing = FALSE
  Dev_EarlyClosed = FALSE
INVARIANTS AtMostOnce TriggerNonNeg NothingStranded
VIEW View
CHECK_DEADLOCK FALSE
