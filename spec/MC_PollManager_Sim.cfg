SPECIFICATION Spec
CONSTANTS
  Pickers = {"p1", "p2", "p3"}
  PicksPer = 2
  S1 = 2
  S2 = 1
  S3 = 3
  Dev_NoCAS = FALSE
CHECK_DEADLOCK FALSE
