------------------------------ MODULE PollLoop ------------------------------
(***************************************************************************)
(* Implementation-shaped specification of the epoll reactor loop            *)
(* (poll_default_linux.go: Wait, handler's wake-up branch, Trigger, Close)  *)
(* together with the kernel objects it talks to: the wake-up eventfd, the   *)
(* epoll ready list with level- and edge-triggered registrations, and the   *)
(* event array that doubles after a full batch.  Property C11, clauses      *)
(*   "Trigger wakes a blocked loop", "Close stops the loop and releases the *)
(*   poller's own descriptors", "dispatches each descriptor's events        *)
(*   completely ... batch sizes around the event-array growth threshold".   *)
(*                                                                         *)
(* One action = what the code does between two schedule points (vp(...)):   *)
(*   LWait   vpPollWait -> epoll_wait -> (n<=0: back) | batch               *)
(*   LEv     vpHandlerEvent(i) -> dispatch of event i (non wake-up events);  *)
(*           after the last one: opcache.free, [grow array], back to the top *)
(*   LDrain  vpPollDrain -> read(eventfd)                                    *)
(*   LRearm  vpPollRearm -> store trigger=0 ; close check ; continue         *)
(*   TAdd    vpPollTrigAdd -> AddUint32(trigger) ; return if coalesced       *)
(*   TMsg    vpPollTrigMsg -> write(eventfd, trigger message) ; return       *)
(*   KMsg    vpPollCloseMsg -> write(eventfd, close message) ; return        *)
(*   Send/Reg  the environment: a peer makes a level-triggered descriptor    *)
(*           readable; a PollWritable (edge-triggered) registration of a     *)
(*           writable socket                                                 *)
(* Deviations (modelled changes, all FALSE for the code as it is):           *)
(*   Dev_RearmBeforeDrain  the flag is cleared before the eventfd is read    *)
(*   Dev_GrowAfterWait     the array is re-allocated between epoll_wait and  *)
(*                         the handler (the fetched batch is lost)           *)
(*   Dev_NoCoalesce        Trigger always writes (no flag)                   *)
(***************************************************************************)
EXTENDS Integers, Sequences, FiniteSets, TLC

CONSTANTS Trigs, MaxCalls, LTs, ETs, Size0, MaxSize, WithClose, MaxSend,
          Dev_RearmBeforeDrain, Dev_GrowAfterWait, Dev_NoCoalesce

VARIABLES flag,      \* p.trigger
          efdT, efdC,\* eventfd counter: trigger messages / close messages not yet read
          pend,      \* [LTs -> Nat] unread bytes of a level-triggered descriptor
          sent, dlv, \* [LTs -> Nat] bytes sent by the peer / delivered to the input callbacks
          et,        \* [ETs -> {"unreg","edge","reported"}] kernel state of an edge-triggered registration
          etGot,     \* [ETs -> Nat] writable callbacks dispatched
          lpc, msec, n, size, batch, i, gotC,   \* the loop: pc, epoll timeout, last batch size, array size, fetched batch, index, close messages read
          fdsOpen,   \* the poller's own descriptors are open
          tpc, calls,\* triggerers: pc, completed calls
          owed,      \* triggerers whose current/last call had its first effect while the loop was blocked and was not followed by a wake-up yet
          kpc        \* closer
vars == <<flag, efdT, efdC, pend, sent, dlv, et, etGot, lpc, msec, n, size, batch, i, gotC, fdsOpen, tpc, calls, owed, kpc>>

Ready == {d \in LTs : pend[d] > 0} \cup {e \in ETs : et[e] = "edge"} \cup (IF efdT + efdC > 0 THEN {"wop"} ELSE {})
Blocked == lpc = "wait" /\ msec = -1 /\ Ready = {}

Init ==
    /\ flag = 0 /\ efdT = 0 /\ efdC = 0
    /\ pend = [d \in LTs |-> 0] /\ sent = [d \in LTs |-> 0] /\ dlv = [d \in LTs |-> 0]
    /\ et = [e \in ETs |-> "unreg"] /\ etGot = [e \in ETs |-> 0]
    /\ lpc = "wait" /\ msec = -1 /\ n = 0 /\ size = Size0 /\ batch = <<>> /\ i = 0 /\ gotC = 0
    /\ fdsOpen = TRUE
    /\ tpc = [t \in Trigs |-> "add"] /\ calls = [t \in Trigs |-> 0] /\ owed = {}
    /\ kpc = IF WithClose THEN "msg" ELSE "done"

\* ---- all orderings of all subsets of S with at most k elements -------------
RECURSIVE Perms(_)
Perms(S) == IF S = {} THEN {<<>>} ELSE UNION {{<<x>> \o p : p \in Perms(S \ {x})} : x \in S}
Batches(S, k) == UNION {Perms(T) : T \in {T \in SUBSET S : Cardinality(T) = (IF Cardinality(S) < k THEN Cardinality(S) ELSE k)}}

\* ---- the loop ---------------------------------------------------------------
\* back at the top of the loop (the code between the end of the handler and vpPollWait): the array doubles after a full batch
Grown == IF ~Dev_GrowAfterWait /\ n = size /\ size < MaxSize THEN size * 2 ELSE size

LWait ==
    /\ lpc = "wait"
    /\ (msec = 0 \/ Ready # {})          \* epoll_wait(-1) returns only when something is ready
    /\ LET sz == size IN
       IF Ready = {} THEN
           /\ size' = sz /\ n' = 0 /\ msec' = -1
           /\ UNCHANGED <<lpc, batch, i, et, owed>>
       ELSE \E b \in Batches(Ready, sz) :
           /\ n' = Len(b) /\ msec' = 0
           /\ et' = [e \in ETs |-> IF \E k \in 1..Len(b) : b[k] = e THEN "reported" ELSE et[e]]
           /\ IF Dev_GrowAfterWait /\ Len(b) = sz /\ sz < MaxSize
                 THEN size' = sz * 2 /\ batch' = [k \in 1..Len(b) |-> "nil"]   \* fresh zeroed array handed to the handler
                 ELSE size' = sz /\ batch' = b
           /\ lpc' = "ev" /\ i' = 1
           /\ owed' = {}                  \* the loop woke up
    /\ UNCHANGED <<flag, efdT, efdC, pend, sent, dlv, etGot, gotC, fdsOpen, tpc, calls, kpc>>

AfterEvent ==   \* the handler moves on to event i+1, or returns and the loop goes back to epoll_wait(0)
    IF i < Len(batch) THEN lpc' = "ev" /\ i' = i + 1 /\ UNCHANGED size ELSE lpc' = "wait" /\ i' = 0 /\ size' = Grown

LEv ==
    /\ lpc = "ev"
    /\ LET x == batch[i] IN
       CASE x = "wop" -> /\ lpc' = IF Dev_RearmBeforeDrain THEN "rearm" ELSE "drain"
                         /\ UNCHANGED <<pend, dlv, etGot, i, size>>
         [] x = "nil" -> AfterEvent /\ UNCHANGED <<pend, dlv, etGot>>
         [] x \in LTs -> /\ dlv' = [dlv EXCEPT ![x] = @ + pend[x]] /\ pend' = [pend EXCEPT ![x] = 0]
                         /\ AfterEvent /\ UNCHANGED etGot
         [] x \in ETs -> /\ etGot' = [etGot EXCEPT ![x] = @ + 1]
                         /\ AfterEvent /\ UNCHANGED <<pend, dlv>>
    /\ UNCHANGED <<flag, efdT, efdC, sent, et, msec, n, batch, gotC, fdsOpen, tpc, calls, owed, kpc>>

\* after both statements of the wake-up branch: exit on a close message, else continue with the batch
WopDone(c) ==
    IF c > 0 THEN lpc' = "exit" /\ fdsOpen' = FALSE /\ UNCHANGED <<i, size>>
    ELSE AfterEvent /\ UNCHANGED fdsOpen

LDrain ==
    /\ lpc = "drain"
    /\ efdT' = 0 /\ efdC' = 0
    /\ IF Dev_RearmBeforeDrain
          THEN WopDone(efdC) /\ gotC' = 0
          ELSE lpc' = "rearm" /\ gotC' = efdC /\ UNCHANGED <<i, fdsOpen, size>>
    /\ UNCHANGED <<flag, pend, sent, dlv, et, etGot, msec, n, batch, tpc, calls, owed, kpc>>

LRearm ==
    /\ lpc = "rearm"
    /\ flag' = 0
    /\ IF Dev_RearmBeforeDrain
          THEN lpc' = "drain" /\ UNCHANGED <<i, fdsOpen, gotC, size>>
          ELSE WopDone(gotC) /\ gotC' = 0
    /\ UNCHANGED <<efdT, efdC, pend, sent, dlv, et, etGot, msec, n, batch, tpc, calls, owed, kpc>>

\* ---- Trigger ------------------------------------------------------------------
TAdd(t) ==
    /\ tpc[t] = "add" /\ calls[t] < MaxCalls
    /\ flag' = flag + 1
    /\ owed' = IF Blocked THEN owed \cup {t} ELSE owed \ {t}
    /\ IF flag + 1 > 1 /\ ~Dev_NoCoalesce
          THEN calls' = [calls EXCEPT ![t] = @ + 1] /\ UNCHANGED tpc      \* coalesced with an earlier, unconsumed trigger
          ELSE tpc' = [tpc EXCEPT ![t] = "msg"] /\ UNCHANGED calls
    /\ UNCHANGED <<efdT, efdC, pend, sent, dlv, et, etGot, lpc, msec, n, size, batch, i, gotC, fdsOpen, kpc>>

TMsg(t) ==
    /\ tpc[t] = "msg"
    /\ efdT' = efdT + 1
    /\ tpc' = [tpc EXCEPT ![t] = "add"] /\ calls' = [calls EXCEPT ![t] = @ + 1]
    /\ UNCHANGED <<flag, efdC, pend, sent, dlv, et, etGot, lpc, msec, n, size, batch, i, gotC, fdsOpen, owed, kpc>>

\* ---- Close ----------------------------------------------------------------------
KMsg ==
    /\ kpc = "msg"
    /\ efdC' = efdC + 1 /\ kpc' = "done"
    /\ UNCHANGED <<flag, efdT, pend, sent, dlv, et, etGot, lpc, msec, n, size, batch, i, gotC, fdsOpen, tpc, calls, owed>>

\* ---- environment ----------------------------------------------------------------
Send(d) ==
    /\ sent[d] < MaxSend
    /\ sent' = [sent EXCEPT ![d] = @ + 1] /\ pend' = [pend EXCEPT ![d] = @ + 1]
    /\ UNCHANGED <<flag, efdT, efdC, dlv, et, etGot, lpc, msec, n, size, batch, i, gotC, fdsOpen, tpc, calls, owed, kpc>>

Reg(e) ==
    /\ et[e] = "unreg" /\ lpc # "exit"
    /\ et' = [et EXCEPT ![e] = "edge"]
    /\ UNCHANGED <<flag, efdT, efdC, pend, sent, dlv, etGot, lpc, msec, n, size, batch, i, gotC, fdsOpen, tpc, calls, owed, kpc>>

Loop == LWait \/ LEv \/ LDrain \/ LRearm
Next == Loop \/ (\E t \in Trigs : TAdd(t) \/ TMsg(t)) \/ KMsg \/ (\E d \in LTs : Send(d)) \/ (\E e \in ETs : Reg(e))
Spec == Init /\ [][Next]_vars /\ WF_vars(Loop)

\* ---- properties -------------------------------------------------------------------
TypeOK == flag \in Nat /\ efdT \in Nat /\ efdC \in Nat /\ lpc \in {"wait", "ev", "drain", "rearm", "exit"} /\ msec \in {-1, 0}

\* a Trigger whose first effect happened while the loop was blocked, and which has returned, has woken the loop
TriggerWakes == ~(Blocked /\ (\E t \in owed : tpc[t] = "add") /\ (\A t \in Trigs : tpc[t] # "msg"))
\* Close stops the loop ...
CloseStops == ~(Blocked /\ kpc = "done" /\ WithClose)
\* ... and the poller's descriptors are released exactly when it exits
FdsReleased == (lpc = "exit") = (~fdsOpen)
\* an edge reported by the kernel is dispatched exactly once (never twice; and not lost once the loop is idle again)
EdgeOnce == \A e \in ETs : etGot[e] <= 1
EdgeNotLost == Blocked => \A e \in ETs : et[e] = "reported" => etGot[e] = 1
\* everything a peer sent is delivered once the loop is idle again; never more than was sent
Delivered == (\A d \in LTs : dlv[d] <= sent[d]) /\ (Blocked => \A d \in LTs : dlv[d] = sent[d])
\* the array grows exactly after a full batch
GrowthOK == size >= Size0 /\ size <= MaxSize
GrowsAfterFull == [][size' # size => (size' = 2 * size /\ n = size)]_vars
\* the flag never stays raised without a wake-up on its way (the reason coalescing is sound)
FlagCovered == (flag > 0 /\ lpc = "wait") => (efdT > 0 \/ \E t \in Trigs : tpc[t] = "msg")

\* liveness under a fair loop: a close message is eventually obeyed
CloseObeyed == (kpc = "done" /\ WithClose) ~> (lpc = "exit")
=============================================================================
