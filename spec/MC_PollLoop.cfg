CONSTANTS
  Trigs = {"t1", "t2"}
  MaxCalls = 2
  LTs = {"a", "b"}
  ETs = {"e1"}
  Size0 = 2
  MaxSize = 8
  WithClose = TRUE
  MaxSend = 2
  Dev_RearmBeforeDrain = FALSE
  Dev_GrowAfterWait = FALSE
  Dev_NoCoalesce = FALSE
SPECIFICATION Spec
INVARIANTS TypeOK TriggerWakes CloseStops FdsReleased EdgeOnce EdgeNotLost Delivered GrowthOK FlagCovered
PROPERTIES GrowsAfterFull CloseObeyed
CHECK_DEADLOCK FALSE
