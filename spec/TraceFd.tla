------------------------------ MODULE TraceFd ------------------------------
EXTENDS FdTable, Json, TLC, Sequences
Trace == ndJsonDeserialize("trace.ndjson")
VARIABLES l, viol
tvars == <<tbl, l, viol>>
TraceInit == tbl = InitVal /\ l = 1 /\ viol = {} /\ TLCSet(1, <<0, {}>>)
\* (bounded: a build in which almost every event breaks a rule would otherwise make every state carry an ever larger set)
Judge(ev, V) == viol' = IF Cardinality(viol) < 400 THEN viol \cup {<<ev.t, l, r>> : r \in V} ELSE viol
Step(ev) ==
    CASE ev.e = "Init" -> tbl' = InitVal /\ UNCHANGED viol
      [] ev.e = "FdOpen" -> tbl' = OpenEff(ev.n) /\ Judge(ev, OpenViol(ev.n))
      [] ev.e = "FdClose" -> tbl' = CloseEff(ev.n) /\ Judge(ev, CloseViol(ev.n, ev.m))
      [] ev.e = "FdRelease" -> tbl' = ReleaseEff(ev.n) /\ UNCHANGED viol
      [] ev.e = "Final" -> Judge(ev, FinalViol(ev.n, ev.m)) /\ UNCHANGED tbl
      [] OTHER -> UNCHANGED <<tbl, viol>>
TraceNext == l <= Len(Trace) /\ Step(Trace[l]) /\ l' = l + 1 /\ TLCSet(1, <<l', viol'>>)
TraceSpec == TraceInit /\ [][TraceNext]_tvars
Report == PrintT(<<"TRACE-RESULT", TLCGet(1)[1] - 1, Len(Trace), TLCGet(1)[2]>>)
=============================================================================
