CONSTANTS
  MaxNode = 6
  MaxBlk = 5
  MaxBuf = 3
  Sizes = {1, 2, 3}
  InitSizes = {0, 2}
  MaxSteps = 6
  WithWriteDirect = FALSE
  WithAppend = TRUE
  WithBook = TRUE
  Dev_AppendKeepsTail = FALSE
INIT Init
NEXT Next_
VIEW ViewNoLast
INVARIANTS NoDoubleFree NoLiveFreed NoEarlyFree LengthOK MallocOK NoDeadRelease ChainOK NoSharedNode
CHECK_DEADLOCK FALSE
