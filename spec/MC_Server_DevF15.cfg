CONSTANTS
  MaxTasks = 4
  MaxSend = 1
  WithCloser = FALSE
  WithOnConnect = FALSE
  WithOnDisconnect = FALSE
  HandlerCloses = FALSE
  Dev_NoConnRecheck = FALSE
  Dev_NoInputRecheck = FALSE
  Dev_NoHupTask = FALSE
  Dev_HupLockTwice = FALSE
  MaxSweeps = 2
  AnyDeadline = FALSE
  Dev_NoAccepting = FALSE
  Dev_NoRecheck = FALSE
  Dev_RecheckActive = FALSE
  Dev_CountIdleOnly = TRUE
INIT SInit
NEXT Next2
INVARIANTS NilMeansNoneAlive
CHECK_DEADLOCK FALSE
