CONSTANTS
  MaxNode = 14
  MaxBlk = 12
  MaxBuf = 4
  Sizes = {1, 2, 3}
  InitSizes = {0, 2}
  MaxSteps = 25
  WithWriteDirect = FALSE
  WithAppend = TRUE
  WithBook = TRUE
  Dev_AppendKeepsTail = FALSE
INIT Init
NEXT Next_
INVARIANTS NoDoubleFree
CHECK_DEADLOCK FALSE
