---------------------------- MODULE TraceDialImpl ----------------------------
(* Conformance of recorded executions of real dials (DialConnection's dialTCP against listening / refusing /     *)
(* dropping / resetting loopback peers behind one or two addresses of a host name, manual poller, controlled      *)
(* scheduler, context expiry and the peer's reset as scheduler choices) with Dial.tla: each line is one step of   *)
(* the schedule actually taken - the actor, the schedule point it was parked at, and after the step the slots      *)
(* outstanding, whether the dial's descriptor is open, the two triggers of the current pollDesc, the state word    *)
(* of its operator, whether the context has expired, whether the peer has reset, and what the dial returned.       *)
EXTENDS Dial, Json

Trace == ndJsonDeserialize("sched.ndjson")
VARIABLE l
tvars == <<vars, l>>
TInit == Init /\ l = 1 /\ TLCSet(2, 0)

ResetVars(ev) ==
    /\ addrs' = [i \in 1..ev.na |-> IF i = 1 THEN ev.a1 ELSE ev.a2]
    /\ ai' = 1 /\ k' = "idle" /\ lastbits' = {} /\ reg' = FALSE /\ detached' = FALSE /\ opst' = 0 /\ slots' = 0 /\ fdopen' = FALSE
    /\ wt' = FALSE /\ ct' = FALSE /\ expired' = FALSE /\ rstdone' = FALSE /\ dpc' = "d1000" /\ outcome' = "none" /\ firsterr' = "none"
    /\ result' = "none" /\ byctx' = FALSE /\ pdleak' = FALSE /\ ppc' = "p1001" /\ evs' = {} /\ egen' = 0 /\ hups' = {}
    /\ hp' = [g \in 1..ev.na |-> "none"]

Ret(r) == CASE r = "conn" -> 1 [] r = "other" -> 2 [] r = "timeout" -> 3 [] OTHER -> 0
InTail == dpc \in {"tail", "ret"}
\* the tail (connection set-up and the caller's Close) is Conn.tla's subject: slots, the descriptor and the slot word are not compared there
ProjOk(ev) ==
    /\ (wt' = (ev.wt = 1)) /\ (ct' = (ev.ct = 1)) /\ (expired' = (ev.exp = 1)) /\ (rstdone' = (ev.rst = 1))
    /\ (dpc' # "tail" => slots' = ev.slots /\ fdopen' = (ev.fd = 1) /\ opst' = ev.opst)
    /\ (dpc' = "ret" => Ret(result') = ev.ret)
    /\ (dpc' = "tail" => (ev.ret \in {0, 1} /\ (ev.ret = 1 => result' = "conn")))

Stutter == UNCHANGED vars
\* the poller and hang-up tasks also serve the connection made by a successful dial (and its Close): not modelled here
TNext ==
    /\ l <= Len(Trace)
    /\ LET ev == Trace[l] IN
       IF ev.g = "reset" THEN ResetVars(ev)
       ELSE /\ CASE ev.g = "d" -> ((DPt = ev.pt \/ dpc = "tail") /\ DialerNext)
                 [] ev.g = "p" -> IF InTail /\ ppc = "p1001" THEN Stutter ELSE (PPt = ev.pt /\ PollerNext)
                 [] ev.g = "h" -> IF \E g \in DOMAIN hp : hp[g] \in {"h41", "h71"} /\ HPt(g) = ev.pt
                                  THEN \E g \in DOMAIN hp : hp[g] \in {"h41", "h71"} /\ HPt(g) = ev.pt /\ (H41(g) \/ H71(g))
                                  ELSE (InTail /\ Stutter)
                 [] ev.g = "t" -> (InTail /\ Stutter)
                 [] ev.g = "expire" -> Expire
                 [] ev.g = "peerrst" -> IF ev.rst = 1 /\ ~rstdone THEN PeerRst ELSE Stutter
                 [] OTHER -> FALSE
            /\ ProjOk(ev)
    /\ l' = l + 1
    /\ TLCSet(2, IF l' - 1 > TLCGet(2) THEN l' - 1 ELSE TLCGet(2))

TSpec == TInit /\ [][TNext]_tvars
Report == PrintT(<<"IMPL-RESULT", TLCGet(2), Len(Trace), TRUE>>)
=============================================================================
