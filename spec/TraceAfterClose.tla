-------------------------- MODULE TraceAfterClose --------------------------
(* Judges the recorded outcome of every executed cell of AfterClose!Cells. *)
EXTENDS AfterClose, Json

Trace == ndJsonDeserialize("trace.ndjson")
VARIABLES l, viol
tvars == <<l, viol>>
TraceInit == l = 1 /\ viol = {} /\ TLCSet(1, <<0, {}>>)

CellViol(ev) ==
    (IF ev.out \notin Allowed(ev.method, ev.mode, ev.have, ev.n)
        THEN {IF ev.out = "panic" THEN "C12.panic_after_close"
              ELSE IF ev.out = "blocked" THEN "C12.call_blocked_after_close"
              ELSE "C12.wrong_outcome_after_close"} ELSE {})
    \cup (IF ev.rep = "reuse" /\ ~BystanderOk(ev.bystander)
            THEN {"C10.stale_call_disturbed_another_connection"} ELSE {})
    \cup (IF ev.cbruns > 1 THEN {"C12.close_callbacks_ran_again"} ELSE {})

TraceNext ==
    /\ l <= Len(Trace)
    /\ viol' = viol \cup {<<Trace[l].t, l, r>> : r \in CellViol(Trace[l])}
    /\ l' = l + 1
    /\ TLCSet(1, <<l', viol'>>)
TraceSpec == TraceInit /\ [][TraceNext]_tvars
Report == PrintT(<<"TRACE-RESULT", TLCGet(1)[1] - 1, Len(Trace), TLCGet(1)[2]>>)
=============================================================================
