------------------------------ MODULE FdTable ------------------------------
(***************************************************************************)
(* Property C15 as a monitor over the descriptor table of the process.     *)
(* Events (from the audit points placed right after every descriptor-       *)
(* creating call and right before every close netpoll issues, and from the   *)
(* harness for descriptors it hands to netpoll):                            *)
(*   Open(fd, tag)    netpoll obtained descriptor number fd (socket, accept,  *)
(*                    epoll, eventfd, duplicate of a net.Listener) or adopted  *)
(*                    it (NewFDConnection, accepted conn handed in)           *)
(*   Close(fd, tag, wasOpen)  netpoll is about to issue close(fd); wasOpen is  *)
(*                    what fcntl(F_GETFD) says at that instant               *)
(*   Release(fd)      ownership given back to the user (Detach)              *)
(*   Final(leaked)    every connection, listener and loop has been closed;    *)
(*                    leaked = netpoll-opened descriptors still open           *)
(* The kernel's choice of numbers is logged, not assumed: the log order is     *)
(* consistent with the kernel's order because opens are logged after and       *)
(* closes before the system call.                                            *)
(***************************************************************************)
EXTENDS Integers, FiniteSets

VARIABLE tbl   \* [own: set of descriptor numbers netpoll owns now, closes: number of closes judged]

InitVal == [own |-> {}, closes |-> 0]

OpenViol(fd) == IF fd \in tbl.own THEN {"C15.number_handed_out_while_netpoll_still_owns_it"} ELSE {}
OpenEff(fd) == [tbl EXCEPT !.own = @ \cup {fd}]

CloseViol(fd, wasOpen) ==
    (IF fd \notin tbl.own THEN {"C15.close_of_a_descriptor_netpoll_does_not_own"} ELSE {})
    \cup (IF wasOpen = 0 THEN {"C15.close_of_a_number_that_is_not_open"} ELSE {})
CloseEff(fd) == [tbl EXCEPT !.own = @ \ {fd}, !.closes = @ + 1]

ReleaseEff(fd) == [tbl EXCEPT !.own = @ \ {fd}]

FinalViol(leaked, foreignDestroyed) ==
    (IF tbl.own # {} \/ leaked > 0 THEN {"C15.descriptor_left_open"} ELSE {})
    \cup (IF foreignDestroyed > 0 THEN {"C15.foreign_descriptor_closed_by_netpoll"} ELSE {})

Next == \/ \E fd \in 3 .. 6 : OpenViol(fd) = {} /\ tbl' = OpenEff(fd)
        \/ \E fd \in 3 .. 6 : CloseViol(fd, 1) = {} /\ tbl' = CloseEff(fd)
=============================================================================
