---------------------------- MODULE TracePoller ----------------------------
EXTENDS PollerObs, Json, FiniteSets
Trace == ndJsonDeserialize("trace.ndjson")
VARIABLES l, viol
tvars == <<d, l, viol>>
TraceInit == d = InitVal("open") /\ l = 1 /\ viol = {} /\ TLCSet(1, <<0, {}>>)
\* (bounded: a build in which almost every event breaks a rule would otherwise make every state carry an ever larger set)
Judge(ev, V) == viol' = IF Cardinality(viol) < 400 THEN viol \cup {<<ev.t, l, r>> : r \in V} ELSE viol

Step(ev) ==
    CASE ev.e = "Init" -> d' = InitVal(ev.k) /\ UNCHANGED viol
      [] ev.e = "PeerSend" -> d' = [d EXCEPT !.sent = @ + ev.n] /\ UNCHANGED viol
      [] ev.e = "Inject" -> d' = [d EXCEPT !.errInjected = (@ \/ ev.m = 1)] /\ UNCHANGED viol
      [] ev.e = "InputAck" -> d' = [d EXCEPT !.delivered = @ + ev.n] /\ Judge(ev, InputAckViol(ev.n, ev.m))
      [] ev.e = "OnHup" -> d' = [d EXCEPT !.hups = @ + 1] /\ Judge(ev, OnHupViol(ev.n))
      [] ev.e = "OutputAck" -> d' = [d EXCEPT !.outAcked = @ + ev.n] /\ Judge(ev, OutputAckViol(ev.n, ev.m))
      [] ev.e = "UserDetach" -> d' = [d EXCEPT !.userDetached = TRUE] /\ UNCHANGED viol
      [] ev.e = "LateCallback" -> Judge(ev, {"C11.callback_after_detach"}) /\ UNCHANGED d
      [] ev.e = "Final" -> Judge(ev, FinalViol(ev.n)) /\ UNCHANGED d
      [] ev.e = "LoopCheck" -> Judge(ev, (IF ev.n = 0 THEN {"C11.close_did_not_stop_the_loop"} ELSE {})
                                          \cup (IF ev.m = 0 THEN {"C11.poller_descriptors_left_open"} ELSE {})) /\ UNCHANGED d
      [] ev.e = "TriggerCheck" -> Judge(ev, IF ev.n = 0 THEN {"C11.trigger_did_not_wake_the_loop"} ELSE {}) /\ UNCHANGED d
      [] ev.e = "Panic" -> Judge(ev, {"C11.panic_in_handler"}) /\ UNCHANGED d
      [] OTHER -> UNCHANGED <<d, viol>>

TraceNext == l <= Len(Trace) /\ Step(Trace[l]) /\ l' = l + 1 /\ TLCSet(1, <<l', viol'>>)
TraceSpec == TraceInit /\ [][TraceNext]_tvars
Report == PrintT(<<"TRACE-RESULT", TLCGet(1)[1] - 1, Len(Trace), TLCGet(1)[2]>>)
=============================================================================
