------------------------------ MODULE SlotObs ------------------------------
(***************************************************************************)
(* Observable specification of poller-slot and descriptor reuse (C10).     *)
(* A connection A is closed (stale calls follow); a bystander B is opened   *)
(* at any time and may inherit A's slot.  Events: slot allocation/release,   *)
(* the slots of the events a poller batch fetched, the end of the batch,     *)
(* what each connection's peer sent, what each connection's handler got,      *)
(* teardown of each connection, and a final health probe of B.               *)
(***************************************************************************)
EXTENDS Integers, FiniteSets

VARIABLE q  \* [owner: slot -> conn name or "", fetched: set of slots in the current batch,
            \*  freedInBatch: slots released since the current batch was fetched,
            \*  sent, got: conn -> bytes, closed: set of conns, peerClosed/userClosed: sets of conns]

Conns == {"A", "B", "G"}
Slots == 0 .. 4096
InitVal == [owner |-> [s \in {} |-> ""], fetched |-> {}, inBatch |-> FALSE, freed |-> {},
            sent |-> [c \in Conns |-> 0], got |-> [c \in Conns |-> 0],
            closed |-> {}, peerClosed |-> {}, userClosed |-> {}, slotOf |-> [c \in Conns |-> -1]]

Owner(s) == IF s \in DOMAIN q.owner THEN q.owner[s] ELSE ""

OpenedViol(c, s) ==
    (IF Owner(s) # "" THEN {"C10.slot_has_two_owners"} ELSE {})
    \* a slot released after the current batch was fetched may still be referenced by a fetched event
    \cup (IF q.inBatch /\ s \in q.freed THEN {"C10.slot_reassigned_while_fetched_events_pending"} ELSE {})
OpenedEff(c, s) == [q EXCEPT !.owner = [x \in DOMAIN q.owner \cup {s} |-> IF x = s THEN c ELSE q.owner[x]],
                              !.slotOf[c] = s]

SlotFreeEff(s) == [q EXCEPT !.owner = [x \in DOMAIN q.owner \cup {s} |-> IF x = s THEN "" ELSE q.owner[x]],
                            !.freed = IF q.inBatch THEN @ \cup {s} ELSE @]

RecvViol(c, n, ok) ==
    (IF ok = 0 THEN {"C10.connection_received_foreign_or_wrong_bytes"} ELSE {})
    \cup (IF q.got[c] + n > q.sent[c] THEN {"C10.connection_received_more_than_its_peer_sent"} ELSE {})

\* a connection is torn down only because its own peer closed or its own user closed it
ClosedViol(c) == IF c \notin q.peerClosed /\ c \notin q.userClosed THEN {"C10.connection_torn_down_by_anothers_event"} ELSE {}

EpilogueViol(healthy, closedOk) ==
    (IF healthy = 0 THEN {"C10.bystander_starved_or_corrupted"} ELSE {})
    \cup (IF closedOk = 0 THEN {"C10.bystander_close_blocked"} ELSE {})
=============================================================================
