------------------------------ MODULE ReadProto ------------------------------
(***************************************************************************)
(* Implementation-shaped specification of the input hand-off of one        *)
(* connection without a request handler (connection_impl.go: Next ->       *)
(* waitRead / waitReadWithTimeout, Release, triggerRead;                   *)
(* connection_reactor.go: inputs, inputAck, onHup; the read and hang-up    *)
(* branches of the poller's handler; nocopy_linkbuffer.go: Next's length    *)
(* check and re-calculation) together with the socket, the peer (sends,     *)
(* then closes) and the read timer.  Property C07.                          *)
(*                                                                         *)
(* One action = what the code does between two schedule points; a pc is     *)
(* named after the point the goroutine is parked at (id in verif_on.go):    *)
(*   reader  r_len0(31) r_ws(32) r_loop(31) r_st(2) r_wait(22) r_waitT(23)  *)
(*           r_dbl(31) r_tdrain(26) r_nlen(31) r_nsub(30) r_rl(31)          *)
(*           r_ract(2) r_rdo(10) r_rl2(31) r_rdone(11)                      *)
(*   poller  p_fetch(1001) p_ev(42) p_do(10) p_add(30) p_ws(32) p_trig(20)  *)
(*           p_ra(30) p_det(14) p_done(11)                                  *)
(*   hup     h_start(41) h_close(1) h_trig(20) h_trigw(21)                  *)
(*   environment: the peer sends / closes; the read timer fires.            *)
(* Deviations (FALSE for the code as it is):                               *)
(*   Dev_NoTimerDrain   a timed read that was satisfied by data leaves a    *)
(*                      tick that already fired in the timer's channel      *)
(*   Dev_NoDoubleCheck  a tick ends the read without looking at the buffer  *)
(***************************************************************************)
EXTENDS Integers, Sequences, FiniteSets, TLC

CONSTANTS MaxN, NOps, MaxSend, Dev_NoTimerDrain, Dev_NoDoubleCheck,
          Dev_NoEofRecheck     \* end-of-stream is returned without a second look at the buffer (the code before the repair of F19)

VARIABLES ops, opi,          \* the reader's program: sequence of [n, timed]; index of the current Next
          rpc, rerr,         \* reader: pc, error the current wait is about to return ("none" while undecided)
          inlen,             \* inputBuffer length
          wrs,               \* waitReadSize
          rt,                \* readTrigger: <<>> or <<"nil">> or <<"eof">>
          closing,           \* keychain[closing]: 0, 2 (poller)
          opst,              \* FDOperator state: 1 in use, 2 do..done
          timer,             \* "off" | "armed" | "fired"
          ticked,            \* history: the timer fired during the current Next
          pend, sent, peerClosed, detached,   \* bytes in the socket, bytes the peer has sent, FIN sent, descriptor deregistered
          ppc, pk, pevhup,   \* poller: pc, bytes read by the current event, the fetched event carries RDHUP (the peer had closed when epoll_wait returned)
          hpc,               \* hang-up goroutine: "none" | pc | "done"
          rets               \* finished Nexts: [res, have, ticked] (have: buffer length when the wait ended)
vars == <<ops, opi, rpc, rerr, inlen, wrs, rt, closing, opst, timer, ticked, pend, sent, peerClosed, detached, ppc, pk, pevhup, hpc, rets>>

Init ==
    /\ ops \in [1 .. NOps -> [n : 1 .. MaxN, timed : BOOLEAN]]
    /\ opi = 1 /\ rpc = "r_len0" /\ rerr = "none" /\ inlen = 0 /\ wrs = 0 /\ rt = <<>> /\ closing = 0 /\ opst = 1
    /\ timer = "off" /\ ticked = FALSE /\ pend = 0 /\ sent = 0 /\ peerClosed = FALSE /\ detached = FALSE
    /\ ppc = "p_fetch" /\ pk = 0 /\ pevhup = FALSE /\ hpc = "none" /\ rets = <<>>

Cur == ops[opi]
Put(ch, v) == IF ch = <<>> THEN <<v>> ELSE ch      \* non-blocking send into a one-slot channel

\* the wait is over with result res: remember it, clear waitReadSize (deferred), go on to LinkBuffer.Next or to the next operation
EndWait(res) ==
    /\ rets' = Append(rets, [res |-> res, have |-> inlen, ticked |-> ticked])
    /\ wrs' = 0
    /\ IF res = "nil" THEN rpc' = "r_nlen" /\ UNCHANGED opi
       ELSE rpc' = "r_len0" /\ opi' = opi + 1       \* an error: the harness does not call Release

\* leaving a timed wait through RET: stop the timer, drain a tick that already fired
ViaRet(res) ==
    IF timer = "fired" /\ ~Dev_NoTimerDrain
    THEN rpc' = "r_tdrain" /\ rerr' = res /\ UNCHANGED <<rets, wrs, opi, timer>>
    ELSE EndWait(res) /\ rerr' = "none" /\ timer' = (IF timer = "fired" THEN "fired" ELSE "off")

\* ---- reader ---------------------------------------------------------------------
RLen0 ==     \* waitRead: enough already?
    /\ rpc = "r_len0" /\ opi <= Len(ops)
    /\ ticked' = FALSE
    /\ IF Cur.n <= inlen
          THEN rets' = Append(rets, [res |-> "nil", have |-> inlen, ticked |-> FALSE]) /\ rpc' = "r_nlen"
          ELSE rpc' = "r_ws" /\ UNCHANGED rets
    /\ UNCHANGED <<ops, opi, rerr, inlen, wrs, rt, closing, opst, timer, pend, sent, peerClosed, detached, ppc, pk, pevhup, hpc>>

RWs ==       \* publish waitReadSize; a timed read (re)arms the timer
    /\ rpc = "r_ws"
    /\ wrs' = Cur.n /\ rpc' = "r_loop"
    /\ timer' = IF Cur.timed THEN (IF timer = "fired" THEN "fired" ELSE "armed") ELSE timer   \* Reset does not remove a tick left in the channel
    /\ UNCHANGED <<ops, opi, rerr, inlen, rt, closing, opst, ticked, pend, sent, peerClosed, detached, ppc, pk, pevhup, hpc, rets>>

RLoop ==     \* for inputBuffer.Len() < n
    /\ rpc = "r_loop"
    /\ IF inlen >= Cur.n
          THEN (IF Cur.timed THEN ViaRet("nil") ELSE EndWait("nil") /\ UNCHANGED <<rerr, timer>>)
          ELSE rpc' = "r_st" /\ UNCHANGED <<rets, wrs, opi, rerr, timer>>
    /\ UNCHANGED <<ops, inlen, rt, closing, opst, ticked, pend, sent, peerClosed, detached, ppc, pk, pevhup, hpc>>

RSt ==       \* switch c.status(closing)
    /\ rpc = "r_st"
    /\ IF closing = 2
          THEN IF Dev_NoEofRecheck
               THEN (IF Cur.timed THEN ViaRet("eof") ELSE EndWait("eof") /\ UNCHANGED <<rerr, timer>>)
               ELSE rpc' = "r_st2" /\ UNCHANGED <<rets, wrs, opi, rerr, timer>>
          ELSE rpc' = (IF Cur.timed THEN "r_waitT" ELSE "r_wait") /\ UNCHANGED <<rets, wrs, opi, rerr, timer>>
    /\ UNCHANGED <<ops, inlen, rt, closing, opst, ticked, pend, sent, peerClosed, detached, ppc, pk, pevhup, hpc>>

RSt2 ==      \* closed by the peer: the last bytes may have been buffered after the length test: look again
    /\ rpc = "r_st2"
    /\ LET res == IF inlen >= Cur.n THEN "nil" ELSE "eof" IN
       IF Cur.timed THEN ViaRet(res) ELSE EndWait(res) /\ UNCHANGED <<rerr, timer>>
    /\ UNCHANGED <<ops, inlen, rt, closing, opst, ticked, pend, sent, peerClosed, detached, ppc, pk, pevhup, hpc>>

RWait ==     \* err = <-readTrigger
    /\ rpc = "r_wait" /\ rt # <<>>
    /\ rt' = <<>>
    /\ IF Head(rt) = "nil" THEN rpc' = "r_loop" /\ UNCHANGED <<rets, wrs, opi>> ELSE EndWait(Head(rt))
    /\ UNCHANGED <<ops, rerr, inlen, closing, opst, timer, ticked, pend, sent, peerClosed, detached, ppc, pk, pevhup, hpc>>

RWaitT ==    \* select { case <-timer.C ; case err = <-readTrigger }
    /\ rpc = "r_waitT"
    /\ \/ /\ timer = "fired" /\ timer' = "off"
          /\ IF Dev_NoDoubleCheck THEN EndWait("timeout") ELSE rpc' = "r_dbl" /\ UNCHANGED <<rets, wrs, opi>>
          /\ UNCHANGED <<rt, rerr>>
       \/ /\ rt # <<>> /\ rt' = <<>>
          /\ IF Head(rt) = "nil" THEN rpc' = "r_loop" /\ UNCHANGED <<rets, wrs, opi, rerr, timer>> ELSE ViaRet(Head(rt))
    /\ UNCHANGED <<ops, inlen, closing, opst, ticked, pend, sent, peerClosed, detached, ppc, pk, pevhup, hpc>>

RDbl ==      \* the tick won: "double check if there is enough data to be read"
    /\ rpc = "r_dbl"
    /\ EndWait(IF inlen >= Cur.n THEN "nil" ELSE "timeout")
    /\ UNCHANGED <<ops, rerr, inlen, rt, closing, opst, timer, ticked, pend, sent, peerClosed, detached, ppc, pk, pevhup, hpc>>

RTDrain ==   \* <-timer.C after Stop() returned false
    /\ rpc = "r_tdrain"
    /\ timer' = "off" /\ EndWait(rerr) /\ rerr' = "none"
    /\ UNCHANGED <<ops, inlen, rt, closing, opst, ticked, pend, sent, peerClosed, detached, ppc, pk, pevhup, hpc>>

RNLen ==     \* LinkBuffer.Next: length check
    /\ rpc = "r_nlen" /\ rpc' = "r_nsub"
    /\ UNCHANGED <<ops, opi, rerr, inlen, wrs, rt, closing, opst, timer, ticked, pend, sent, peerClosed, detached, ppc, pk, pevhup, hpc, rets>>

RNSub ==     \* recalLen(-n); the bytes are handed to the caller; the harness calls Release
    /\ rpc = "r_nsub"
    /\ inlen' = inlen - Cur.n /\ rpc' = "r_rl"
    /\ UNCHANGED <<ops, opi, rerr, wrs, rt, closing, opst, timer, ticked, pend, sent, peerClosed, detached, ppc, pk, pevhup, hpc, rets>>

NextOp == rpc' = "r_len0" /\ opi' = opi + 1

RRl ==       \* Release: only an empty input buffer is tuned
    /\ rpc = "r_rl"
    /\ IF inlen = 0 THEN rpc' = "r_ract" /\ UNCHANGED opi ELSE NextOp
    /\ UNCHANGED <<ops, rerr, inlen, wrs, rt, closing, opst, timer, ticked, pend, sent, peerClosed, detached, ppc, pk, pevhup, hpc, rets>>

RRact ==     \* IsActive()
    /\ rpc = "r_ract"
    /\ IF closing = 0 THEN rpc' = "r_rdo" /\ UNCHANGED opi ELSE NextOp
    /\ UNCHANGED <<ops, rerr, inlen, wrs, rt, closing, opst, timer, ticked, pend, sent, peerClosed, detached, ppc, pk, pevhup, hpc, rets>>

RRdo ==      \* operator.do(): competes with the poller's handling of this descriptor
    /\ rpc = "r_rdo"
    /\ IF opst = 1 THEN opst' = 2 /\ rpc' = "r_ract2" /\ UNCHANGED opi ELSE NextOp /\ UNCHANGED opst
    /\ UNCHANGED <<ops, rerr, inlen, wrs, rt, closing, timer, ticked, pend, sent, peerClosed, detached, ppc, pk, pevhup, hpc, rets>>

RRact2 ==    \* the token is held: IsActive() again (the slot is this connection's only while it is active)
    /\ rpc = "r_ract2" /\ rpc' = IF closing = 0 THEN "r_rl2" ELSE "r_rdone"
    /\ UNCHANGED <<ops, opi, rerr, inlen, wrs, rt, closing, opst, timer, ticked, pend, sent, peerClosed, detached, ppc, pk, pevhup, hpc, rets>>

RRl2 ==      \* "double check length to reset tail node"
    /\ rpc = "r_rl2" /\ rpc' = "r_rdone"
    /\ UNCHANGED <<ops, opi, rerr, inlen, wrs, rt, closing, opst, timer, ticked, pend, sent, peerClosed, detached, ppc, pk, pevhup, hpc, rets>>

RRdone ==
    /\ rpc = "r_rdone" /\ opst' = 1 /\ NextOp
    /\ UNCHANGED <<ops, rerr, inlen, wrs, rt, closing, timer, ticked, pend, sent, peerClosed, detached, ppc, pk, pevhup, hpc, rets>>

Reader == RLen0 \/ RWs \/ RLoop \/ RSt \/ RSt2 \/ RWait \/ RWaitT \/ RDbl \/ RTDrain \/ RNLen \/ RNSub \/ RRl \/ RRact \/ RRdo \/ RRact2 \/ RRl2 \/ RRdone

\* ---- poller ------------------------------------------------------------------------
Readable == ~detached /\ (pend > 0 \/ peerClosed)

PFetch ==
    /\ ppc = "p_fetch" /\ Readable /\ ppc' = "p_ev" /\ pevhup' = peerClosed
    /\ UNCHANGED <<ops, opi, rpc, rerr, inlen, wrs, rt, closing, opst, timer, ticked, pend, sent, peerClosed, detached, pk, hpc, rets>>

PEv == /\ ppc = "p_ev" /\ ppc' = "p_do"
       /\ UNCHANGED <<ops, opi, rpc, rerr, inlen, wrs, rt, closing, opst, timer, ticked, pend, sent, peerClosed, detached, pk, pevhup, hpc, rets>>

PDo ==       \* operator.do(); Inputs (book); readv
    /\ ppc = "p_do"
    /\ IF opst # 1 THEN ppc' = "p_fetch" /\ UNCHANGED <<opst, pk, pend>>      \* the reader's Release holds the operator: the event is skipped
       ELSE opst' = 2 /\ pk' = pend /\ pend' = 0 /\ ppc' = "p_add"
    /\ UNCHANGED <<ops, opi, rpc, rerr, inlen, wrs, rt, closing, timer, ticked, sent, peerClosed, detached, pevhup, hpc, rets>>

PAdd ==      \* inputAck: bookAck publishes the length; nothing read and the peer has closed: hang-up
    /\ ppc = "p_add"
    /\ inlen' = inlen + pk
    /\ ppc' = IF pk > 0 THEN "p_ws" ELSE "p_det"
    /\ UNCHANGED <<ops, opi, rpc, rerr, wrs, rt, closing, opst, timer, ticked, pend, sent, peerClosed, detached, pk, pevhup, hpc, rets>>

PWs ==       \* needTrigger && length >= waitReadSize
    /\ ppc = "p_ws"
    /\ ppc' = IF inlen >= wrs THEN "p_trig" ELSE (IF pevhup THEN "p_ra" ELSE "p_done")
    /\ UNCHANGED <<ops, opi, rpc, rerr, inlen, wrs, rt, closing, opst, timer, ticked, pend, sent, peerClosed, detached, pk, pevhup, hpc, rets>>

PTrig == /\ ppc = "p_trig" /\ rt' = Put(rt, "nil") /\ ppc' = (IF pevhup THEN "p_ra" ELSE "p_done")
         /\ UNCHANGED <<ops, opi, rpc, rerr, inlen, wrs, closing, opst, timer, ticked, pend, sent, peerClosed, detached, pk, pevhup, hpc, rets>>

PRa ==       \* the event carried RDHUP: readall reads until end-of-stream (InputAck(0)); bytes were read, so no hang-up in this round
    /\ ppc = "p_ra" /\ ppc' = "p_done"
    /\ UNCHANGED <<ops, opi, rpc, rerr, inlen, wrs, rt, closing, opst, timer, ticked, pend, sent, peerClosed, detached, pk, pevhup, hpc, rets>>

PDet ==      \* appendHup: Control(PollDetach)
    /\ ppc = "p_det" /\ detached' = TRUE /\ ppc' = "p_done"
    /\ UNCHANGED <<ops, opi, rpc, rerr, inlen, wrs, rt, closing, opst, timer, ticked, pend, sent, peerClosed, pk, pevhup, hpc, rets>>

PDone ==     \* operator.done(); a hang-up collected in this batch is handed to a goroutine of its own
    /\ ppc = "p_done" /\ opst' = 1 /\ ppc' = "p_fetch"
    /\ hpc' = IF detached /\ hpc = "none" THEN "h_start" ELSE hpc
    /\ UNCHANGED <<ops, opi, rpc, rerr, inlen, wrs, rt, closing, timer, ticked, pend, sent, peerClosed, detached, pk, pevhup, rets>>

Poller == PFetch \/ PEv \/ PDo \/ PAdd \/ PWs \/ PTrig \/ PRa \/ PDet \/ PDone

\* ---- hang-up goroutine (onHup) ---------------------------------------------------------
HStart == /\ hpc = "h_start" /\ hpc' = "h_close"
          /\ UNCHANGED <<ops, opi, rpc, rerr, inlen, wrs, rt, closing, opst, timer, ticked, pend, sent, peerClosed, detached, ppc, pk, pevhup, rets>>
HClose == /\ hpc = "h_close" /\ closing' = 2 /\ hpc' = "h_trig"
          /\ UNCHANGED <<ops, opi, rpc, rerr, inlen, wrs, rt, opst, timer, ticked, pend, sent, peerClosed, detached, ppc, pk, pevhup, rets>>
HTrig == /\ hpc = "h_trig" /\ rt' = Put(rt, "eof") /\ hpc' = "h_trigw"
         /\ UNCHANGED <<ops, opi, rpc, rerr, inlen, wrs, closing, opst, timer, ticked, pend, sent, peerClosed, detached, ppc, pk, pevhup, rets>>
HTrigW == /\ hpc = "h_trigw" /\ hpc' = "done"
          /\ UNCHANGED <<ops, opi, rpc, rerr, inlen, wrs, rt, closing, opst, timer, ticked, pend, sent, peerClosed, detached, ppc, pk, pevhup, rets>>
Hup == HStart \/ HClose \/ HTrig \/ HTrigW

\* ---- environment ----------------------------------------------------------------------
PeerSend == /\ ~peerClosed /\ sent < MaxSend
            /\ \E k \in 1 .. 2 : sent + k <= MaxSend /\ sent' = sent + k /\ pend' = pend + k
            /\ UNCHANGED <<ops, opi, rpc, rerr, inlen, wrs, rt, closing, opst, timer, ticked, peerClosed, detached, ppc, pk, pevhup, hpc, rets>>
PeerClose == /\ ~peerClosed /\ peerClosed' = TRUE
             /\ UNCHANGED <<ops, opi, rpc, rerr, inlen, wrs, rt, closing, opst, timer, ticked, pend, sent, detached, ppc, pk, pevhup, hpc, rets>>
TimerFire == /\ timer = "armed" /\ rpc = "r_waitT" /\ timer' = "fired" /\ ticked' = TRUE
             /\ UNCHANGED <<ops, opi, rpc, rerr, inlen, wrs, rt, closing, opst, pend, sent, peerClosed, detached, ppc, pk, pevhup, hpc, rets>>

Next == Reader \/ Poller \/ Hup \/ PeerSend \/ PeerClose \/ TimerFire
Spec == Init /\ [][Next]_vars

\* the schedule point a goroutine is parked at
RPt == CASE rpc \in {"r_len0", "r_loop", "r_dbl", "r_nlen", "r_rl", "r_rl2", "r_st2"} -> 31 [] rpc = "r_ws" -> 32 [] rpc \in {"r_st", "r_ract", "r_ract2"} -> 2
         [] rpc = "r_wait" -> 22 [] rpc = "r_waitT" -> 23 [] rpc = "r_tdrain" -> 26 [] rpc = "r_nsub" -> 30 [] rpc = "r_rdo" -> 10 [] rpc = "r_rdone" -> 11 [] OTHER -> 0
PPt == CASE ppc = "p_fetch" -> 1001 [] ppc = "p_ev" -> 42 [] ppc = "p_do" -> 10 [] ppc \in {"p_add", "p_ra"} -> 30 [] ppc = "p_ws" -> 32 [] ppc = "p_trig" -> 20
         [] ppc = "p_det" -> 14 [] ppc = "p_done" -> 11 [] OTHER -> 0
HPt == CASE hpc = "h_start" -> 41 [] hpc = "h_close" -> 1 [] hpc = "h_trig" -> 20 [] hpc = "h_trigw" -> 21 [] OTHER -> 0

\* ---- properties ---------------------------------------------------------------------
TypeOK == inlen \in Nat /\ Len(rt) <= 1 /\ closing \in {0, 2} /\ opst \in {1, 2} /\ timer \in {"off", "armed", "fired"}

\* a read returns nil only with enough bytes buffered, a time-out only after the timer fired during this read and with too few bytes
Results == \A j \in 1 .. Len(rets) :
    /\ (rets[j].res = "nil" => rets[j].have >= ops[j].n)
    /\ (rets[j].res = "timeout" => rets[j].ticked /\ rets[j].have < ops[j].n)
    /\ (rets[j].res = "eof" => rets[j].have < ops[j].n)
\* (before the repair of F19 the loop tested the length first and the closing word second and answered bytes that landed between the two
\* tests with end-of-stream although they were buffered: Dev_NoEofRecheck)
EofOnlyWhenShort == \A j \in 1 .. Len(rets) : rets[j].res = "eof" => rets[j].have < ops[j].n
\* the length never goes negative: LinkBuffer.Next after a successful wait always finds its bytes
NeverShort == (rpc = "r_nsub") => inlen >= Cur.n
\* a read without timeout that waits can still be woken when it has to be: enough bytes are buffered or the connection is closed, and
\* no signal / poller step / hang-up step is on its way
NoLostWakeup == (rpc = "r_wait" /\ (inlen >= Cur.n \/ closing = 2)) => (rt # <<>> \/ ppc # "p_fetch" \/ hpc \notin {"none", "done"})
\* no tick is left behind for the next timed read
NoStaleTick == (rpc = "r_ws") => timer # "fired"
\* the operator token is returned
TokenBack == (rpc = "r_len0" /\ ppc = "p_fetch") => opst = 1
=============================================================================
