--------------------------- MODULE PollerVectors ---------------------------
(* The finite vector space of property C11 (see PollerObs.tla); evaluating this module prints it. *)
EXTENDS Integers, Sequences, FiniteSets, TLC

FlagSets == SUBSET {"IN", "OUT", "RDHUP", "HUP", "ERR"}
Pendings == {0, 3, 9000}
Peers == {"open", "fin", "rst"}
Ways == {"real", "synth", "synthfull"}   \* synthfull: write-readiness reported, but the send buffer has filled up by the time the handler sends
Transports == {"unix", "tcp"}

\* Linux reports a hang-up only for a closed peer, and always together with IN (end-of-file is readable)
Consistent(f, peer) == (("HUP" \in f \/ "RDHUP" \in f) => (peer # "open" /\ "IN" \in f))

Vectors ==
    {<<f, p, pe, o, w, tr>> \in FlagSets \X Pendings \X Peers \X BOOLEAN \X Ways \X Transports :
        /\ (w = "real" => f = {})
        /\ (w = "synth" => f # {} /\ Consistent(f, pe))
        /\ (w = "synthfull" => f = {"OUT"} /\ o /\ pe = "open" /\ p = 0)
        \* EPOLLERR is injected on TCP only: there the error-queue probe has its documented meaning
        \* (empty queue = zero-copy style notification, no hang-up); AF_UNIX has no error queue
        /\ ("ERR" \in f => tr = "tcp")
        /\ (pe = "rst" => tr = "tcp")}     \* an abortive close needs SO_LINGER 0 on TCP

ASSUME PrintT(<<"VECTORS", Vectors>>)
=============================================================================
