\* simulate config: few, node-boundary sizes so that long histories stay on 2-4 nodes
\* (LinkBufferCap is 4096: 4096-sized writes fill a node exactly, 100/4000 leave odd remainders)
INIT Init
NEXT SimNext
CONSTANTS
  MaxBufs = 7
  Caps = {0, 4096, 8192}
  WSizes = {1, 96, 100, 4000, 4096, 4097, 5000}
  RSizes = {1, 96, 100, 4000, 4096}
  MaxLive = 4
  MaxSrc = 100000
CHECK_DEADLOCK FALSE
