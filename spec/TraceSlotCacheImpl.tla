-------------------------- MODULE TraceSlotCacheImpl --------------------------
(* Conformance of recorded executions of the real operator cache / FDOperator / poller handler (slot-level harness:     *)
(* users opening and closing descriptors through Alloc / Control / Free on a manual poller, peers, controlled scheduler)   *)
(* with SlotCache.tla: each line is one step of the schedule actually taken - the actor, the schedule point it was parked   *)
(* at, and after the step the state word, owner and detach mark of every named slot, the freeable queue and the returned    *)
(* part of the free list.                                                                                                   *)
EXTENDS SlotCache, Json

Trace == ndJsonDeserialize("sched.ndjson")
VARIABLE l
tvars == <<vars, l>>
TInit == Init /\ l = 1 /\ TLCSet(2, 0)

ResetVars(ev) ==
    /\ slot' = [i \in 1 .. MaxSlot |-> NoSlot] /\ named' = 0 /\ supply' = ev.supply /\ ret' = <<>> /\ pend' = <<>>
    /\ u' = [c \in Conns |-> [pc |-> "u_start", s |-> 0, reg |-> FALSE, open |-> FALSE]]
    /\ k' = [c \in Conns |-> [pending |-> 0, sent |-> 0, peerClosed |-> FALSE]]
    /\ P' = [pc |-> "p_wait", msec |-> -1, batch |-> <<>>, i |-> 0, hups |-> <<>>]
    /\ H' = <<>> /\ got' = [c \in Conns |-> 0] /\ torn' = {} /\ bad' = {}

Code(o) == CASE o = "A" -> 1 [] o = "B" -> 2 [] o = "G" -> 3 [] OTHER -> 0
Pad(s) == [j \in 1 .. 4 |-> IF j <= Len(s) THEN s[j] ELSE 0]
ProjOk(ev) ==
    /\ \A i \in 1 .. 4 : /\ slot'[i].st = ev.st[i] /\ Code(slot'[i].owner) = ev.ow[i] /\ (slot'[i].det = (ev.dt[i] = 1))
    /\ Len(pend') = ev.np /\ (Len(pend') <= 4 => Pad(pend') = ev.pend)
    /\ (Len(ret') <= 4 => (Len(ret') = ev.nr /\ Pad(ret') = ev.ret))

\* the bound on what a peer sends is the specification's, not the trace's
Send(c) == /\ u[c].open /\ ~k[c].peerClosed
           /\ k' = [k EXCEPT ![c].pending = @ + 1, ![c].sent = @ + 1]
           /\ UNCHANGED <<slot, named, supply, ret, pend, u, P, H, got, torn, bad>>

TNext ==
    /\ l <= Len(Trace)
    /\ LET ev == Trace[l] IN
       IF ev.g = "reset" THEN ResetVars(ev)
       ELSE /\ CASE ev.g = "u" -> (UPt(ev.c) = ev.pt /\ UserNext(ev.c))
                 [] ev.g = "p" -> (PPt = ev.pt /\ PollerNext)
                 [] ev.g = "h" -> (ev.pt = 41 /\ HRun)
                 [] ev.g = "send" -> Send(ev.c)
                 [] ev.g = "close" -> PeerClose(ev.c)
                 [] OTHER -> FALSE
            /\ ProjOk(ev)
    /\ l' = l + 1
    /\ TLCSet(2, IF l' - 1 > TLCGet(2) THEN l' - 1 ELSE TLCGet(2))

TSpec == TInit /\ [][TNext]_tvars
Report == PrintT(<<"IMPL-RESULT", TLCGet(2), Len(Trace), TRUE>>)
=============================================================================
