\* exhaustive sanity check of the observable spec itself (small constants, bounded sources)
INIT Init
NEXT Next_
CONSTANTS
  MaxBufs = 2
  Caps = {0}
  WSizes = {2}
  RSizes = {1}
  MaxLive = 1
  MaxSrc = 2
CONSTRAINT SrcBoundQuick
VIEW ViewNoOut
INVARIANTS NoDuplication WellFormed
CHECK_DEADLOCK FALSE
