----------------------------- MODULE TraceSlot -----------------------------
EXTENDS SlotObs, Json, TLC, Sequences
Trace == ndJsonDeserialize("trace.ndjson")
VARIABLES l, viol
tvars == <<q, l, viol>>
TraceInit == q = InitVal /\ l = 1 /\ viol = {} /\ TLCSet(1, <<0, {}>>)
\* (bounded: a build in which almost every event breaks a rule would otherwise make every state carry an ever larger set)
Judge(ev, V) == viol' = IF Cardinality(viol) < 400 THEN viol \cup {<<ev.t, l, r>> : r \in V} ELSE viol

Step(ev) ==
    CASE ev.e = "Init" -> q' = InitVal /\ UNCHANGED viol
      [] ev.e = "Opened" -> q' = OpenedEff(ev.k, ev.n) /\ Judge(ev, OpenedViol(ev.k, ev.n))
      [] ev.e = "SlotFree" -> q' = SlotFreeEff(ev.n) /\ UNCHANGED viol
      [] ev.e = "Fetched" -> q' = [q EXCEPT !.inBatch = TRUE, !.fetched = @ \cup {ev.n}] /\ UNCHANGED viol
      [] ev.e = "BatchEnd" -> q' = [q EXCEPT !.inBatch = FALSE, !.fetched = {}, !.freed = {}] /\ UNCHANGED viol
      [] ev.e = "PeerSend" -> q' = [q EXCEPT !.sent[ev.k] = @ + ev.n] /\ UNCHANGED viol
      [] ev.e = "PeerClose" -> q' = [q EXCEPT !.peerClosed = @ \cup {ev.k}] /\ UNCHANGED viol
      [] ev.e = "Call" /\ ev.k = "CloseA" -> q' = [q EXCEPT !.userClosed = @ \cup {"A"}] /\ UNCHANGED viol
      [] ev.e = "Call" /\ ev.k = "CloseB" -> q' = [q EXCEPT !.userClosed = @ \cup {"B"}] /\ UNCHANGED viol
      [] ev.e = "Call" /\ ev.k = "CloseG" -> q' = [q EXCEPT !.userClosed = @ \cup {"G"}] /\ UNCHANGED viol
      \* (slot-level harness) a read event dispatched to a connection whose descriptor has nothing to read and whose peer is open
      [] ev.e = "Spurious" -> Judge(ev, {"C10.event_dispatched_to_another_connection"}) /\ UNCHANGED q
      [] ev.e = "Recv" -> q' = [q EXCEPT !.got[ev.k] = @ + ev.n] /\ Judge(ev, IF ev.k = "B" \/ ev.err = "judge" THEN RecvViol(ev.k, ev.n, ev.m) ELSE {})
      [] ev.e = "Closed" -> q' = [q EXCEPT !.closed = @ \cup {ev.k}] /\ Judge(ev, ClosedViol(ev.k))
      [] ev.e = "Epilogue" -> Judge(ev, EpilogueViol(ev.n, ev.m)) /\ UNCHANGED q
      [] ev.e = "Panic" -> Judge(ev, {"C10.panic"}) /\ UNCHANGED q
      [] OTHER -> UNCHANGED <<q, viol>>

TraceNext == l <= Len(Trace) /\ Step(Trace[l]) /\ l' = l + 1 /\ TLCSet(1, <<l', viol'>>)
TraceSpec == TraceInit /\ [][TraceNext]_tvars
Report == PrintT(<<"TRACE-RESULT", TLCGet(1)[1] - 1, Len(Trace), TLCGet(1)[2]>>)
=============================================================================
