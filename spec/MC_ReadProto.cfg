CONSTANTS
  MaxN = 3
  NOps = 2
  MaxSend = 4
  Dev_NoTimerDrain = FALSE
  Dev_NoEofRecheck = FALSE
  Dev_NoDoubleCheck = FALSE
SPECIFICATION Spec
INVARIANTS TypeOK Results NeverShort NoLostWakeup NoStaleTick TokenBack
CHECK_DEADLOCK FALSE
