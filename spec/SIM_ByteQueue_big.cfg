\* simulate config: the 8 MiB pool limit (mallocMax) and large nodes
INIT Init
NEXT SimNext
CONSTANTS
  MaxBufs = 7
  Caps = {0, 4096}
  WSizes = {1, 4096, 1048576, 8388607, 8388608, 8388609}
  RSizes = {1, 4096, 1048576, 8388608}
  MaxLive = 3
  MaxSrc = 100000
CHECK_DEADLOCK FALSE
