----------------------------- MODULE PollerObs -----------------------------
(***************************************************************************)
(* Property C11: what the poller does with the events of ONE registered     *)
(* descriptor.  The vector space (event flags x kernel-side state of the     *)
(* descriptor x how the event reaches the handler) is finite; TLC            *)
(* enumerates it (Vectors), the harness builds each kernel state on real      *)
(* sockets, lets the real handler dispatch, and records the callbacks of a    *)
(* recording FDOperator.  TracePoller.tla judges the recorded callback        *)
(* sequences with the rules below.                                            *)
(*                                                                         *)
(* Vector = <<flags, pending, peer, out, way, transport>>                    *)
(*   flags    subset of {IN, OUT, RDHUP, HUP, ERR} injected into the handler  *)
(*            (way = "synth"); for way = "real" the kernel's own flags are     *)
(*            used and this component is {}                                  *)
(*   pending  bytes the peer has sent and the descriptor has not read:        *)
(*            0, 3 (< one booking) or 9000 (> one booking of 4096)             *)
(*   peer     "open", "fin" (orderly shutdown/close after the data) or         *)
(*            "rst" (abortive close)                                         *)
(*   out      TRUE: the operator has 5 bytes to send when writability is       *)
(*            reported                                                       *)
(* Only kernel-consistent vectors are injected: HUP/RDHUP are never reported   *)
(* for a descriptor whose peer is open, and never without IN.                 *)
(***************************************************************************)
EXTENDS PollerVectors

\* ---- the observable machine of one descriptor -----------------------------
VARIABLE d  \* [sent, delivered, hups, detached, peer, outAcked, outReceived, userDetached, lateCallbacks]

InitVal(peer) == [sent |-> 0, delivered |-> 0, hups |-> 0, peer |-> peer, outAcked |-> 0, outReceived |-> 0,
                  userDetached |-> FALSE, errInjected |-> FALSE]

InputAckViol(n, ok) ==
    (IF ok = 0 THEN {"C11.delivered_bytes_wrong_or_out_of_order"} ELSE {})
    \cup (IF d.delivered + n > d.sent THEN {"C11.delivered_more_than_sent"} ELSE {})
    \cup (IF d.hups > 0 /\ n > 0 THEN {"C11.input_after_hangup"} ELSE {})
    \cup (IF d.userDetached THEN {"C11.callback_after_detach"} ELSE {})

\* registered: the descriptor is still in the poller's interest set when OnHup runs
OnHupViol(registered) ==
    (IF d.hups > 0 THEN {"C11.hangup_reported_twice"} ELSE {})
    \cup (IF registered = 1 THEN {"C11.hangup_before_deregistration"} ELSE {})
    \cup (IF d.peer = "fin" /\ d.delivered < d.sent THEN {"C11.hangup_before_pending_bytes_were_delivered"} ELSE {})
    \cup (IF d.peer = "open" /\ ~d.errInjected THEN {"C11.hangup_without_cause"} ELSE {})
    \cup (IF d.userDetached THEN {"C11.callback_after_detach"} ELSE {})

OutputAckViol(n, accepted) ==
    (IF n # accepted THEN {"C11.outputack_count_differs_from_bytes_accepted"} ELSE {})
    \cup (IF d.userDetached THEN {"C11.callback_after_detach"} ELSE {})

\* after the batches have been pumped to quiescence
FinalViol(peerGot) ==
    (IF d.peer \in {"fin", "rst"} /\ d.hups # 1 /\ ~d.userDetached THEN {"C11.hangup_never_reported"} ELSE {})
    \cup (IF d.peer = "fin" /\ d.delivered # d.sent /\ ~d.userDetached THEN {"C11.bytes_lost_before_hangup"} ELSE {})
    \cup (IF peerGot # d.outAcked THEN {"C11.peer_received_other_than_acknowledged"} ELSE {})

=============================================================================
