------------------------------ MODULE TracePM ------------------------------
EXTENDS PollManagerObs, Json, TLC, Sequences, FiniteSets
Trace == ndJsonDeserialize("trace.ndjson")
VARIABLES l, viol, pe
tvars == <<l, viol, pe>>
TraceInit == l = 1 /\ viol = {} /\ pe = <<0, 0, 0>> /\ TLCSet(1, <<0, {}>>)
\* (bounded: a build in which almost every event breaks a rule would otherwise make every state carry an ever larger set)
Judge(ev, V) == viol' = IF Cardinality(viol) < 400 THEN viol \cup {<<ev.t, l, r>> : r \in V} ELSE viol
ToInt(s) == CASE s = "0" -> 0 [] s = "1" -> 1 [] s = "" -> 0 [] OTHER -> 2
Step(ev) ==
    CASE ev.e = "PickRet" -> Judge(ev, PickViol(ev.m)) /\ UNCHANGED pe
      [] ev.e = "PhaseEnd" -> pe' = <<ev.n, ev.m, ToInt(ev.err)>> /\ UNCHANGED viol
      [] ev.e = "PhaseCfg" -> Judge(ev, PhaseViol(pe[1], pe[2], pe[3], ev.n)) /\ UNCHANGED pe
      [] ev.e = "Panic" -> Judge(ev, {"C18.pick_panicked"}) /\ UNCHANGED pe
      [] OTHER -> UNCHANGED <<viol, pe>>
TraceNext == l <= Len(Trace) /\ Step(Trace[l]) /\ l' = l + 1 /\ TLCSet(1, <<l', viol'>>)
TraceSpec == TraceInit /\ [][TraceNext]_tvars
Report == PrintT(<<"TRACE-RESULT", TLCGet(1)[1] - 1, Len(Trace), TLCGet(1)[2]>>)
=============================================================================
