---------------------------- MODULE ByteQueue ----------------------------
(***************************************************************************)
(* Observable specification of netpoll's LinkBuffer family (properties     *)
(* C01, C02, C03): a buffer is a plain FIFO byte queue.                    *)
(*                                                                         *)
(* Bytes are never represented; a byte is identified by (source, position) *)
(* where every write operation creates a fresh source.  A queue is a       *)
(* sequence of segments [s, lo, hi) of sources.  The conformance harness   *)
(* fills source s with PRF(s, pos) and compares what the real LinkBuffer   *)
(* returns with the segments this specification computes.                  *)
(*                                                                         *)
(* Buffer kinds                                                            *)
(*   "rw"  NewLinkBuffer(cap) used through the Writer and Reader API       *)
(*   "in"  a connection's input buffer: written with book/bookAck (the     *)
(*         poller's path: connection.inputs/inputAck), read through the    *)
(*         Reader API, released through connection.Release (resetTail)     *)
(*   "sl"  a read-only Slice reader cut from another buffer                *)
(*                                                                         *)
(* Contract guards (what "contract-respecting" means) are the enabling     *)
(* conditions of the actions; they follow the doc comments in nocopy.go:   *)
(*   no call on a buffer after Close or after it was passed to Append;     *)
(*   MallocAck(n) with 0 <= n <= MallocLen;                                *)
(*   Append(b, d) only when b has nothing pending and no result read from  *)
(*     d is still in use;                                                  *)
(*   WriteDirect(extra, remain) only when everything pending came from     *)
(*     Malloc and remain <= the size of the last Malloc;                   *)
(*   Slice readers are only read and released.                             *)
(***************************************************************************)
EXTENDS Integers, Sequences, FiniteSets

CONSTANTS
    MaxBufs,    \* buffer ids 1..MaxBufs
    Caps,       \* initial capacities offered to NewLinkBuffer
    WSizes,     \* sizes offered to the writer operations
    RSizes,     \* sizes offered to the reader operations (besides Len-relative ones)
    MaxLive,    \* at most this many zero-copy results alive at once (bounds the state)
    MaxSrc      \* bound on the number of sources (used by CONSTRAINT in exhaustive runs)

VARIABLES
    bufs,       \* [1..MaxBufs -> buffer record]
    srcs,       \* Seq of [n, dl, k]: size, delimiter position (-1 = none), kind
    live,       \* set of zero-copy results still owed to the user: [rid, owner, segs, zc]
    nrid,       \* next result id
    last        \* output only: the operation just performed and what it must return

vars == <<bufs, srcs, live, nrid, last>>

Seg(s, lo, hi) == [s |-> s, lo |-> lo, hi |-> hi]

RECURSIVE SLen(_)
SLen(q) == IF q = <<>> THEN 0 ELSE (Head(q).hi - Head(q).lo) + SLen(Tail(q))

RECURSIVE Take(_, _)
Take(q, n) ==
    IF n <= 0 \/ q = <<>> THEN <<>>
    ELSE LET h == Head(q)
             l == h.hi - h.lo
         IN IF l <= n THEN <<h>> \o Take(Tail(q), n - l)
            ELSE <<Seg(h.s, h.lo, h.lo + n)>>

RECURSIVE Drop(_, _)
Drop(q, n) ==
    IF n <= 0 \/ q = <<>> THEN q
    ELSE LET h == Head(q)
             l == h.hi - h.lo
         IN IF l <= n THEN Drop(Tail(q), n - l)
            ELSE <<Seg(h.s, h.lo + n, h.hi)>> \o Tail(q)

\* offset of the first delimiter byte in q, or -1
RECURSIVE FirstDelim(_, _)
FirstDelim(q, acc) ==
    IF q = <<>> THEN -1
    ELSE LET h == Head(q)
             d == srcs[h.s].dl
         IN IF d >= h.lo /\ d < h.hi THEN acc + (d - h.lo)
            ELSE FirstDelim(Tail(q), acc + (h.hi - h.lo))

NoBuf == [st |-> "none", kind |-> "rw", rd |-> <<>>, pd |-> <<>>, pk |-> "none", lm |-> 0, cap |-> 0, ap |-> FALSE]
Bufs == 1..MaxBufs
Alive(b) == bufs[b].st = "live"
RLen(b) == SLen(bufs[b].rd)
MLen(b) == SLen(bufs[b].pd)
FreeBufs == {b \in Bufs : bufs[b].st = "none"}
NewBuf == CHOOSE b \in FreeBufs : \A c \in FreeBufs : b <= c
Writable(b) == Alive(b) /\ bufs[b].kind = "rw"
\* After b.Append(d) the only documented continuation is "more writes, then Flush" (connection
\* output path, mux.ShardQueue): until that Flush nothing is read from b and nothing is un-malloc'ed.
Readable(b) == Alive(b) /\ ~bufs[b].ap
LiveOf(b) == {r \in live : r.owner = b}
ZcLive == {r \in live : r.zc}

Out(op, b, a1, a2, err, res, rid, nb, src) ==
    [op |-> op, b |-> b, a1 |-> a1, a2 |-> a2, err |-> err, res |-> res,
     rid |-> rid, nb |-> nb, src |-> src, si |-> <<>>]

NewSrc(n, dl, k) == Append(srcs, [n |-> n, dl |-> dl, k |-> k])
-----------------------------------------------------------------------------
Init ==
    /\ bufs = [b \in Bufs |-> NoBuf]
    /\ srcs = <<>>
    /\ live = {}
    /\ nrid = 1
    /\ last = Out("init", 0, 0, 0, FALSE, <<>>, 0, 0, 0)

\* ---- construction -------------------------------------------------------
New(c) ==
    /\ FreeBufs # {}
    /\ LET b == NewBuf IN
       /\ bufs' = [bufs EXCEPT ![b] = [NoBuf EXCEPT !.st = "live", !.kind = "rw", !.cap = c]]
       /\ last' = Out("New", b, c, 0, FALSE, <<>>, 0, 0, 0)
    /\ UNCHANGED <<srcs, live, nrid>>

NewIn ==
    /\ FreeBufs # {}
    /\ LET b == NewBuf IN
       /\ bufs' = [bufs EXCEPT ![b] = [NoBuf EXCEPT !.st = "live", !.kind = "in"]]
       /\ last' = Out("NewIn", b, 0, 0, FALSE, <<>>, 0, 0, 0)
    /\ UNCHANGED <<srcs, live, nrid>>

\* ---- writer side --------------------------------------------------------
Pend(b, n, dl, k, op, a2) ==
    LET s == Len(srcs) + 1 IN
    /\ srcs' = NewSrc(n, dl, k)
    /\ bufs' = [bufs EXCEPT ![b].pd = @ \o <<Seg(s, 0, n)>>,
                            ![b].pk = IF k = "malloc" /\ @ \in {"none", "malloc"} THEN "malloc" ELSE "mixed",
                            ![b].lm = IF k = "malloc" THEN n ELSE 0]
    /\ last' = [Out(op, b, n, a2, FALSE, <<>>, 0, 0, s) EXCEPT !.si = <<n, dl, k>>]
    /\ UNCHANGED <<live, nrid>>

DlChoices(n) == {-1, 0, n - 1, n \div 2} \cap (-1 .. n - 1)

Malloc(b, n, dl) == Writable(b) /\ n > 0 /\ dl \in DlChoices(n) /\ Pend(b, n, dl, "malloc", "Malloc", 0)
WriteByte(b, dl) == Writable(b) /\ dl \in DlChoices(1) /\ Pend(b, 1, dl, "malloc", "WriteByte", 0)
\* WriteBinary copies up to 4 KiB and keeps the caller's memory above; the spec does not care,
\* the harness keeps the caller's slice and checks it is never written nor returned to the pool.
WriteBinary(b, n, dl) == Writable(b) /\ n > 0 /\ dl \in DlChoices(n) /\ Pend(b, n, dl, "caller", "WriteBinary", 0)
WriteString(b, n, dl) == Writable(b) /\ n > 0 /\ dl \in DlChoices(n) /\ Pend(b, n, dl, "caller", "WriteString", 0)

MallocAck(b, k) ==
    /\ Writable(b) /\ ~bufs[b].ap /\ k >= 0 /\ k <= MLen(b)
    /\ bufs' = [bufs EXCEPT ![b].pd = Take(@, k),
                            ![b].pk = IF k = 0 THEN "none" ELSE @,
                            ![b].lm = 0]
    /\ last' = Out("MallocAck", b, k, 0, FALSE, <<>>, 0, 0, 0)
    /\ UNCHANGED <<srcs, live, nrid>>

Flush(b) ==
    /\ Writable(b)
    /\ bufs' = [bufs EXCEPT ![b].rd = @ \o bufs[b].pd, ![b].pd = <<>>, ![b].pk = "none", ![b].lm = 0, ![b].ap = FALSE]
    /\ last' = Out("Flush", b, 0, 0, FALSE, <<>>, 0, 0, 0)
    /\ UNCHANGED <<srcs, live, nrid>>

\* extra is inserted `remain` bytes before the end of what has been malloc'ed
WriteDirect(b, n, remain, dl) ==
    /\ Writable(b) /\ n > 0 /\ dl \in DlChoices(n)
    /\ bufs[b].pk = "malloc" /\ remain >= 0 /\ remain <= bufs[b].lm
    /\ LET s == Len(srcs) + 1
           m == MLen(b) - remain
       IN /\ srcs' = NewSrc(n, dl, "caller")
          /\ bufs' = [bufs EXCEPT ![b].pd = Take(@, m) \o <<Seg(s, 0, n)>> \o Drop(@, m),
                                  ![b].pk = "mixed", ![b].lm = 0]
          /\ last' = [Out("WriteDirect", b, n, remain, FALSE, <<>>, 0, 0, s) EXCEPT !.si = <<n, dl, "caller">>]
    /\ UNCHANGED <<live, nrid>>

\* b.Append(d): d's readable bytes become readable in b at once, d's pending bytes pending in b.
\* (p = append(p, w.p): defined when the two do not interleave, i.e. b has nothing pending or d has
\* nothing readable - the ShardQueue appends many pending-only writers and then flushes once.)
AppendBuf(b, d) ==
    /\ Writable(b) /\ Writable(d) /\ b # d /\ ~bufs[d].ap
    /\ (bufs[b].pd = <<>> \/ bufs[d].rd = <<>>) /\ LiveOf(d) = {}
    /\ IF RLen(d) + MLen(d) = 0
       THEN bufs' = bufs
       ELSE bufs' = [bufs EXCEPT ![b].rd = @ \o bufs[d].rd,
                                 ![b].pd = @ \o bufs[d].pd,
                                 ![b].pk = "mixed",
                                 ![b].lm = 0,
                                 ![b].ap = TRUE,
                                 ![d] = [NoBuf EXCEPT !.st = "dead"]]
    /\ last' = Out("Append", b, d, 0, FALSE, <<>>, 0, 0, 0)
    /\ UNCHANGED <<srcs, live, nrid>>

\* the poller's input path: book / readv / bookAck repeated until w bytes arrived (w = 0: EAGAIN)
BookFill(b, w, dl) ==
    /\ Alive(b) /\ bufs[b].kind = "in" /\ w >= 0 /\ dl \in DlChoices(w) \cup {-1}
    /\ LET s == Len(srcs) + 1 IN
       IF w = 0
       THEN /\ UNCHANGED <<bufs, srcs>>
            /\ last' = Out("BookFill", b, 0, 0, FALSE, <<>>, 0, 0, 0)
       ELSE /\ srcs' = NewSrc(w, dl, "book")
            /\ bufs' = [bufs EXCEPT ![b].rd = @ \o <<Seg(s, 0, w)>>]
            /\ last' = [Out("BookFill", b, w, 0, FALSE, <<>>, 0, 0, s) EXCEPT !.si = <<w, dl, "book">>]
    /\ UNCHANGED <<live, nrid>>

\* ---- reader side --------------------------------------------------------
ReadN(b) == {n \in RSizes \cup {RLen(b), RLen(b) - 1, RLen(b) \div 2, RLen(b) + 1} : n >= 0 /\ n <= RLen(b) + 1}

\* a failing read: more than readable is asked for; nothing is consumed
Fail(op, b, n) ==
    /\ n > RLen(b)
    /\ last' = Out(op, b, n, 0, TRUE, <<>>, 0, 0, 0)
    /\ UNCHANGED <<bufs, srcs, live, nrid>>

Consume(b, n) == [bufs EXCEPT ![b].rd = Drop(@, n)]

\* zero-copy consuming read
Next(b, n) ==
    /\ Readable(b) /\ n \in ReadN(b)
    /\ \/ Fail("Next", b, n)
       \/ /\ n <= RLen(b) /\ (n = 0 \/ Cardinality(ZcLive) < MaxLive)
          /\ bufs' = Consume(b, n)
          /\ live' = IF n = 0 THEN live ELSE live \cup {[rid |-> nrid, owner |-> b, segs |-> Take(bufs[b].rd, n), zc |-> TRUE]}
          /\ nrid' = IF n = 0 THEN nrid ELSE nrid + 1
          /\ last' = Out("Next", b, n, 0, FALSE, Take(bufs[b].rd, n), IF n = 0 THEN 0 ELSE nrid, 0, 0)
          /\ UNCHANGED srcs

Peek(b, n) ==
    /\ Readable(b) /\ n \in ReadN(b)
    /\ \/ Fail("Peek", b, n)
       \/ /\ n <= RLen(b) /\ (n = 0 \/ Cardinality(ZcLive) < MaxLive)
          /\ live' = IF n = 0 THEN live ELSE live \cup {[rid |-> nrid, owner |-> b, segs |-> Take(bufs[b].rd, n), zc |-> TRUE]}
          /\ nrid' = IF n = 0 THEN nrid ELSE nrid + 1
          /\ last' = Out("Peek", b, n, 0, FALSE, Take(bufs[b].rd, n), IF n = 0 THEN 0 ELSE nrid, 0, 0)
          /\ UNCHANGED <<bufs, srcs>>

Skip(b, n) ==
    /\ Readable(b) /\ n \in ReadN(b)
    /\ \/ Fail("Skip", b, n)
       \/ /\ n <= RLen(b)
          /\ bufs' = Consume(b, n)
          /\ last' = Out("Skip", b, n, 0, FALSE, <<>>, 0, 0, 0)
          /\ UNCHANGED <<srcs, live, nrid>>

\* copying reads: the result is the caller's private memory for ever (never written, never pooled)
CopyRead(op, b, n) ==
    /\ Readable(b) /\ n \in ReadN(b)
    /\ \/ Fail(op, b, n)
       \/ /\ n <= RLen(b)
          /\ bufs' = Consume(b, n)
          /\ live' = IF n = 0 THEN live ELSE live \cup {[rid |-> nrid, owner |-> 0, segs |-> Take(bufs[b].rd, n), zc |-> FALSE]}
          /\ nrid' = IF n = 0 THEN nrid ELSE nrid + 1
          /\ last' = Out(op, b, n, 0, FALSE, Take(bufs[b].rd, n), IF n = 0 THEN 0 ELSE nrid, 0, 0)
          /\ UNCHANGED srcs

ReadBinary(b, n) == CopyRead("ReadBinary", b, n)
ReadString(b, n) == CopyRead("ReadString", b, n)

ReadByte(b) ==
    /\ Readable(b)
    /\ \/ /\ RLen(b) = 0 /\ Fail("ReadByte", b, 1)
       \/ /\ RLen(b) >= 1
          /\ bufs' = Consume(b, 1)
          /\ last' = Out("ReadByte", b, 1, 0, FALSE, Take(bufs[b].rd, 1), 0, 0, 0)
          /\ UNCHANGED <<srcs, live, nrid>>

\* io.Reader style copy (connection.Read -> readCopy): min(len(p), Len) bytes, never fails
ReadCopy(b, n) ==
    /\ Readable(b) /\ bufs[b].kind # "sl" /\ n \in ReadN(b) /\ n > 0
    /\ LET m == IF n <= RLen(b) THEN n ELSE RLen(b) IN
       /\ bufs' = Consume(b, m)
       /\ last' = Out("ReadCopy", b, n, 0, FALSE, Take(bufs[b].rd, m), 0, 0, 0)
    /\ UNCHANGED <<srcs, live, nrid>>

Until(b) ==
    /\ Readable(b)
    /\ LET i == FirstDelim(bufs[b].rd, 0) IN
       IF i < 0
       THEN /\ last' = Out("Until", b, 0, 0, TRUE, <<>>, 0, 0, 0)
            /\ UNCHANGED <<bufs, srcs, live, nrid>>
       ELSE /\ Cardinality(ZcLive) < MaxLive
            /\ bufs' = Consume(b, i + 1)
            /\ live' = live \cup {[rid |-> nrid, owner |-> b, segs |-> Take(bufs[b].rd, i + 1), zc |-> TRUE]}
            /\ nrid' = nrid + 1
            /\ last' = Out("Until", b, i + 1, 0, FALSE, Take(bufs[b].rd, i + 1), nrid, 0, 0)
            /\ UNCHANGED srcs

\* Slice(n): a new read-only buffer holding the first n readable bytes; documented as
\*   p = this.Next(n); reader = new Reader(p); this.Release(); return reader
Slice(b, n) ==
    /\ Readable(b) /\ n \in ReadN(b) /\ n > 0
    /\ \/ Fail("Slice", b, n)
       \/ /\ n <= RLen(b) /\ FreeBufs # {}
          /\ LET nb == NewBuf IN
             /\ bufs' = [Consume(b, n) EXCEPT ![nb] = [NoBuf EXCEPT !.st = "live", !.kind = "sl", !.rd = Take(bufs[b].rd, n)]]
             /\ last' = Out("Slice", b, n, 0, FALSE, Take(bufs[b].rd, n), 0, nb, 0)
          \* nocopy.go: "Slice would also Release this Reader" - results read from b die here
          /\ live' = {r \in live : r.owner # b}
          /\ UNCHANGED <<srcs, nrid>>

\* the vectors handed to sendmsg (in-package GetBytes): all readable bytes, zero-copy
GetBytes(b) ==
    /\ Readable(b) /\ bufs[b].kind = "rw" /\ RLen(b) > 0 /\ Cardinality(ZcLive) < MaxLive
    /\ live' = live \cup {[rid |-> nrid, owner |-> b, segs |-> bufs[b].rd, zc |-> TRUE]}
    /\ nrid' = nrid + 1
    /\ last' = Out("GetBytes", b, 0, 0, FALSE, bufs[b].rd, nrid, 0, 0)
    /\ UNCHANGED <<bufs, srcs>>

\* Release ends the life of every zero-copy result obtained from this reader
Release(b) ==
    /\ Readable(b)
    /\ live' = {r \in live : r.owner # b}
    /\ last' = Out("Release", b, 0, 0, FALSE, <<>>, 0, 0, 0)
    /\ UNCHANGED <<bufs, srcs, nrid>>

Close(b) ==
    /\ Alive(b) /\ bufs[b].kind = "rw"
    /\ bufs' = [bufs EXCEPT ![b] = [NoBuf EXCEPT !.st = "dead"]]
    /\ live' = {r \in live : r.owner # b}
    /\ last' = Out("Close", b, 0, 0, FALSE, <<>>, 0, 0, 0)
    /\ UNCHANGED <<srcs, nrid>>

-----------------------------------------------------------------------------
WriterStep ==
    \/ \E c \in Caps : New(c)
    \/ NewIn
    \/ \E b \in Bufs :
        \/ \E n \in WSizes, dl \in {-1, 0} \cup WSizes : Malloc(b, n, dl) \/ WriteBinary(b, n, dl) \/ WriteString(b, n, dl)
        \/ \E dl \in {-1, 0} : WriteByte(b, dl)
        \/ \E k \in {0, 1, MLen(b), MLen(b) - 1, MLen(b) \div 2} : MallocAck(b, k)
        \/ Flush(b)
        \/ \E n \in WSizes, r \in {0, 1, bufs[b].lm, bufs[b].lm \div 2} : WriteDirect(b, n, r, -1)
        \/ \E d \in Bufs : AppendBuf(b, d)
        \/ \E w \in WSizes \cup {0}, dl \in {-1, 0} : BookFill(b, w, dl)

ReaderStep ==
    \E b \in Bufs :
        \/ \E n \in ReadN(b) : Next(b, n) \/ Peek(b, n) \/ Skip(b, n) \/ ReadBinary(b, n) \/ ReadString(b, n)
                               \/ ReadCopy(b, n) \/ Slice(b, n)
        \/ ReadByte(b)
        \/ Until(b)
        \/ GetBytes(b)
        \/ Release(b)
        \/ Close(b)

Next_ == WriterStep \/ ReaderStep

Spec == Init /\ [][Next_]_vars

-----------------------------------------------------------------------------
\* Sanity properties of the specification itself (checked exhaustively on small constants).

\* every byte position of a source appears at most once across all queues (no duplication)
AllSegs == UNION {{<<b, "rd", i>> : i \in DOMAIN bufs[b].rd} \cup {<<b, "pd", i>> : i \in DOMAIN bufs[b].pd} : b \in Bufs}
SegOf(x) == IF x[2] = "rd" THEN bufs[x[1]].rd[x[3]] ELSE bufs[x[1]].pd[x[3]]
NoDuplication ==
    \A x, y \in AllSegs : x # y =>
        LET p == SegOf(x) q == SegOf(y) IN p.s # q.s \/ p.hi <= q.lo \/ q.hi <= p.lo

WellFormed ==
    /\ \A b \in Bufs : \A i \in DOMAIN bufs[b].rd : bufs[b].rd[i].lo < bufs[b].rd[i].hi /\ bufs[b].rd[i].hi <= srcs[bufs[b].rd[i].s].n
    /\ \A b \in Bufs : bufs[b].st # "live" => bufs[b].rd = <<>> /\ bufs[b].pd = <<>>
    /\ \A r \in live : r.zc => (r.owner \in Bufs /\ bufs[r.owner].st = "live")
    /\ \A b \in Bufs : bufs[b].kind = "sl" => bufs[b].pd = <<>>

\* exhaustive runs identify states that differ only in the output record / result counter
ViewNoOut == <<bufs, srcs, {[o |-> r.owner, g |-> r.segs, z |-> r.zc] : r \in live}>>

SrcBound == Len(srcs) <= MaxSrc /\ nrid <= MaxSrc + 2
SrcBoundQuick == Len(srcs) <= MaxSrc /\ nrid <= 2
=============================================================================
