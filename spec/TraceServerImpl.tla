-------------------------- MODULE TraceServerImpl --------------------------
(* Conformance of recorded executions of the real server (TCP listener on one manual poller, the accepted       *)
(* connection on another, a client, Shutdown; controlled scheduler) with Server.tla: each line is one step of the   *)
(* schedule actually taken - the goroutine (listener poller, connection poller, task i, hang-up goroutine,          *)
(* shutdown, client), the schedule point it was parked at, and after the step the connection's keys, state word,    *)
(* input length, operator state, detach counter and the server's bookkeeping (entry in connections, accepts in      *)
(* progress, closeCallbackRun).                                                                                   *)
EXTENDS Server, Json

Trace == ndJsonDeserialize("sched.ndjson")
VARIABLE l
tvars == <<svars, l>>
TInit == SInit /\ l = 1 /\ TLCSet(2, 0) /\ TLCSet(3, {})

ResetVars ==
    /\ sh' = [closing |-> 0, connecting |-> 0, processing |-> 0, st |-> 0, inlen |-> 0, opst |-> 0, det |-> 0, reg |-> FALSE]
    /\ env' = [pend |-> 0, sent |-> 0, peerClosed |-> FALSE]
    /\ P' = [pc |-> "p_fetch", k |-> 0, hup |-> FALSE, need |-> FALSE]
    /\ H' = [pc |-> "none"]
    /\ T' = [i \in 1 .. MaxTasks |-> NoTask]
    /\ nt' = 0
    /\ C' = [pc |-> "none"]
    /\ hist' = [conn |-> 2, req |-> 0, reqs |-> 0, cc |-> 0, ccn |-> 0, od |-> 0, pcl |-> 0, bad |-> {}]
    /\ L' = [pc |-> "l_fetch"]
    /\ S' = [pc |-> "s_det", sweeps |-> 0, active |-> 0, ret |-> "none"]
    /\ srv' = [tracked |-> FALSE, untrackReg |-> FALSE, cbRun |-> FALSE, accepting |-> 0, lnOpen |-> TRUE, syn |-> FALSE, accepted |-> FALSE]
    /\ shist' = {}

ProjOk(ev) ==
    /\ sh'.closing = ev.closing /\ sh'.connecting = ev.connecting /\ sh'.processing = ev.processing /\ sh'.st = ev.st
    /\ sh'.inlen = ev.inlen /\ sh'.opst = ev.opst /\ sh'.det = ev.det
    /\ srv'.tracked = (ev.tracked = 1) /\ srv'.accepting = ev.accepting /\ srv'.cbRun = (ev.cbrun = 1)

ClientStep(k) ==
    CASE k = -1 -> IF srv.lnOpen THEN ClientConnect ELSE UNCHANGED svars     \* dialing a closed listener is refused
      [] k = 0 -> ClientClose
      [] OTHER -> /\ (srv.syn \/ srv.accepted) /\ ~env.peerClosed /\ env' = [env EXCEPT !.sent = @ + k, !.pend = @ + k]
                  /\ UNCHANGED <<sh, P, H, T, nt, C, hist, L, S, srv, shist>>

TNext ==
    /\ l <= Len(Trace)
    /\ LET ev == Trace[l] IN
       IF ev.g = "reset" THEN ResetVars
       ELSE /\ CASE ev.g = "t" -> (ev.i \in 1 .. MaxTasks /\ TPt(ev.i) = ev.pt /\ TaskS(ev.i))
                 [] ev.g = "q" -> (PPt = ev.pt /\ PollerS)
                 [] ev.g = "h" -> (HPt = ev.pt /\ HupS)
                 [] ev.g = "l" -> (LPt = ev.pt /\ LNext)
                 [] ev.g = "s" -> (SPt = ev.pt /\ SNext)
                 [] ev.g = "client" -> ClientStep(ev.k)
                 [] OTHER -> FALSE
            /\ ProjOk(ev)
    /\ l' = l + 1
    /\ TLCSet(2, IF l' - 1 > TLCGet(2) THEN l' - 1 ELSE TLCGet(2))
    /\ TLCSet(3, TLCGet(3) \cup shist' \cup hist'.bad)

TSpec == TInit /\ [][TNext]_tvars
Report == PrintT(<<"IMPL-RESULT", TLCGet(2), Len(Trace), TLCGet(3)>>)
=============================================================================
