CONSTANTS
  MaxTasks = 5
  MaxSend = 2
  WithOnConnect = TRUE
  WithOnDisconnect = TRUE
  HandlerCloses = FALSE
  WithCloser = FALSE
  Dev_NoConnRecheck = FALSE
  Dev_NoInputRecheck = TRUE
  Dev_HupLockTwice = FALSE
  Dev_NoHupTask = FALSE
SPECIFICATION Spec
INVARIANTS NoBadButF11 AllOffered
CHECK_DEADLOCK FALSE
