INIT Init
NEXT SimNext
CONSTANTS
  Chunks = {0, 1, 2, 100, 4095, 4096}
  Needs = {1, 2, 100, 4096, 4097, 9000}
  WSizes = {1, 7, 100, 4096, 5000}
  Accepts = {0, 1, 50, 4095}
CHECK_DEADLOCK FALSE
