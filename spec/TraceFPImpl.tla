---------------------------- MODULE TraceFPImpl ----------------------------
(* Conformance of recorded executions of the real output hand-off (connection on a socketpair, manual     *)
(* poller, controlled scheduler) with FlushProto.tla: each line is one step of the schedule actually taken  *)
(* - the actor, the schedule point it was parked at, and after the step the flushing key, the number of     *)
(* signals in writeTrigger, the output buffer length and the bytes in the socket (in units), whether a      *)
(* timer tick is pending.  The actor must stand at that point in the specification, the specification's     *)
(* action of that actor must be enabled, and the projection must agree.  What the kernel decides (how much   *)
(* a sendmsg on a partly filled socket accepts) is chosen by the specification's own nondeterminism.        *)
EXTENDS FlushProto, Json

Trace == ndJsonDeserialize("sched.ndjson")
VARIABLE l
tvars == <<vars, l>>
TInit == Init /\ l = 1 /\ TLCSet(2, 0) /\ TLCSet(3, TRUE)

ResetVars(ev) ==
    /\ ops' = [j \in 1 .. NOps |-> IF j = 1 THEN [n |-> ev.n1, timed |-> ev.t1 = 1] ELSE [n |-> ev.n2, timed |-> ev.t2 = 1]]
    /\ opi' = 1 /\ fpc' = "f_active" /\ fvec' = 0 /\ fk' = 0 /\ fsig' = "none"
    /\ blen' = 0 /\ bvis' = 0 /\ fin' = FALSE /\ pin' = FALSE /\ sock' = 0 /\ drained' = 0 /\ submitted' = 0
    /\ reg' = "R" /\ wt' = <<>> /\ flock' = 0 /\ timer' = "off"
    /\ ppc' = "p_fetch" /\ pvec' = 0 /\ pk' = 0 /\ pev' = FALSE /\ hz' = FALSE /\ rets' = <<>>

\* amounts are logged in thousandths of a unit; only whole units are compared (the kernel's skb accounting is not modelled)
Whole(x) == x % 1000 = 0
ProjOk(ev) ==
    /\ flock' = ev.flock /\ Len(wt') = ev.wt
    /\ (Whole(ev.blen) => blen' * 1000 = ev.blen) /\ (~Whole(ev.blen) => blen' > 0)
    /\ (Whole(ev.sock) => sock' * 1000 = ev.sock)
    /\ (timer' = "fired") = (ev.tick = 1)

TNext ==
    /\ l <= Len(Trace)
    /\ LET ev == Trace[l] IN
       IF ev.g = "reset" THEN ResetVars(ev)
       ELSE /\ CASE ev.g = "f" -> (FPt = ev.pt /\ Flusher)
                 [] ev.g = "p" -> (PPt = ev.pt /\ Poller)
                 [] ev.g = "peer" -> PeerDrain
                 [] ev.g = "wtimer" -> TimerFire
                 [] OTHER -> FALSE
            /\ ProjOk(ev)
    /\ l' = l + 1
    /\ TLCSet(2, IF l' - 1 > TLCGet(2) THEN l' - 1 ELSE TLCGet(2))
    \* did the specification itself reach an overlap of flush() and the poller's write path on this schedule? (finding F16)
    /\ (IF ~ExclusiveBuffer' THEN TLCSet(3, FALSE) ELSE TRUE)

TSpec == TInit /\ [][TNext]_tvars
Report == PrintT(<<"IMPL-RESULT", TLCGet(2), Len(Trace), TLCGet(3)>>)
=============================================================================
