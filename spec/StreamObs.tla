----------------------------- MODULE StreamObs -----------------------------
(***************************************************************************)
(* Observable specification of a one-directional byte stream over a        *)
(* connection (property C04).  Payload bytes are position-coded by the     *)
(* harness, so "the receiver read the identical byte sequence" is the       *)
(* conjunction of                                                          *)
(*   - every delivered chunk equals the stream at the receiver's position   *)
(*     (the harness compares and logs ok), and                             *)
(*   - the counters below: nothing is delivered that was not submitted,     *)
(*     and at end-of-stream everything whose Flush returned nil before the  *)
(*     sender closed has been delivered.                                   *)
(* Nothing is required after the first reported write error.               *)
(***************************************************************************)
EXTENDS Integers, Sequences

VARIABLE s  \* [submitted, flushedOK, delivered, failed, senderClosed, eos]

InitVal == [submitted |-> 0, flushedOK |-> 0, delivered |-> 0, failed |-> FALSE, senderClosed |-> FALSE, eos |-> FALSE]

SubmitEff(n) == [s EXCEPT !.submitted = @ + n]
FlushedEff(n, err) == IF err = "nil" THEN [s EXCEPT !.flushedOK = @ + n] ELSE [s EXCEPT !.failed = TRUE]

DeliverViol(n, ok) ==
    (IF ok = 0 THEN {"C04.delivered_bytes_differ_from_stream"} ELSE {})
    \cup (IF s.delivered + n > s.submitted THEN {"C04.delivered_more_than_submitted"} ELSE {})
    \cup (IF s.eos THEN {"C04.delivery_after_end_of_stream"} ELSE {})
DeliverEff(n) == [s EXCEPT !.delivered = @ + n]

EosViol(total) ==
    (IF ~s.failed /\ s.senderClosed /\ s.delivered < s.flushedOK THEN {"C04.end_of_stream_before_all_flushed_bytes_delivered"} ELSE {})
    \cup (IF total # s.delivered THEN {"C04.harness_accounting"} ELSE {})

Next ==
    \/ \E n \in 1 .. 3 : s' = SubmitEff(n)
    \/ \E n \in 1 .. 3, e \in {"nil", "closed"} : s' = FlushedEff(n, e)
    \/ \E n \in 1 .. 3 : DeliverViol(n, 1) = {} /\ s' = DeliverEff(n)
    \/ s' = [s EXCEPT !.senderClosed = TRUE]
    \/ EosViol(s.delivered) = {} /\ s' = [s EXCEPT !.eos = TRUE]
=============================================================================
