SPECIFICATION Spec
CONSTANTS
  NShards = 2
  Adders = {"a1", "a2"}
  AddsPer = 1
  Dev_TrigBeforeRing = FALSE
  Dev_EarlyClosed = FALSE
INVARIANTS CloseWaits
CHECK_DEADLOCK FALSE
