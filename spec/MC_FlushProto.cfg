CONSTANTS
  Cap = 2
  MaxN = 3
  NOps = 2
  Dev_NoStaleCheck = FALSE
  Dev_NoStaleCheckUntimed = FALSE
  Dev_NoRearm = FALSE
  EagerKernel = TRUE
SPECIFICATION Spec
CONSTRAINT NoOverlap
INVARIANTS TypeOK NilMeansTaken Conservation LenAgrees NoLostWakeup TimedHasTimer NoStaleTick
CHECK_DEADLOCK FALSE
