---------------------------- MODULE TracePMImpl ----------------------------
(* Conformance of recorded executions of the real manager.Pick with PollManager.tla: the schedule   *)
(* taken (picker per step, "phase" lines between phases, "reset" between executions) and the          *)
(* projection (status, pool size, numLoops) after every step must be a behaviour of the model.         *)
EXTENDS PollManager, Json
Trace == ndJsonDeserialize("sched.ndjson")
VARIABLE l
tvars == <<vars, l>>
TInit == Init /\ l = 1 /\ TLCSet(2, 0)
ResetVars ==
    /\ status' = Uninit /\ numLoops' = Sizes[1] /\ polls' = <<>> /\ nextId' = 1 /\ running' = {} /\ rr' = 0
    /\ phase' = 1 /\ pc' = [p \in Pickers |-> "p_load"] /\ left' = [p \in Pickers |-> PicksPer] /\ seen' = [p \in Pickers |-> 0]
    /\ snap' = [p \in Pickers |-> <<>>] /\ cnt' = [i \in {} |-> 0] /\ bad' = FALSE
TNext ==
    /\ l <= Len(Trace)
    /\ LET ev == Trace[l] IN
       CASE ev.g = "reset" -> ResetVars
         [] ev.g = "phase" -> NextPhase
         [] OTHER -> PStep(ev.g) /\ status' = ev.status /\ Len(polls') = ev.npolls /\ numLoops' = ev.numloops
    /\ l' = l + 1
    /\ TLCSet(2, l' - 1)
TSpec == TInit /\ [][TNext]_tvars
Report == PrintT(<<"IMPL-RESULT", TLCGet(2), Len(Trace)>>)
=============================================================================
