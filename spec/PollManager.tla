----------------------------- MODULE PollManager -----------------------------
(***************************************************************************)
(* Implementation-shaped specification of the poller pool (property C18):  *)
(* manager.Pick with its three-state status word, Run (grow / shrink /       *)
(* rebalance) and the round-robin counter.  Pickers are separate processes;    *)
(* reconfiguration (SetNumLoops / SetLoadBalance) happens between phases,      *)
(* when no Pick is in flight (the documented contract).                       *)
(* pc labels follow the schedule points in poll_manager.go:                   *)
(*   p_load (status load)  p_cas (CAS uninit->initializing)  p_spin (Gosched,  *)
(*   retry)  p_run / p_apply (Run)  p_cas2 (CAS initializing->initialized)     *)
(***************************************************************************)
EXTENDS Integers, Sequences, FiniteSets, TLC

CONSTANTS Pickers,      \* picker processes
          PicksPer,     \* Pick calls per picker and phase
          S1, S2, S3,   \* numLoops of the three phases
          Dev_NoCAS     \* deviation: the initialising lock is a load + store instead of a CAS

Sizes == <<S1, S2, S3>>
Uninit == 0
Initing == 1
Inited == 2

VARIABLES status, numLoops, polls,   \* polls: sequence of poller ids currently in the pool
          nextId, running,           \* pollers ever opened: ids 1..nextId-1 ; running: set of ids whose loop runs
          rr,                        \* round-robin counter
          phase, pc, left, seen,     \* picker state: pc, picks left in this phase, `seen`: status value loaded (Dev_NoCAS)
          snap,                      \* Run(): the pool as read at its first half (picker -> sequence)
          cnt, bad                   \* history: picks per poller in the current phase; a Pick returned a poller whose loop was not running

vars == <<status, numLoops, polls, nextId, running, rr, phase, pc, left, seen, snap, cnt, bad>>

Init ==
    /\ status = Uninit /\ numLoops = Sizes[1] /\ polls = <<>> /\ nextId = 1 /\ running = {} /\ rr = 0
    /\ phase = 1 /\ pc = [p \in Pickers |-> "p_load"] /\ left = [p \in Pickers |-> PicksPer] /\ seen = [p \in Pickers |-> 0]
    /\ snap = [p \in Pickers |-> <<>>] /\ cnt = [i \in {} |-> 0] /\ bad = FALSE

\* Run(): bring the pool to numLoops pollers: open (and start) the missing ones, close the surplus ones.
\* It reads the pool (first half, r_read) and installs the new slice (second half, r_apply).
RunApply(old) ==
    IF numLoops = Len(old) THEN /\ UNCHANGED <<polls, nextId, running>>
    ELSE IF numLoops < Len(old)
         THEN /\ polls' = SubSeq(old, 1, numLoops)
              /\ running' = running \ {old[i] : i \in numLoops + 1 .. Len(old)}
              /\ UNCHANGED nextId
         ELSE LET k == numLoops - Len(old) IN
              /\ polls' = old \o [i \in 1 .. k |-> nextId + i - 1]
              /\ running' = running \cup {nextId + i - 1 : i \in 1 .. k}
              /\ nextId' = nextId + k

CntOf(id) == IF id \in DOMAIN cnt THEN cnt[id] ELSE 0
PickEff(p) ==
    LET id == polls[((rr + 1) % Len(polls)) + 1] IN
    /\ rr' = rr + 1
    /\ cnt' = [x \in DOMAIN cnt \cup {id} |-> IF x = id THEN CntOf(id) + 1 ELSE cnt[x]]
    /\ bad' = (bad \/ id \notin running)
    /\ left' = [left EXCEPT ![p] = @ - 1]
    /\ pc' = [pc EXCEPT ![p] = IF left[p] - 1 = 0 THEN "idle" ELSE "p_load"]

P_load(p) == /\ pc[p] = "p_load"
             /\ IF status = Inited THEN /\ Len(polls) > 0 /\ PickEff(p) /\ UNCHANGED <<status, numLoops, polls, nextId, running, phase, seen, snap>>
                ELSE /\ pc' = [pc EXCEPT ![p] = "p_cas"] /\ seen' = [seen EXCEPT ![p] = status]
                     /\ UNCHANGED <<status, numLoops, polls, nextId, running, rr, phase, left, snap, cnt, bad>>

P_cas(p) == /\ pc[p] = "p_cas"
            /\ IF Dev_NoCAS
               THEN IF seen[p] = Uninit
                    THEN /\ status' = Initing /\ pc' = [pc EXCEPT ![p] = "p_run"]
                    ELSE /\ pc' = [pc EXCEPT ![p] = "p_spin"] /\ UNCHANGED status
               ELSE IF status = Uninit
                    THEN /\ status' = Initing /\ pc' = [pc EXCEPT ![p] = "p_run"]
                    ELSE /\ pc' = [pc EXCEPT ![p] = "p_spin"] /\ UNCHANGED status
            /\ UNCHANGED <<numLoops, polls, nextId, running, rr, phase, left, seen, snap, cnt, bad>>

P_spin(p) == /\ pc[p] = "p_spin" /\ status # Initing
             /\ pc' = [pc EXCEPT ![p] = "p_load"]
             /\ UNCHANGED <<status, numLoops, polls, nextId, running, rr, phase, left, seen, snap, cnt, bad>>

\* first half of Run: nothing to do if the size already matches, else remember the pool that was read
P_run(p) == /\ pc[p] = "p_run"
            /\ IF numLoops = Len(polls) THEN pc' = [pc EXCEPT ![p] = "p_cas2"] /\ UNCHANGED snap
               ELSE pc' = [pc EXCEPT ![p] = "p_apply"] /\ snap' = [snap EXCEPT ![p] = polls]
            /\ UNCHANGED <<status, numLoops, polls, nextId, running, rr, phase, left, seen, cnt, bad>>
P_apply(p) == /\ pc[p] = "p_apply"
              /\ RunApply(snap[p])
              /\ pc' = [pc EXCEPT ![p] = "p_cas2"]
              /\ UNCHANGED <<status, numLoops, rr, phase, left, seen, snap, cnt, bad>>

P_cas2(p) == /\ pc[p] = "p_cas2"
             /\ status' = IF status = Initing THEN Inited ELSE status
             /\ Len(polls) > 0 /\ PickEff(p)
             /\ UNCHANGED <<numLoops, polls, nextId, running, phase, seen, snap>>

\* between phases: every picker is idle; SetNumLoops stores the size and resets the status
NextPhase == /\ \A p \in Pickers : pc[p] = "idle"
             /\ phase < Len(Sizes)
             /\ phase' = phase + 1 /\ numLoops' = Sizes[phase + 1] /\ status' = Uninit
             /\ pc' = [p \in Pickers |-> "p_load"] /\ left' = [p \in Pickers |-> PicksPer]
             /\ cnt' = [i \in {} |-> 0]
             /\ UNCHANGED <<polls, nextId, running, rr, seen, snap, bad>>

PStep(p) == P_load(p) \/ P_cas(p) \/ P_spin(p) \/ P_run(p) \/ P_apply(p) \/ P_cas2(p)
Next == (\E p \in Pickers : PStep(p)) \/ NextPhase
Spec == Init /\ [][Next]_vars

\* ---- properties (C18)
\* Pick always returns a poller whose loop is running
PickedRunning == ~bad
\* when a phase's picks are done the pool has exactly the configured number of running loops
PhaseDone == \A p \in Pickers : pc[p] = "idle"
ExactSize == PhaseDone => (Cardinality(running) = numLoops /\ Len(polls) = numLoops)
\* round-robin: per-poller counts of one phase differ by at most one
Even == PhaseDone => \A a, b \in {polls[i] : i \in DOMAIN polls} : CntOf(a) - CntOf(b) \in {-1, 0, 1}
=============================================================================
