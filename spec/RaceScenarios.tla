--------------------------- MODULE RaceScenarios ---------------------------
(***************************************************************************)
(* Property C19 cannot be decided by a specification (a data race is a pair *)
(* of unsynchronised memory accesses below the grain of any spec action);     *)
(* what the specifications contribute is the space of in-contract concurrent    *)
(* programs: who closes, reads, flushes, installs handlers, in which callback    *)
(* configuration - one reader, one writer, any number of closers per            *)
(* connection.  TLC enumerates the space below; the harness runs every           *)
(* scenario free-running (no controlled scheduler, no hooks) under Go's race      *)
(* detector with the stock pollers.                                             *)
(***************************************************************************)
EXTENDS Integers, TLC
Kinds == {"closeflush", "closeread", "peerclose", "firstdata", "lateonrequest"}
Cbs == {"none", "onrequest", "onconnect"}
Closers == {1, 3}
Scenarios ==
    {<<k, cb, n, t>> \in Kinds \X Cbs \X Closers \X BOOLEAN :
        /\ (k \in {"closeflush", "closeread"} => cb = "none")          \* the reader / writer is a user goroutine
        /\ (k = "firstdata" => cb \in {"onrequest", "onconnect"})
        /\ (k = "lateonrequest" => cb = "none")
        /\ (k \in {"peerclose", "firstdata", "lateonrequest"} => n = 1)}
ASSUME PrintT(<<"SCENARIOS", Scenarios>>)
=============================================================================
