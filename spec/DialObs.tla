------------------------------- MODULE DialObs -------------------------------
(***************************************************************************)
(* Observable specification of a dial (C14): it returns, within its timeout *)
(* plus slack, either a usable connection or a non-nil error - never both,    *)
(* never neither; on timeout the error reports Timeout(); a failed or timed    *)
(* out dial leaves no descriptor and no poller slot behind.                   *)
(* Events: Init(peer), descriptor open/close and slot alloc/free audit          *)
(* events, CtxExpired, DialRet(err?, hasConn, timeoutFlag, late), Echo(ok),     *)
(* Census(leaked descriptors, slots outstanding), Quiescent(dialer blocked).     *)
(***************************************************************************)
EXTENDS Integers, FiniteSets

VARIABLE d  \* [peer, own: set of open descriptor numbers obtained by the dial, slots: allocs - frees, expired, returned]

InitVal(peer) == [peer |-> peer, anydrop |-> FALSE, own |-> {}, slots |-> 0, expired |-> FALSE, returned |-> FALSE]

\* waited: the harness saw the connect still in progress against a peer that never answers (free-running dials: the expiry is not an event)
RetViolW(isErr, hasConn, toFlag, late, waited) ==
    (IF isErr /\ hasConn = 1 THEN {"C14.dial_returned_both_connection_and_error"} ELSE {})
    \cup (IF ~isErr /\ hasConn = 0 THEN {"C14.dial_returned_neither_connection_nor_error"} ELSE {})
    \* the peer never answers: the only way to fail is the expiry, and that error must say so
    \cup (IF isErr /\ d.expired /\ d.peer = "drop" /\ toFlag = 0 THEN {"C14.timeout_error_does_not_report_timeout"} ELSE {})
    \cup (IF isErr /\ waited /\ toFlag = 0 THEN {"C14.timeout_error_does_not_report_timeout"} ELSE {})
    \cup (IF late = 1 THEN {"C14.dial_returned_long_after_its_timeout"} ELSE {})
RetViol(isErr, hasConn, toFlag, late) == RetViolW(isErr, hasConn, toFlag, late, FALSE)
EndViol(blocked, expireOffered) ==
    \* (judged once the dial has returned and a returned connection has been closed again)
    (IF d.returned /\ d.own # {} THEN {"C14.descriptor_left_behind"} ELSE {})
    \cup (IF d.returned /\ d.slots # 0 THEN {"C14.poller_slot_left_behind"} ELSE {})
    \cup (IF blocked = 1 /\ (~(d.peer = "drop" \/ d.anydrop) \/ d.expired) THEN {"C14.dial_never_returned"} ELSE {})
CensusViol(leaked, slots) ==
    (IF leaked > 0 THEN {"C14.descriptor_left_behind"} ELSE {})
    \cup (IF slots # 0 THEN {"C14.poller_slot_left_behind"} ELSE {})
=============================================================================
