CONSTANTS
  Cap = 2
  MaxN = 3
  NOps = 2
  Dev_NoStaleCheck = FALSE
  Dev_NoRearm = FALSE
  EagerKernel = FALSE
SPECIFICATION Spec
CONSTRAINT BigOps
INVARIANTS ExclusiveBuffer
CHECK_DEADLOCK FALSE
