CONSTANTS
  MaxN = 3
  NOps = 2
  MaxSend = 4
  Dev_NoTimerDrain = FALSE
  Dev_NoEofRecheck = FALSE
  Dev_NoDoubleCheck = TRUE
SPECIFICATION Spec
INVARIANTS Results
CHECK_DEADLOCK FALSE
