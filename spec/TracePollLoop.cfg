SPECIFICATION TraceSpec
POSTCONDITION Report
CHECK_DEADLOCK FALSE
