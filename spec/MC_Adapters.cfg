INIT Init
NEXT Next
CONSTANTS
  Chunks = {0, 1, 2}
  Needs = {1, 3}
  WSizes = {1, 2}
  Accepts = {0, 1}
CONSTRAINT Bound
VIEW View
INVARIANT Inv
CHECK_DEADLOCK FALSE
