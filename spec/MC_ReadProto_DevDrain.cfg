CONSTANTS
  MaxN = 3
  NOps = 2
  MaxSend = 4
  Dev_NoTimerDrain = TRUE
  Dev_NoEofRecheck = FALSE
  Dev_NoDoubleCheck = FALSE
SPECIFICATION Spec
INVARIANTS Results
CHECK_DEADLOCK FALSE
