---------------------------- MODULE TracePLImpl ----------------------------
(* Conformance of recorded executions of the real reactor loop (controlled mode) with the         *)
(* implementation-shaped PollLoop.tla: the schedule actually taken (one actor / environment action  *)
(* per step) with the projection of the shared words after the step (trigger word, array size,      *)
(* where the loop is parked, event index, batch length) must be a behaviour of the specification.   *)
(* What is not logged (which descriptors epoll_wait returned, in which order) is chosen by the       *)
(* specification's own LWait; the high-water mark of consumed lines is reported.                     *)
EXTENDS PollLoop, Json

Trace == ndJsonDeserialize("sched.ndjson")
VARIABLE l
tvars == <<vars, l>>

TInit == Init /\ l = 1 /\ TLCSet(2, 0)

ResetVars(close) ==
    /\ flag' = 0 /\ efdT' = 0 /\ efdC' = 0
    /\ pend' = [d \in LTs |-> 0] /\ sent' = [d \in LTs |-> 0] /\ dlv' = [d \in LTs |-> 0]
    /\ et' = [e \in ETs |-> "unreg"] /\ etGot' = [e \in ETs |-> 0]
    /\ lpc' = "wait" /\ msec' = -1 /\ n' = 0 /\ size' = Size0 /\ batch' = <<>> /\ i' = 0 /\ gotC' = 0
    /\ fdsOpen' = TRUE
    /\ tpc' = [t \in Trigs |-> "add"] /\ calls' = [t \in Trigs |-> 0] /\ owed' = {}
    /\ kpc' = IF close = 1 THEN "msg" ELSE "done"

At(pc) == CASE pc = "wait" -> 0 [] pc = "ev" -> 1 [] pc = "drain" -> 2 [] pc = "rearm" -> 3 [] OTHER -> 4

ProjOk(ev) ==
    /\ flag' = ev.flag /\ size' = ev.size /\ At(lpc') = ev.at
    /\ (lpc' \in {"ev", "drain", "rearm"} => (i' = ev.i /\ Len(batch') = ev.n))

TNext ==
    /\ l <= Len(Trace)
    /\ LET ev == Trace[l] IN
       IF ev.g = "reset" THEN ResetVars(ev.close)
       ELSE /\ CASE ev.g = "loop" -> Loop
                 [] ev.g = "t" -> (TAdd(ev.name) \/ TMsg(ev.name))
                 [] ev.g = "k" -> KMsg
                 [] ev.g = "send" -> Send(ev.name)
                 [] ev.g = "reg" -> Reg(ev.name)
                 [] OTHER -> FALSE
            /\ ProjOk(ev)
    /\ l' = l + 1
    /\ TLCSet(2, IF l' - 1 > TLCGet(2) THEN l' - 1 ELSE TLCGet(2))

TSpec == TInit /\ [][TNext]_tvars
Report == PrintT(<<"IMPL-RESULT", TLCGet(2), Len(Trace)>>)
=============================================================================
