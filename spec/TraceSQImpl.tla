---------------------------- MODULE TraceSQImpl ----------------------------
(* Conformance of a recorded execution of the real ShardQueue with the implementation-shaped   *)
(* specification: the schedule actually taken (one actor name per step, the projection of the   *)
(* shared words after the step) must be a behaviour of ShardQueue.tla.  The result reports how   *)
(* many steps the model could follow and whether the model itself violates CloseWaits /          *)
(* NothingStranded / AtMostOnce at the end of this very schedule (used to tell the recorded      *)
(* design defect F14 from a deviation of the code).                                            *)
EXTENDS ShardQueue, Json

Trace == ndJsonDeserialize("sched.ndjson")
VARIABLE l
tvars == <<vars, l>>

TInit == Init /\ l = 1 /\ TLCSet(2, <<0, TRUE, TRUE, TRUE>>) /\ TLCSet(3, <<>>) /\ TLCSet(4, TRUE)

\* a "reset" line starts the next recorded execution: the result of the previous one is filed in register 3
ResetVars ==
    /\ state' = Active /\ trigger' = 0 /\ runNum' = 0 /\ wp' = 0 /\ rp' = 0
    /\ list' = [i \in Shards |-> 0] /\ getters' = [s \in Shards |-> <<>>] /\ locks' = [s \in Shards |-> 0] /\ idx' = 0
    /\ apc' = [a \in Adders |-> "a_state"] /\ an' = [a \in Adders |-> 0] /\ ashard' = [a \in Adders |-> 0] /\ atrig' = [a \in Adders |-> FALSE]
    /\ workers' = <<>> /\ cpc' = "c_cas"
    /\ ran' = [g \in Getter |-> 0] /\ flushed' = {} /\ appended' = <<>> /\ addRet' = {} /\ closeCalled' = FALSE /\ closeRet' = FALSE
    /\ ranAtCloseCall' = {}

ProjOk(ev) == trigger' = ev.trigger /\ state' = ev.state /\ runNum' = ev.runnum /\ wp' = ev.w /\ rp' = ev.r

TNext ==
    /\ l <= Len(Trace)
    /\ LET ev == Trace[l] IN
       IF ev.g = "reset"
       THEN /\ ResetVars
            \* register 4: CloseWaits evaluated at the step where Close returned in the model
            /\ TLCSet(3, Append(TLCGet(3), <<ev.n, TLCGet(4), AtMostOnce, NothingStranded>>))
            /\ TLCSet(4, TRUE)
       ELSE
       /\ CASE ev.g = "a" -> AStep(ev.name)
            [] ev.g = "w" -> WStep(ev.n)
            [] OTHER -> CStep
       /\ ProjOk(ev)
    /\ l' = l + 1
    /\ (IF ~closeRet /\ closeRet' THEN TLCSet(4, CloseWaits') ELSE TRUE)
    /\ TLCSet(2, <<l' - 1, CloseWaits', AtMostOnce', (l' - 1 = Len(Trace)) => NothingStranded'>>)

TSpec == TInit /\ [][TNext]_tvars
Report == PrintT(<<"IMPL-RESULT", TLCGet(2), Len(Trace), TLCGet(3)>>)
=============================================================================
