--------------------------- MODULE ShardQueueObs ---------------------------
(***************************************************************************)
(* Observable specification of mux.ShardQueue (C17) over API-level events:  *)
(* Add call/return per getter, getter invocation, Flush (with the number of  *)
(* getters appended so far), Close call/return, and the quiescent point.      *)
(***************************************************************************)
EXTENDS Integers, FiniteSets, Sequences

VARIABLE o  \* [called, returned: sets of getter ids, ran: id -> count, order: Seq of ids in invocation order,
            \*  flushedN, closeCalled, closeRet, calledBeforeClose, returnedBeforeClose, calledAfterCloseRet]

InitVal == [called |-> {}, returned |-> {}, ran |-> {}, ranTwice |-> {}, order |-> <<>>, flushedN |-> 0,
            closeCalled |-> FALSE, closeRet |-> FALSE, calledBeforeClose |-> {}, returnedBeforeClose |-> {}, afterClose |-> {}]

AddCallEff(g) == [o EXCEPT !.called = @ \cup {g}, !.afterClose = IF o.closeRet THEN @ \cup {g} ELSE @]
AddRetEff(g) == [o EXCEPT !.returned = @ \cup {g}]
RunViol(g) ==
    (IF g \in o.ran THEN {"C17.getter_invoked_twice"} ELSE {})
    \cup (IF g \notin o.called THEN {"C17.unknown_getter_invoked"} ELSE {})
    \cup (IF g \in o.afterClose THEN {"C17.getter_added_after_close_was_invoked"} ELSE {})
RunEff(g) == [o EXCEPT !.ran = @ \cup {g}, !.order = Append(@, g)]
\* a getter that reports "nothing to write" (isNil): it is invoked like any other but appends nothing
RunNilEff(g) == [o EXCEPT !.ran = @ \cup {g}]
InOrder(g) == \E i \in DOMAIN o.order : o.order[i] = g
CloseCallEff == [o EXCEPT !.closeCalled = TRUE, !.calledBeforeClose = o.called, !.returnedBeforeClose = o.returned]
\* Close returns only after every getter added (Add returned) before it was called has been handled
CloseRetViol == IF o.returnedBeforeClose \ o.ran # {} THEN {"C17.close_returned_before_an_earlier_getter_was_handled"} ELSE {}

\* position of g in the invocation order
Pos(g) == CHOOSE i \in DOMAIN o.order : o.order[i] = g
\* nothing can move any more: every getter added to the active queue ran once and its data was flushed
QuiescentViol(blocked) ==
    \* an Add that had returned before Close was called was certainly made on an active queue;
    \* one that overlaps Close may or may not have been accepted
    LET must == IF o.closeCalled THEN o.returnedBeforeClose ELSE o.called IN
    (IF must \ o.ran # {} THEN {"C17.getter_never_invoked"} ELSE {})
    \cup (IF \E g \in must \cap o.ran : InOrder(g) /\ Pos(g) > o.flushedN THEN {"C17.data_appended_but_never_flushed"} ELSE {})
    \cup (IF blocked > 0 THEN {"C17.goroutine_blocked_for_ever"} ELSE {})
=============================================================================
