CONSTANTS
  Cap = 2
  MaxN = 3
  NOps = 2
  Dev_NoStaleCheck = FALSE
  Dev_NoStaleCheckUntimed = TRUE
  Dev_NoRearm = FALSE
  EagerKernel = FALSE
SPECIFICATION Spec
CONSTRAINT NoOverlap
CONSTRAINT BigOps
INVARIANTS NilMeansTaken
CHECK_DEADLOCK FALSE
