-------------------------------- MODULE Conn --------------------------------
(***************************************************************************)
(* Implementation-shaped specification of the callback / teardown          *)
(* protocol of one server-side connection with OnConnect, OnRequest,        *)
(* OnDisconnect and a close callback (connection_onevent.go: onConnect,     *)
(* onDisconnect, onRequest, onProcess and its task, closeCallback;          *)
(* connection_reactor.go: onHup, onClose, inputAck; connection_lock.go;     *)
(* fd_operator.go: do/done/unused, Control(PollDetach); the read and        *)
(* hang-up branches of the poller's handler; the finalizer).                *)
(* Properties C05, C06, C09.                                               *)
(*                                                                         *)
(* One action = what the code does between two schedule points.  The pcs    *)
(* are named after the statement the goroutine is about to execute; PtOf     *)
(* maps a pc to the id of the schedule point (verif_on.go) it is parked at.  *)
(* Goroutines: the poller; the hang-up goroutine (onHup); the tasks started  *)
(* by onProcess (at most MaxTasks over the life of the connection); one      *)
(* user goroutine calling Close (optional).  Callback bodies: OnConnect      *)
(* returns, the handler consumes everything that is buffered and returns,    *)
(* OnDisconnect and the close callback return.                              *)
(* The model starts where the set-up ends: the connection is registered;     *)
(* with OnConnect the acceptor has taken the connecting and processing keys  *)
(* and started task 1.                                                      *)
(* Deviations (FALSE for the code as it is) = the code before a repair:      *)
(*   Dev_NoConnRecheck  no second IsActive check after unlock(connecting)    *)
(*   Dev_NoInputRecheck the task's closed-state double check does not look   *)
(*                      at the input buffer                                 *)
(*   Dev_NoHupTask      onHup does not start a task for buffered input       *)
(*   Dev_HupLockTwice   onHup takes the processing key twice (try a task,    *)
(*                      then the callbacks): a task exiting in between is    *)
(*                      missed                                              *)
(***************************************************************************)
EXTENDS Integers, Sequences, FiniteSets, TLC

CONSTANTS MaxTasks, MaxSend, WithCloser,
          WithOnConnect,   \* an OnConnect callback is configured (else onConnect() only sets the state word)
          WithOnDisconnect,\* an OnDisconnect callback is configured (else onDisconnect() returns at once)
          HandlerCloses,   \* the handler consumes what is buffered and then calls Close itself
          Dev_NoConnRecheck, Dev_NoInputRecheck, Dev_NoHupTask, Dev_HupLockTwice

VARIABLES
    sh,     \* shared words: [closing (0 none, 1 user, 2 poller), connecting, processing, st (0 none, 1 connected, 2 disconnected), inlen, opst, det (Control(PollDetach) calls), reg]
    env,    \* [pend, sent, peerClosed]
    P,      \* poller: [pc, k, hup (the fetched event carries RDHUP), need (needTrigger)]
    H,      \* hang-up goroutine: [pc]
    T,      \* tasks: [1..MaxTasks -> [pc, cb (closedBy read in the loop), oc (runs OnConnect), n (bytes the handler is consuming)]]
    nt,     \* tasks started so far
    C,      \* closer: [pc]
    hist    \* [conn (0 not run,1 running,2 done), req (running handlers), reqs (handler runs), cc (0,1 running,2 done), ccn (close callback runs), od (OnDisconnect runs), pcl (the poller's closeBy won), bad (set of rule names)]
vars == <<sh, env, P, H, T, nt, C, hist>>

NoTask == [pc |-> "none", cb |-> 0, oc |-> FALSE, n |-> 0]

InitSh == IF WithOnConnect THEN [closing |-> 0, connecting |-> 1, processing |-> 1, st |-> 0, inlen |-> 0, opst |-> 1, det |-> 0, reg |-> TRUE]
                           ELSE [closing |-> 0, connecting |-> 0, processing |-> 0, st |-> 1, inlen |-> 0, opst |-> 1, det |-> 0, reg |-> TRUE]
InitT == [i \in 1 .. MaxTasks |-> IF i = 1 /\ WithOnConnect THEN [pc |-> "t_start", cb |-> 0, oc |-> TRUE, n |-> 0] ELSE NoTask]
InitHist == [conn |-> IF WithOnConnect THEN 0 ELSE 2, req |-> 0, reqs |-> 0, cc |-> 0, ccn |-> 0, od |-> 0, pcl |-> 0, bad |-> {}]
Init ==
    /\ sh = InitSh
    /\ env = [pend |-> 0, sent |-> 0, peerClosed |-> FALSE]
    /\ P = [pc |-> "p_fetch", k |-> 0, hup |-> FALSE, need |-> FALSE]
    /\ H = [pc |-> "none"]
    /\ T = InitT
    /\ nt = IF WithOnConnect THEN 1 ELSE 0
    /\ C = [pc |-> IF WithCloser THEN "c_cb" ELSE "none"]
    /\ hist = InitHist

\* ---- callbacks (history) ----------------------------------------------------------
Bad(h, cond, rule) == IF cond THEN [h EXCEPT !.bad = @ \cup {rule}] ELSE h
ConnStart(h) == [h EXCEPT !.conn = 1]
ConnEnd(h) == [h EXCEPT !.conn = 2]
ReqStart(h) == Bad(Bad(Bad([h EXCEPT !.req = @ + 1, !.reqs = @ + 1], h.req > 0, "handler_runs_concurrently"), h.conn # 2, "handler_before_onconnect_returned"),
                   h.cc # 0, "handler_after_close_callbacks")
ReqEnd(h) == [h EXCEPT !.req = @ - 1]
\* OnDisconnect runs to completion inside one step (its body returns at once)
Disc(h) == Bad(Bad([h EXCEPT !.od = @ + 1], h.od > 0, "ondisconnect_twice"), h.cc # 0, "ondisconnect_after_close_callbacks")
\* the close callback: starts with the harness callback; the finalizer's steps follow; CcEnd when it is done
CcStart(h, inlen, closing) ==
    Bad(Bad(Bad([h EXCEPT !.cc = 1, !.ccn = @ + 1], h.ccn > 0, "close_callbacks_twice"), h.req > 0, "close_callbacks_during_handler"),
        inlen > 0 /\ closing = 2, "close_callbacks_with_unoffered_input")
CcEnd(h) == [h EXCEPT !.cc = 2]

\* start a task (runner.RunTask): oc = it also runs OnConnect
Spawn(oc) == /\ nt < MaxTasks /\ nt' = nt + 1 /\ T' = [T EXCEPT ![nt + 1] = [pc |-> "t_start", cb |-> 0, oc |-> oc, n |-> 0]]

\* Control(PollDetach): only the first call deregisters
Detach(s) == [s EXCEPT !.det = @ + 1, !.reg = IF s.det = 0 THEN FALSE ELSE @]

\* ---- the finalizer, shared by whoever runs closeCallback ------------------------------
\* pcs: cc_det (Control(PollDetach), only with needDetach), cc_stop (stop(flushing)), cc_un (operator.Free -> unused()),
\*      cc_unspin (unused() spinning while the poller handles an event), cc_b1, cc_b2 (closeBuffer's two length loads)
CcPcs == {"cc_det", "cc_stop", "cc_un", "cc_unspin", "cc_b1", "cc_b2"}
\* returns <<pc', sh', hist'>> for a goroutine at finalizer pc `pc`; "end" when the callbacks are done
CcStep(pc) ==
    CASE pc = "cc_det" -> <<"cc_stop", Detach(sh), CcStart(hist, sh.inlen, sh.closing)>>
      [] pc = "cc_stop" -> <<"cc_un", sh, hist>>
      [] pc \in {"cc_un", "cc_unspin"} -> IF sh.opst = 2 THEN <<"cc_unspin", sh, hist>> ELSE <<"cc_b1", [sh EXCEPT !.opst = 0, !.det = 0], hist>>   \* unused(); reset() clears the detach counter
      [] pc = "cc_b1" -> <<"cc_b2", [sh EXCEPT !.inlen = 0], hist>>      \* closeBuffer: inputBuffer.Close()
      [] pc = "cc_b2" -> <<"end", sh, CcEnd(hist)>>
CcEnabled(pc) == pc # "cc_unspin" \/ sh.opst # 2
\* entering closeCallback: with needDetach the first step is the detach, else the harness callback runs and the finalizer starts
\* (the callback itself has no schedule point: it belongs to the step that enters)
EnterCc(needDetach) == IF needDetach THEN <<"cc_det", hist>> ELSE <<"cc_stop", CcStart(hist, sh.inlen, sh.closing)>>

\* ---- tasks (onProcess) -----------------------------------------------------------------
TSet(i, pc) == T' = [T EXCEPT ![i].pc = pc]
\* the handler has consumed; it returns, or (HandlerCloses) calls Close first
HEnd(i) == IF HandlerCloses THEN TSet(i, "t_hc_cb") /\ UNCHANGED hist ELSE TSet(i, "t_l_st") /\ hist' = ReqEnd(hist)
\* leaving the processing loop has no schedule point of its own: the step that decides to break runs on to closeCallback's first
\* point (connection closed: cb = who closed) or to unlock(processing)
Leave(i, cb) ==
    IF cb # 0 THEN LET e == EnterCc(cb = 1) IN T' = [T EXCEPT ![i].pc = e[1], ![i].cb = cb] /\ hist' = e[2]
    ELSE T' = [T EXCEPT ![i].pc = "t_ulp", ![i].cb = 0] /\ UNCHANGED hist

TStep(i) ==
    LET t == T[i] IN
    CASE t.pc = "t_start" ->
            /\ TSet(i, IF t.oc THEN "t_cs1" ELSE "t_s_len") /\ UNCHANGED <<sh, hist, nt>>
      [] t.pc = "t_cs1" ->          \* changeState(none, connected); OnConnect runs and returns
            /\ IF sh.st = 0 THEN sh' = [sh EXCEPT !.st = 1] /\ hist' = ConnEnd(ConnStart(hist)) /\ TSet(i, "t_act1")
                            ELSE UNCHANGED <<sh, hist>> /\ TSet(i, "t_s_len")
            /\ UNCHANGED nt
      [] t.pc = "t_act1" ->         \* !IsActive() && changeState(connected, disconnected): help to run OnDisconnect
            /\ TSet(i, IF sh.closing # 0 THEN "t_cs2" ELSE "t_ulc") /\ UNCHANGED <<sh, hist, nt>>
      [] t.pc = "t_cs2" ->
            /\ IF sh.st = 1 THEN sh' = [sh EXCEPT !.st = 2] /\ hist' = (IF WithOnDisconnect THEN Disc(hist) ELSE hist) ELSE UNCHANGED <<sh, hist>>
            /\ TSet(i, "t_ulc") /\ UNCHANGED nt
      [] t.pc = "t_ulc" ->          \* unlock(connecting)
            /\ sh' = [sh EXCEPT !.connecting = 0]
            /\ TSet(i, IF Dev_NoConnRecheck THEN "t_s_len" ELSE "t_act2") /\ UNCHANGED <<hist, nt>>
      [] t.pc = "t_act2" ->         \* the peer may have closed after the first check: onDisconnect()
            /\ TSet(i, IF sh.closing # 0 /\ WithOnDisconnect THEN "t_od_gs" ELSE "t_s_len") /\ UNCHANGED <<sh, hist, nt>>
      [] t.pc = "t_od_gs" ->        \* getState() != none && lock(connecting)
            /\ TSet(i, IF sh.st # 0 THEN "t_od_lk" ELSE "t_s_len") /\ UNCHANGED <<sh, hist, nt>>
      [] t.pc = "t_od_lk" ->
            /\ IF sh.connecting = 0 THEN sh' = [sh EXCEPT !.connecting = 1] /\ TSet(i, "t_od_cs") ELSE UNCHANGED sh /\ TSet(i, "t_s_len")
            /\ UNCHANGED <<hist, nt>>
      [] t.pc = "t_od_cs" ->
            /\ IF sh.st = 1 THEN sh' = [sh EXCEPT !.st = 2] /\ hist' = Disc(hist) ELSE UNCHANGED <<sh, hist>>
            /\ TSet(i, "t_od_ul") /\ UNCHANGED nt
      [] t.pc = "t_od_ul" ->
            /\ sh' = [sh EXCEPT !.connecting = 0] /\ TSet(i, "t_s_len") /\ UNCHANGED <<hist, nt>>
      [] t.pc = "t_s_len" ->        \* START: onRequest != nil && Reader().Len() > 0
            /\ IF sh.inlen > 0 THEN hist' = ReqStart(hist) /\ TSet(i, "t_h1") ELSE UNCHANGED hist /\ TSet(i, "t_l_st")
            /\ UNCHANGED <<sh, nt>>
      \* the handler: n := Reader().Len(); Reader().Next(n); Reader().Release()
      [] t.pc = "t_h1" -> /\ T' = [T EXCEPT ![i].pc = "t_h2", ![i].n = sh.inlen] /\ UNCHANGED <<sh, hist, nt>>
      [] t.pc = "t_h2" -> /\ TSet(i, "t_h3") /\ UNCHANGED <<sh, hist, nt>>
      [] t.pc = "t_h3" -> /\ TSet(i, "t_h4") /\ UNCHANGED <<sh, hist, nt>>
      [] t.pc = "t_h4" -> /\ sh' = [sh EXCEPT !.inlen = @ - t.n] /\ TSet(i, "t_h5") /\ UNCHANGED <<hist, nt>>
      [] t.pc = "t_h5" ->           \* Release: Len() == 0 && IsActive() && operator.do()
            /\ IF sh.inlen = 0 THEN TSet(i, "t_h6") /\ UNCHANGED hist ELSE HEnd(i)
            /\ UNCHANGED <<sh, nt>>
      [] t.pc = "t_h6" ->
            /\ IF sh.closing = 0 THEN TSet(i, "t_h7") /\ UNCHANGED hist ELSE HEnd(i)
            /\ UNCHANGED <<sh, nt>>
      [] t.pc = "t_h7" ->
            /\ IF sh.opst = 1 THEN sh' = [sh EXCEPT !.opst = 2] /\ TSet(i, "t_h7b") /\ UNCHANGED hist
                              ELSE UNCHANGED sh /\ HEnd(i)
            /\ UNCHANGED nt
      [] t.pc = "t_h7b" ->          \* the token is held: IsActive() again (the slot is this connection's only while it is active)
            /\ TSet(i, IF sh.closing = 0 THEN "t_h8" ELSE "t_h9") /\ UNCHANGED <<sh, hist, nt>>
      [] t.pc = "t_h8" -> /\ TSet(i, "t_h9") /\ UNCHANGED <<sh, hist, nt>>
      [] t.pc = "t_h9" -> /\ sh' = [sh EXCEPT !.opst = 1] /\ HEnd(i) /\ UNCHANGED nt
      \* Close() called by the handler (onClose): closeBy(user) / force(closing, user); closeCallback(true, ..) cannot take the key this task holds
      [] t.pc = "t_hc_cb" ->
            /\ IF sh.closing = 0 THEN sh' = [sh EXCEPT !.closing = 1] /\ TSet(i, "t_hc_tr") ELSE UNCHANGED sh /\ TSet(i, "t_hc_force")
            /\ UNCHANGED <<hist, nt>>
      [] t.pc = "t_hc_tr" -> /\ TSet(i, "t_hc_tw") /\ UNCHANGED <<sh, hist, nt>>
      [] t.pc = "t_hc_tw" -> /\ TSet(i, "t_hc_lk") /\ UNCHANGED <<sh, hist, nt>>
      [] t.pc = "t_hc_force" -> /\ sh' = [sh EXCEPT !.closing = 1] /\ TSet(i, "t_hc_lk") /\ UNCHANGED <<hist, nt>>
      [] t.pc = "t_hc_lk" -> /\ TSet(i, "t_l_st") /\ hist' = ReqEnd(hist) /\ UNCHANGED <<sh, nt>>
      \* the processing loop
      [] t.pc = "t_l_st" ->         \* closedBy = status(closing); closed by the user: break
            /\ IF sh.closing = 1 THEN Leave(i, 1) ELSE T' = [T EXCEPT ![i].cb = sh.closing, ![i].pc = "t_l_len"] /\ UNCHANGED hist
            /\ UNCHANGED <<sh, nt>>
      [] t.pc = "t_l_len" ->        \* Reader().Len() == 0: break; else the handler again
            /\ IF sh.inlen = 0 THEN Leave(i, t.cb) ELSE hist' = ReqStart(hist) /\ TSet(i, "t_h1")
            /\ UNCHANGED <<sh, nt>>
      [] t.pc = "t_ulp" ->          \* unlock(processing)
            /\ sh' = [sh EXCEPT !.processing = 0] /\ TSet(i, "t_x_st") /\ UNCHANGED <<hist, nt>>
      [] t.pc = "t_x_st" ->         \* double check close state: status(closing) != 0 && lock(processing)
            /\ TSet(i, IF sh.closing # 0 THEN "t_x_lk" ELSE "t_y_len") /\ UNCHANGED <<sh, hist, nt>>
      [] t.pc = "t_x_lk" ->
            /\ IF sh.processing = 0
                  THEN /\ sh' = [sh EXCEPT !.processing = 1]
                       /\ IF Dev_NoInputRecheck
                             THEN LET e == EnterCc(FALSE) IN TSet(i, e[1]) /\ hist' = e[2]
                             ELSE TSet(i, "t_x_cb") /\ UNCHANGED hist
                  ELSE UNCHANGED <<sh, hist>> /\ TSet(i, "t_y_len")
            /\ UNCHANGED nt
      [] t.pc = "t_x_cb" ->         \* isCloseBy(poller) && Reader().Len() > 0 -> START
            /\ IF sh.closing = 2 THEN TSet(i, "t_x_len") /\ UNCHANGED hist
                                 ELSE LET e == EnterCc(FALSE) IN TSet(i, e[1]) /\ hist' = e[2]
            /\ UNCHANGED <<sh, nt>>
      [] t.pc = "t_x_len" ->
            /\ IF sh.inlen > 0 THEN TSet(i, "t_s_len") /\ UNCHANGED hist
                               ELSE LET e == EnterCc(FALSE) IN TSet(i, e[1]) /\ hist' = e[2]
            /\ UNCHANGED <<sh, nt>>
      [] t.pc = "t_y_len" ->        \* double check is processable: Len() > 0 && lock(processing)
            /\ TSet(i, IF sh.inlen > 0 THEN "t_y_lk" ELSE "end") /\ UNCHANGED <<sh, hist, nt>>
      [] t.pc = "t_y_lk" ->
            /\ IF sh.processing = 0 THEN sh' = [sh EXCEPT !.processing = 1] /\ TSet(i, "t_s_len") ELSE UNCHANGED sh /\ TSet(i, "end")
            /\ UNCHANGED <<hist, nt>>
      [] t.pc \in CcPcs ->
            /\ CcEnabled(t.pc)
            /\ LET r == CcStep(t.pc) IN TSet(i, r[1]) /\ sh' = r[2] /\ hist' = r[3]
            /\ UNCHANGED nt
      [] OTHER -> FALSE

\* ---- the poller ------------------------------------------------------------------------
Readable == sh.reg /\ (env.pend > 0 \/ env.peerClosed)

PStep ==
    CASE P.pc = "p_fetch" -> /\ Readable /\ P' = [P EXCEPT !.pc = "p_ev", !.hup = env.peerClosed] /\ UNCHANGED <<sh, env, H, T, nt, hist>>
      [] P.pc = "p_ev" -> /\ P' = [P EXCEPT !.pc = "p_do"] /\ UNCHANGED <<sh, env, H, T, nt, hist>>
      [] P.pc = "p_do" ->           \* operator.do(); inputs; readv
            /\ IF sh.opst # 1 THEN P' = [P EXCEPT !.pc = "p_fetch"] /\ UNCHANGED <<sh, env>>
               ELSE sh' = [sh EXCEPT !.opst = 2] /\ P' = [P EXCEPT !.pc = "p_add", !.k = env.pend] /\ env' = [env EXCEPT !.pend = 0]
            /\ UNCHANGED <<H, T, nt, hist>>
      [] P.pc = "p_add" ->          \* inputAck: bookAck; first bytes of an empty buffer: onRequest()
            /\ sh' = [sh EXCEPT !.inlen = @ + P.k]
            /\ P' = [P EXCEPT !.pc = IF P.k = 0 THEN "p_det" ELSE IF sh.inlen = 0 THEN "p_gs" ELSE "p_ws", !.need = TRUE]
            /\ UNCHANGED <<env, H, T, nt, hist>>
      [] P.pc = "p_gs" ->           \* wait for OnConnect: getState() == none -> let the OnConnect task call the handler
            /\ P' = [P EXCEPT !.pc = IF sh.st = 0 /\ WithOnConnect THEN "p_ws" ELSE "p_lk", !.need = ~(sh.st = 0 /\ WithOnConnect)]
            /\ UNCHANGED <<sh, env, H, T, nt, hist>>
      [] P.pc = "p_lk" ->           \* onProcess: lock(processing); start a task
            /\ IF sh.processing = 0
                  THEN sh' = [sh EXCEPT !.processing = 1] /\ Spawn(FALSE) /\ P' = [P EXCEPT !.pc = "p_ws", !.need = FALSE]
                  ELSE UNCHANGED <<sh, T, nt>> /\ P' = [P EXCEPT !.pc = "p_ws", !.need = TRUE]
            /\ UNCHANGED <<env, H, hist>>
      [] P.pc = "p_ws" ->           \* needTrigger && length >= waitReadSize (0: nobody reads)
            /\ P' = [P EXCEPT !.pc = IF P.need THEN "p_trig" ELSE IF P.hup THEN "p_ra" ELSE "p_done"]
            /\ UNCHANGED <<sh, env, H, T, nt, hist>>
      [] P.pc = "p_trig" -> /\ P' = [P EXCEPT !.pc = IF P.hup THEN "p_ra" ELSE "p_done"] /\ UNCHANGED <<sh, env, H, T, nt, hist>>
      [] P.pc = "p_ra" -> /\ P' = [P EXCEPT !.pc = "p_done"] /\ UNCHANGED <<sh, env, H, T, nt, hist>>
      [] P.pc = "p_det" ->          \* appendHup: Control(PollDetach)
            /\ sh' = Detach(sh) /\ P' = [P EXCEPT !.pc = "p_done"] /\ UNCHANGED <<env, H, T, nt, hist>>
      [] P.pc = "p_done" ->         \* operator.done(); onhups starts the hang-up goroutine
            /\ sh' = [sh EXCEPT !.opst = IF @ = 2 THEN 1 ELSE @]
            /\ H' = IF P.k = 0 /\ H.pc = "none" THEN [pc |-> "h_start"] ELSE H
            /\ P' = [P EXCEPT !.pc = "p_fetch"] /\ UNCHANGED <<env, T, nt, hist>>
      [] OTHER -> FALSE

\* ---- the hang-up goroutine (onHup) -------------------------------------------------------
HSet(pc) == H' = [pc |-> pc]
\* where onHup continues after onDisconnect()
AfterDisc == IF Dev_HupLockTwice THEN "o_emp" ELSE "h_clk"
HStep ==
    CASE H.pc = "h_start" -> /\ HSet("h_cb") /\ UNCHANGED <<sh, T, nt, hist>>
      [] H.pc = "h_cb" ->           \* closeBy(poller)
            /\ IF sh.closing = 0 THEN sh' = [sh EXCEPT !.closing = 2] /\ HSet("h_tr") /\ hist' = [hist EXCEPT !.pcl = 1]
                                 ELSE UNCHANGED <<sh, hist>> /\ HSet("end")
            /\ UNCHANGED <<T, nt>>
      [] H.pc = "h_tr" -> /\ HSet("h_tw") /\ UNCHANGED <<sh, T, nt, hist>>
      [] H.pc = "h_tw" -> /\ HSet(IF ~WithOnDisconnect THEN AfterDisc ELSE IF WithOnConnect THEN "h_gs" ELSE "h_ss") /\ UNCHANGED <<sh, T, nt, hist>>
      [] H.pc = "h_ss" ->           \* onDisconnect without OnConnect: setState(disconnected); the callback
            /\ sh' = [sh EXCEPT !.st = 2] /\ hist' = Disc(hist) /\ HSet(AfterDisc) /\ UNCHANGED <<T, nt>>
      [] H.pc = "h_gs" ->           \* onDisconnect: getState() != none && lock(connecting)
            /\ HSet(IF sh.st # 0 THEN "h_lk" ELSE AfterDisc) /\ UNCHANGED <<sh, T, nt, hist>>
      [] H.pc = "h_lk" ->
            /\ IF sh.connecting = 0 THEN sh' = [sh EXCEPT !.connecting = 1] /\ HSet("h_cs") ELSE UNCHANGED sh /\ HSet(AfterDisc)
            /\ UNCHANGED <<T, nt, hist>>
      [] H.pc = "h_cs" ->
            /\ IF sh.st = 1 THEN sh' = [sh EXCEPT !.st = 2] /\ hist' = Disc(hist) ELSE UNCHANGED <<sh, hist>>
            /\ HSet("h_ul") /\ UNCHANGED <<T, nt>>
      [] H.pc = "h_ul" -> /\ sh' = [sh EXCEPT !.connecting = 0] /\ HSet(AfterDisc) /\ UNCHANGED <<T, nt, hist>>
      \* the code as it is: the processing key is taken once, then the decision between "offer unread input" and the callbacks
      [] H.pc = "h_clk" ->          \* lock(processing): a task that holds it runs the callbacks when it exits
            /\ IF sh.processing = 0
                  THEN /\ sh' = [sh EXCEPT !.processing = 1]
                       /\ IF Dev_NoHupTask THEN (LET e == EnterCc(FALSE) IN HSet(e[1]) /\ hist' = e[2]) ELSE HSet("h_emp") /\ UNCHANGED hist
                  ELSE UNCHANGED <<sh, hist>> /\ HSet("end")
            /\ UNCHANGED <<T, nt>>
      [] H.pc = "h_emp" ->          \* !inputBuffer.IsEmpty()
            /\ IF sh.inlen > 0 THEN HSet("h_gs2") /\ UNCHANGED hist ELSE (LET e == EnterCc(FALSE) IN HSet(e[1]) /\ hist' = e[2])
            /\ UNCHANGED <<sh, T, nt>>
      [] H.pc = "h_gs2" ->          \* !(getState() == none && onConnect != nil): process(nil, onRequest) starts a task that holds the key
            /\ IF sh.st # 0 \/ ~WithOnConnect THEN Spawn(FALSE) /\ HSet("end") /\ UNCHANGED hist
                            ELSE UNCHANGED <<T, nt>> /\ (LET e == EnterCc(FALSE) IN HSet(e[1]) /\ hist' = e[2])
            /\ UNCHANGED sh
      \* Dev_HupLockTwice, the code before the repair of F12c: onProcess (lock, task) and then closeCallback (lock again)
      [] H.pc = "o_emp" ->
            /\ HSet(IF sh.inlen > 0 THEN "o_gs2" ELSE "o_clk") /\ UNCHANGED <<sh, T, nt, hist>>
      [] H.pc = "o_gs2" ->
            /\ HSet(IF sh.st = 0 /\ WithOnConnect THEN "o_clk" ELSE "o_plk") /\ UNCHANGED <<sh, T, nt, hist>>
      [] H.pc = "o_plk" ->
            /\ IF sh.processing = 0 THEN sh' = [sh EXCEPT !.processing = 1] /\ Spawn(FALSE) /\ HSet("end")
                                    ELSE UNCHANGED <<sh, T, nt>> /\ HSet("o_clk")
            /\ UNCHANGED hist
      [] H.pc = "o_clk" ->
            /\ IF sh.processing = 0
                  THEN sh' = [sh EXCEPT !.processing = 1] /\ (LET e == EnterCc(FALSE) IN HSet(e[1]) /\ hist' = e[2])
                  ELSE UNCHANGED <<sh, hist>> /\ HSet("end")
            /\ UNCHANGED <<T, nt>>
      [] H.pc \in CcPcs ->
            /\ CcEnabled(H.pc)
            /\ LET r == CcStep(H.pc) IN HSet(r[1]) /\ sh' = r[2] /\ hist' = r[3]
            /\ UNCHANGED <<T, nt>>
      [] OTHER -> FALSE

\* ---- a user goroutine calling Close ------------------------------------------------------------
CSet(pc) == C' = [pc |-> pc]
CStep ==
    CASE C.pc = "c_cb" ->           \* closeBy(user)
            /\ IF sh.closing = 0 THEN sh' = [sh EXCEPT !.closing = 1] /\ CSet("c_tr") ELSE UNCHANGED sh /\ CSet("c_force")
            /\ UNCHANGED hist
      [] C.pc = "c_tr" -> /\ CSet("c_tw") /\ UNCHANGED <<sh, hist>>
      [] C.pc = "c_tw" -> /\ CSet("c_lk") /\ UNCHANGED <<sh, hist>>
      [] C.pc = "c_lk" ->           \* closeCallback(true, true)
            /\ IF sh.processing = 0 THEN sh' = [sh EXCEPT !.processing = 1] /\ (LET e == EnterCc(TRUE) IN CSet(e[1]) /\ hist' = e[2])
                                    ELSE UNCHANGED <<sh, hist>> /\ CSet("end")
      [] C.pc = "c_force" -> /\ sh' = [sh EXCEPT !.closing = 1] /\ CSet("c_lk2") /\ UNCHANGED hist
      [] C.pc = "c_lk2" ->          \* closeCallback(true, false)
            /\ IF sh.processing = 0 THEN sh' = [sh EXCEPT !.processing = 1] /\ (LET e == EnterCc(FALSE) IN CSet(e[1]) /\ hist' = e[2])
                                    ELSE UNCHANGED <<sh, hist>> /\ CSet("end")
      [] C.pc \in CcPcs ->
            /\ CcEnabled(C.pc)
            /\ LET r == CcStep(C.pc) IN CSet(r[1]) /\ sh' = r[2] /\ hist' = r[3]
      [] OTHER -> FALSE

\* ---- environment ------------------------------------------------------------------------------
PeerSend == /\ ~env.peerClosed /\ env.sent < MaxSend
            /\ env' = [env EXCEPT !.sent = @ + 1, !.pend = @ + 1] /\ UNCHANGED <<sh, P, H, T, nt, C, hist>>
PeerClose == /\ ~env.peerClosed /\ env' = [env EXCEPT !.peerClosed = TRUE] /\ UNCHANGED <<sh, P, H, T, nt, C, hist>>

TaskNext(i) == T[i].pc \notin {"none", "end"} /\ TStep(i) /\ UNCHANGED <<env, P, H, C>>

PollerNext == PStep /\ UNCHANGED C
HupNext == HStep /\ UNCHANGED <<env, P, C>>
CloserNext == CStep /\ UNCHANGED <<env, P, H, T, nt>>
Next ==
    \/ \E i \in 1 .. MaxTasks : TaskNext(i)
    \/ PollerNext \/ HupNext \/ CloserNext
    \/ PeerSend \/ PeerClose
Spec == Init /\ [][Next]_vars

\* ---- the schedule point a goroutine is parked at ----------------------------------------------------
CcPt(pc) == CASE pc = "cc_det" -> 14 [] pc = "cc_stop" -> 6 [] pc \in {"cc_un", "cc_unspin"} -> 13 [] pc \in {"cc_b1", "cc_b2"} -> 31 [] OTHER -> 0
TPt(i) == LET pc == T[i].pc IN
    CASE pc = "t_start" -> 1000 [] pc \in {"t_cs1", "t_cs2", "t_od_gs", "t_od_cs"} -> 33 [] pc \in {"t_act1", "t_act2", "t_h6", "t_h7b", "t_l_st", "t_x_st", "t_x_cb"} -> 2
      [] pc \in {"t_ulc", "t_od_ul", "t_ulp"} -> 5 [] pc \in {"t_od_lk", "t_x_lk", "t_y_lk", "t_hc_lk"} -> 4
      [] pc = "t_hc_cb" -> 1 [] pc = "t_hc_tr" -> 20 [] pc = "t_hc_tw" -> 21 [] pc = "t_hc_force" -> 3
      [] pc \in {"t_s_len", "t_h1", "t_h2", "t_h3", "t_h5", "t_h8", "t_l_len", "t_x_len", "t_y_len"} -> 31 [] pc = "t_h4" -> 30 [] pc = "t_h7" -> 10 [] pc = "t_h9" -> 11
      [] pc \in CcPcs -> CcPt(pc) [] OTHER -> 0
PPt == CASE P.pc = "p_fetch" -> 1001 [] P.pc = "p_ev" -> 42 [] P.pc = "p_do" -> 10 [] P.pc \in {"p_add", "p_ra"} -> 30 [] P.pc = "p_gs" -> 33 [] P.pc = "p_lk" -> 4
         [] P.pc = "p_ws" -> 32 [] P.pc = "p_trig" -> 20 [] P.pc = "p_det" -> 14 [] P.pc = "p_done" -> 11 [] OTHER -> 0
HPt == CASE H.pc = "h_start" -> 41 [] H.pc = "h_cb" -> 1 [] H.pc = "h_tr" -> 20 [] H.pc = "h_tw" -> 21 [] H.pc \in {"h_gs", "h_cs", "h_gs2", "o_gs2", "h_ss"} -> 33
         [] H.pc \in {"h_lk", "h_clk", "o_plk", "o_clk"} -> 4 [] H.pc = "h_ul" -> 5 [] H.pc \in {"h_emp", "o_emp"} -> 31 [] H.pc \in CcPcs -> CcPt(H.pc) [] OTHER -> 0
CPt == CASE C.pc = "c_cb" -> 1 [] C.pc = "c_tr" -> 20 [] C.pc = "c_tw" -> 21 [] C.pc \in {"c_lk", "c_lk2"} -> 4 [] C.pc = "c_force" -> 3 [] C.pc \in CcPcs -> CcPt(C.pc) [] OTHER -> 0

\* ---- properties ------------------------------------------------------------------------------------
TypeOK == sh.closing \in 0 .. 2 /\ sh.connecting \in 0 .. 1 /\ sh.processing \in 0 .. 1 /\ sh.st \in 0 .. 2 /\ sh.inlen \in Nat /\ sh.opst \in 0 .. 2 /\ nt <= MaxTasks

Rules == {"handler_runs_concurrently", "handler_before_onconnect_returned", "handler_after_close_callbacks", "ondisconnect_twice",
          "ondisconnect_after_close_callbacks", "close_callbacks_twice", "close_callbacks_during_handler", "close_callbacks_with_unoffered_input"}
\* everything except the order OnDisconnect / close callbacks (finding F11 of the code as it is)
NoBadButF11 == hist.bad \subseteq {"ondisconnect_after_close_callbacks"}
DisconnectBeforeClose == "ondisconnect_after_close_callbacks" \notin hist.bad

\* nobody can move any more
Idle(pc) == pc \in {"none", "end"}
Quiescent == /\ \A i \in 1 .. MaxTasks : Idle(T[i].pc)
             /\ Idle(H.pc) /\ Idle(C.pc) /\ P.pc = "p_fetch" /\ ~Readable
\* a closed connection has run its close callbacks once it is quiescent; the keys are released or held by the finished teardown
NoLeak == (Quiescent /\ sh.closing # 0) => hist.ccn = 1
\* the peer closed a connection whose OnConnect has run: OnDisconnect ran exactly once
DisconnectRan == (Quiescent /\ hist.pcl = 1 /\ hist.conn = 2 /\ WithOnDisconnect) => hist.od = 1
\* nothing is left unread when everything is over and the peer had closed (the handler consumes all it is offered)
AllOffered == (Quiescent /\ hist.ccn = 1 /\ sh.closing = 2) => sh.inlen = 0
\* a task budget that is too small would hide behaviours
TaskBudget == nt < MaxTasks
=============================================================================
