SPECIFICATION Spec
CONSTANTS
  MaxAddrs = 2
  MayExpire = TRUE
  Dev_NoFreeOnSoErr = FALSE
  Dev_CtxBeforeSuccess = FALSE
  Dev_FirstErr = TRUE
INVARIANTS TypeOK CleanOnError NoPdLeak TimeoutReported NoSpuriousFailure Returns
CHECK_DEADLOCK FALSE
