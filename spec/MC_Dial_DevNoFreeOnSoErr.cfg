SPECIFICATION Spec
CONSTANTS
  MaxAddrs = 2
  MayExpire = TRUE
  Dev_NoFreeOnSoErr = TRUE
  Dev_CtxBeforeSuccess = FALSE
  Dev_FirstErr = FALSE
INVARIANTS TypeOK CleanOnError NoPdLeak TimeoutReported NoSpuriousFailure Returns
CHECK_DEADLOCK FALSE
