\* one adder: the ring/trigger decoupling of finding F14 needs two, so CloseWaits holds for the code as it is
\* and the deviation "closed before the exit re-check" yields the window schedule
SPECIFICATION Spec
CONSTANTS
  NShards = 2
  Adders = {"a1"}
  AddsPer = 2
  Dev_TrigBeforeRing = FALSE
  Dev_EarlyClosed = TRUE
INVARIANTS CloseWaits
CHECK_DEADLOCK FALSE
