---------------------------- MODULE PollLoopObs ----------------------------
(***************************************************************************)
(* Property C11, the clauses about the reactor loop as a whole, over        *)
(* API-level events of a running defaultPoll.Wait:                          *)
(*   Send(k,n) / Deliver(k,n,ok)   a peer made level-triggered descriptor k  *)
(*                                 readable / the input callbacks got bytes  *)
(*   Reg(k) / Writable(k)          edge-triggered (PollWritable) registration*)
(*                                 of a writable socket / its OnWrite        *)
(*   TrigCall(g) / TrigRet(g)      Trigger() by goroutine g                  *)
(*   LoopIdle / LoopWake           the loop is in front of epoll_wait(-1) /  *)
(*                                 has entered the handler                   *)
(*   CloseCall / CloseRet, LoopExit(fdsClosed), Quiescent(state)             *)
(*                                 state 1: blocked in epoll_wait with        *)
(*                                 nothing to fetch, 2: Wait has returned     *)
(* No identifier of the implementation appears here.                         *)
(***************************************************************************)
EXTENDS Integers, FiniteSets, TLC

Get(f, k) == IF k \in DOMAIN f THEN f[k] ELSE 0
Put(f, k, v) == [x \in DOMAIN f \cup {k} |-> IF x = k THEN v ELSE f[x]]
Empty == [x \in {} |-> 0]

ObsInit == [sent |-> Empty, dlv |-> Empty, regd |-> {}, wr |-> Empty, idle |-> FALSE, trigIdle |-> {}, trigRet |-> {},
            closeCall |-> FALSE, closeRet |-> FALSE, exited |-> FALSE]

DeliverViol(o, k, n, ok) ==
    (IF ok = 0 THEN {"C11.delivered_bytes_wrong_or_out_of_order"} ELSE {})
    \cup (IF Get(o.dlv, k) + n > Get(o.sent, k) THEN {"C11.delivered_more_than_sent"} ELSE {})
WritableViol(o, k) ==
    (IF Get(o.wr, k) >= 1 THEN {"C11.edge_triggered_event_dispatched_twice"} ELSE {})
    \cup (IF k \notin o.regd THEN {"C11.callback_for_unregistered_descriptor"} ELSE {})
ExitViol(o, fdsClosed) ==
    (IF fdsClosed = 0 THEN {"C11.poller_descriptors_left_open"} ELSE {})
    \cup (IF ~o.closeCall THEN {"C11.loop_exited_without_close"} ELSE {})
QuiescentViol(o, st) ==
    (IF st = 1 /\ (o.trigIdle \cap o.trigRet) # {} THEN {"C11.trigger_did_not_wake_the_loop"} ELSE {})
    \cup (IF o.closeRet /\ st # 2 THEN {"C11.close_did_not_stop_the_loop"} ELSE {})
    \cup (IF st = 1 /\ \E k \in DOMAIN o.sent : Get(o.dlv, k) # o.sent[k] THEN {"C11.readable_bytes_not_delivered"} ELSE {})
    \cup (IF st = 1 /\ \E k \in o.regd : Get(o.wr, k) # 1 THEN {"C11.edge_triggered_event_lost"} ELSE {})
=============================================================================
