CONSTANTS
  MaxTasks = 5
  MaxSend = 2
  WithOnConnect = FALSE
  WithOnDisconnect = TRUE
  HandlerCloses = FALSE
  WithCloser = FALSE
  Dev_NoConnRecheck = FALSE
  Dev_NoInputRecheck = FALSE
  Dev_HupLockTwice = FALSE
  Dev_NoHupTask = FALSE
SPECIFICATION Spec
INVARIANTS TypeOK NoBadButF11 NoLeak DisconnectRan AllOffered TaskBudget
CHECK_DEADLOCK FALSE
