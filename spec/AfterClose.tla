----------------------------- MODULE AfterClose -----------------------------
(***************************************************************************)
(* Property C12 as a decision table: for every public method of a          *)
(* connection, called after the connection was closed in a given way, the   *)
(* set of outcomes the property allows.  The product of the dimensions is   *)
(* finite; TLC enumerates it (Cells) and the harness executes every cell    *)
(* on a real connection; TraceAfterClose.tla judges the recorded outcomes   *)
(* with Allowed().                                                         *)
(*                                                                         *)
(* Dimensions                                                               *)
(*   method  the API method called                                         *)
(*   mode    how the connection was closed:                                 *)
(*             user      Close() by the user, no OnConnect/OnRequest set    *)
(*             user_cb   Close() by the user, callbacks set (buffers are     *)
(*                       recycled by the teardown)                          *)
(*             peer      peer closed, no callbacks: the connection is down  *)
(*                       but not torn down until the user closes it         *)
(*             peer_cb   peer closed, callbacks set: torn down by netpoll    *)
(*             peer_user peer closed (no callbacks), then Close() by user    *)
(*             detach    Detach() by the user                               *)
(*   inbuf   bytes buffered and unread when the close happened (0 or 5)      *)
(*   need    "le": the call needs no more than is buffered at call time;     *)
(*           "gt": it needs one byte more                                   *)
(*   hist    "fresh", or "timedout": a read timeout is set and one read timed   *)
(*           out before the close (timer state left behind by earlier waits)  *)
(*   rep     "once", "thrice" (same call three times in a row), "reuse"      *)
(*           (another connection is opened in between so that the closed     *)
(*           connection's poller slot has a new owner)                      *)
(* Outcomes: "ok" (success; for reads: the right bytes), "closed"            *)
(*   (errors.Is(err, ErrConnClosed)), "eof_closed" (matches ErrEOF and        *)
(*   ErrConnClosed), "other:<text>", "panic", "blocked" (no return in 2 s).   *)
(***************************************************************************)
EXTENDS Integers, Sequences, FiniteSets, TLC

ReaderN   == {"Next", "Peek", "Skip", "ReadString", "ReadBinary", "Slice", "Read"}
Reader0   == {"ReadByte", "Until", "Release", "Len"}
WriterM   == {"Malloc", "MallocAck", "Flush", "WriteString", "WriteBinary", "WriteByte", "WriteDirect", "Append", "Write"}
OtherM    == {"MallocLen", "Close", "IsActive", "AddCloseCallback", "Detach", "SetReadTimeout", "RemoteAddr"}
Methods   == ReaderN \cup Reader0 \cup WriterM \cup OtherM
Modes     == {"user", "user_cb", "peer", "peer_cb", "peer_user", "detach"}
InBufs    == {0, 5}
Needs     == {"le", "gt"}
Reps      == {"once", "thrice", "reuse"}
Hists     == {"fresh", "timedout"}   \* "timedout": a read timeout is configured and one read already timed out before the close

\* need only matters for the sized reader calls
Blocking == ReaderN \cup {"ReadByte", "Until"}
Cells == {<<m, mo, ib, nd, rp, h>> \in Methods \X Modes \X InBufs \X Needs \X Reps \X Hists :
             /\ (m \in ReaderN \/ nd = "le")
             /\ (m \in Blocking \/ h = "fresh")}

LocalModes == {"user", "user_cb", "peer_user", "detach"}

\* `have`: Reader.Len() observed right before the call; `n`: bytes the call needs
Allowed(m, mode, have, n) ==
    LET closedErr == IF mode \in LocalModes THEN {"closed", "eof_closed"} ELSE {"eof_closed"}
    IN CASE m = "Read" -> IF have >= 1 THEN {"ok"} ELSE closedErr    \* io.Reader: needs one byte, returns what is there
         [] m \in ReaderN \cup {"ReadByte"} ->
                IF n <= have THEN {"ok"} ELSE closedErr
         [] m = "Until" -> closedErr          \* the harness never buffers a delimiter
         [] m \in {"Release", "Len", "MallocLen", "Close", "AddCloseCallback", "Detach", "SetReadTimeout", "RemoteAddr"} -> {"ok"}
         [] m = "IsActive" -> {"false"}
         [] m \in WriterM -> {"closed", "eof_closed"}
         [] OTHER -> {}

\* after the stale call the bystander connection (rep = "reuse") must still receive data and close cleanly
BystanderOk(b) == b = "ok"

ASSUME PrintT(<<"CELLS", Cells>>)
=============================================================================
