\* simulate config: real threshold sizes (1 KiB, 4 KiB, 8 KiB, 32 KiB) and +-1 around them
INIT Init
NEXT SimNext
CONSTANTS
  MaxBufs = 7
  Caps = {0, 1, 4095, 4096, 4097, 8192, 65536}
  WSizes = {1, 2, 7, 1023, 1024, 1025, 4095, 4096, 4097, 8191, 8192, 8193, 32768}
  RSizes = {0, 1, 2, 1024, 1025, 4096, 8192}
  MaxLive = 4
  MaxSrc = 100000
CHECK_DEADLOCK FALSE
