----------------------------- MODULE TraceConn -----------------------------
(* Trace validation of recorded connection executions against ConnObs.                         *)
(* trace.ndjson holds many executions back to back; an "Init" event starts a new one.           *)
(* Every line is consumed (the monitor is total); the rules an event violates are collected in  *)
(* `viol` as <<trace id, line, rule>> and handed to the driver through TLCSet/POSTCONDITION.     *)
EXTENDS ConnObs, Json, TLC

Trace == ndJsonDeserialize("trace.ndjson")

VARIABLES l,     \* next line of Trace
          viol,  \* violations found so far
          blk    \* Blocked records collected before a Quiescent event

tvars == <<o, l, viol, blk>>

Bit(n, b) == (n \div b) % 2 = 1

TraceInit ==
    /\ o = InitVal(FALSE, FALSE, FALSE, 0)
    /\ l = 1 /\ viol = {} /\ blk = {}
    /\ TLCSet(1, <<0, {}>>)

\* (bounded: a build in which almost every event breaks a rule would otherwise make every state carry an ever larger set)
Judge(ev, V) == viol' = IF Cardinality(viol) < 400 THEN viol \cup {<<ev.t, l, r>> : r \in V} ELSE viol

Step(ev) ==
    CASE ev.e = "Init" ->
            /\ o' = InitVal(Bit(ev.n, 1), Bit(ev.n, 2), Bit(ev.n, 4), ev.m)
            /\ blk' = {} /\ UNCHANGED viol
      [] ev.e = "CbStart" ->
            /\ o' = CbStartEff(ev.k) /\ Judge(ev, CbStartViol(ev.k, ev.n)) /\ UNCHANGED blk
      [] ev.e = "CbEnd" ->
            /\ o' = CbEndEff(ev.k, ev.m) /\ UNCHANGED <<viol, blk>>
      [] ev.e = "FdClose" /\ ev.k = "1" ->
            /\ o' = [o EXCEPT !.fdCloses = @ + 1] /\ Judge(ev, FdCloseViol(ev.m)) /\ UNCHANGED blk
      [] ev.e = "SlotFree" ->
            /\ o' = [o EXCEPT !.slotFrees = @ + 1] /\ Judge(ev, SlotFreeViol) /\ UNCHANGED blk
      [] ev.e = "IsActive" ->
            /\ o' = [o EXCEPT !.inactive = (@ \/ ev.n = 0)] /\ Judge(ev, IsActiveViol(ev.n)) /\ UNCHANGED blk
      [] ev.e = "PeerSend" -> o' = [o EXCEPT !.sent = @ + ev.n] /\ UNCHANGED <<viol, blk>>
      [] ev.e = "PeerClose" -> o' = [o EXCEPT !.peerClosed = TRUE] /\ UNCHANGED <<viol, blk>>
      [] ev.e = "PeerSteal" ->      \* a thief took bytes from the socket before netpoll could read them: they were never sent as far as netpoll can tell
            /\ o' = [o EXCEPT !.sent = @ - ev.n] /\ UNCHANGED <<viol, blk>>
      [] ev.e = "PeerDrain" ->
            /\ o' = [o EXCEPT !.drained = @ + ev.n]
            \* (the guarantee covers a connection up to its first reported write error)
            /\ Judge(ev, IF ev.m = 0 /\ ~o.writeFailed THEN {"C04.peer_received_wrong_bytes"} ELSE {}) /\ UNCHANGED blk
      [] ev.e = "TimerFire" ->
            /\ o' = [o EXCEPT !.rtFired = IF ev.k = "read" THEN @ + 1 ELSE @, !.wtFired = IF ev.k = "write" THEN @ + 1 ELSE @]
            /\ UNCHANGED <<viol, blk>>
      [] ev.e = "Call" -> o' = CallEff(ev.g, ev.k, ev.n, ev.m, ev.err = "pastdl") /\ UNCHANGED <<viol, blk>>
      [] ev.e = "Ret" ->
            /\ o' = RetEff(ev.g, ev.k, ev.n, ev.m, ev.err)
            /\ Judge(ev, CASE ev.k = "Next" -> ReadRetViol(ev.g, ev.err, ev.m, ev.m)
                           [] ev.k = "Until" -> (IF ev.m = 0 THEN {"C04.read_returned_wrong_bytes"} ELSE {})
                           [] ev.k = "Write" -> WriteRetViol(ev.g, ev.err, ev.n, ev.m, OthersFlushing(ev.g))
                           [] ev.k \in {"Close", "Detach"} -> (IF ev.err # "nil" THEN {"C12.close_returned_error"} ELSE {})
                           [] OTHER -> {})
            /\ UNCHANGED blk
      [] ev.e = "Panic" ->
            \* a panic that escapes a library call is a violation of the property whose API was being called
            \* (k: the actor that panicked; for the poller also the side of the reactor: input / output path)
            \* C12 (calls racing or following a close never panic) applies once somebody has closed
            /\ Judge(ev, (IF (o.localClose \/ o.peerClosed) /\ ev.k \notin {"poller:output", "poller:input"} THEN {"C12.panic_in_library_code"} ELSE {})
                          \cup (CASE ev.k = "reader" -> {"C07.panic_instead_of_error"}
                                  [] ev.k \in {"flusher", "flusher2"} -> {"C08.panic_instead_of_error"}
                                  [] ev.k = "poller:output" -> {"C08.panic_in_poller_write_path"}
                                  [] ev.k = "poller:input" -> {"C04.panic_in_poller_read_path"}
                                  [] OTHER -> {"C05.panic_during_teardown"}))
            /\ UNCHANGED <<o, blk>>
      [] ev.e = "SockState" -> o' = [o EXCEPT !.peerPending = ev.n] /\ UNCHANGED <<viol, blk>>
      [] ev.e = "Blocked" ->
            /\ blk' = blk \cup {[g |-> ev.g, k |-> ev.k, n |-> ev.n, cb |-> (ev.m = 1)]} /\ UNCHANGED <<o, viol>>
      [] ev.e = "Quiescent" ->
            /\ Judge(ev, IF ev.err # "" THEN {} ELSE QuiescentViol(ev.n, blk)) /\ UNCHANGED <<o, blk>>
      [] OTHER -> UNCHANGED <<o, viol, blk>>

TraceNext ==
    /\ l <= Len(Trace)
    /\ Step(Trace[l])
    /\ l' = l + 1
    /\ TLCSet(1, <<l', viol'>>)

TraceSpec == TraceInit /\ [][TraceNext]_tvars

\* handed to the driver: number of lines consumed and the violations
Report == PrintT(<<"TRACE-RESULT", TLCGet(1)[1] - 1, Len(Trace), TLCGet(1)[2]>>)
=============================================================================
