\* no behaviour to check: evaluating the module prints Cells (ASSUME PrintT)
