-------------------------------- MODULE Dial --------------------------------
(***************************************************************************)
(* Implementation-shaped model of a TCP dial (C14): dialer.dialTCP's loop    *)
(* over the resolved addresses, netFD.connect with its temporary poller slot  *)
(* (pollDesc: writeTrigger / closeTrigger, WaitWrite's three-way select, the   *)
(* SO_ERROR check, the deferred Free), the poller's handler for that slot      *)
(* (do / onwrite / appendHup / done), the hang-up task, and the kernel as far   *)
(* as the code can see it (connect state, readiness bits, edge-triggered        *)
(* reporting).                                                                   *)
(*                                                                               *)
(* Grain: one action = the code between two schedule points (hooks) of one       *)
(* goroutine; the pc of a goroutine names the hook it is parked at, Pt() maps    *)
(* it to the hook id used by the controlled scheduler.  The kernel makes          *)
(* progress silently: whoever looks at it sees any state in KProg(k).             *)
(* Only EINPROGRESS is modelled as the result of connect(2) (TCP, non-blocking).  *)
(***************************************************************************)
EXTENDS Integers, Sequences, FiniteSets, TLC

CONSTANTS MaxAddrs,             \* the host name resolves to 1..MaxAddrs addresses
          MayExpire,            \* the dial context can expire
          Dev_NoFreeOnSoErr,    \* deviation: the SO_ERROR failure arm returns without freeing the temporary slot
          Dev_CtxBeforeSuccess, \* deviation: dialTCP looks at the context before it looks at the success of the attempt
          Dev_FirstErr          \* deviation: on expiry dialTCP returns the first address's error

VARIABLES addrs,    \* peers behind the addresses of the host name, in dial order: "listen" | "refuse" | "drop" | "rst"
          ai,       \* index of the address being tried
          k,        \* kernel: "idle" | "syn" | "est" | "closed" (refused / reset: SO_ERROR pending, HUP|ERR readable)
          lastbits, \* readiness last reported to the poller for the current registration (edge-triggered)
          reg,      \* the descriptor is registered with epoll
          detached, \* FDOperator.detached > 0
          opst,     \* FDOperator.state of the temporary slot: 0 unused, 1 in use, 2 the poller is dispatching through it
          slots,    \* operator slots outstanding (allocs - frees)
          fdopen,   \* the dial's descriptor is open
          wt, ct,   \* writeTrigger / closeTrigger closed
          expired,  \* ctx.Done() is closed
          rstdone,  \* the peer has reset the connection
          dpc,      \* dialer: "d1000" "d65" "d14r" "d12" "d70" "d14d" "d13" "tail" "ret"
          outcome,  \* of the attempt in progress: "none" "ok" "closed" "soerr" "timeout"
          firsterr, \* dialTCP.firstErr: "none" | "other" | "timeout"
          result,   \* "none" | "conn" | "other" | "timeout"  (what dialTCP returned)
          byctx,    \* history: the dial ended because the context had expired
          pdleak,   \* history: an attempt ended with its temporary slot still allocated
          ppc,      \* poller: "p1001" "p42" "p10" "p14h" "p11h" "p71w" "p14w" "p11w"
          evs,      \* readiness bits of the fetched event, egen: the attempt it was fetched for
          egen,
          hups,     \* attempts whose OnHup is queued in p.hups
          hp        \* hang-up tasks, one per attempt at most: "none" "h41" "h71" "done"

vars == <<addrs, ai, k, lastbits, reg, detached, opst, slots, fdopen, wt, ct, expired, rstdone, dpc, outcome, firsterr, result, byctx, pdleak, ppc, evs, egen, hups, hp>>

Addrs == addrs
Kinds == {"listen", "refuse", "drop", "rst"}
AddrChoices == UNION {[1..n -> Kinds] : n \in 1..MaxAddrs}
Peer == Addrs[ai]
KProg(kk) == IF kk = "syn" THEN (CASE Peer \in {"listen", "rst"} -> {"syn", "est"} [] Peer = "refuse" -> {"syn", "closed"} [] OTHER -> {"syn"}) ELSE {kk}
Bits(kk) == CASE kk = "est" -> {"out"} [] kk = "closed" -> {"out", "hup"} [] OTHER -> {}

Init == /\ addrs \in AddrChoices
        /\ ai = 1 /\ k = "idle" /\ lastbits = {} /\ reg = FALSE /\ detached = FALSE /\ opst = 0 /\ slots = 0 /\ fdopen = FALSE
        /\ wt = FALSE /\ ct = FALSE /\ expired = FALSE /\ rstdone = FALSE /\ dpc = "d1000" /\ outcome = "none" /\ firsterr = "none"
        /\ result = "none" /\ byctx = FALSE /\ pdleak = FALSE /\ ppc = "p1001" /\ evs = {} /\ egen = 0 /\ hups = {} /\ hp = [g \in 1..Len(Addrs) |-> "none"]

\* ---- dialer ---------------------------------------------------------------------------
\* socket(), connect(2) = EINPROGRESS, newPollDesc -> pollmanager.Pick (hook 65)
StartAttempt == /\ fdopen' = TRUE /\ k' = "syn" /\ lastbits' = {} /\ reg' = FALSE /\ detached' = FALSE /\ opst' = 0
                /\ wt' = FALSE /\ ct' = FALSE /\ outcome' = "none" /\ dpc' = "d65"

\* (a host name - more than one address - goes through the resolver first, which gives up on an expired context)
DStart == /\ dpc = "d1000"
          /\ \/ StartAttempt /\ UNCHANGED <<result, byctx>>
             \/ /\ expired /\ Len(addrs) > 1
                /\ dpc' = "ret" /\ result' = "timeout" /\ byctx' = TRUE
                /\ UNCHANGED <<k, lastbits, reg, detached, opst, fdopen, wt, ct, outcome>>
          /\ UNCHANGED <<addrs, ai, slots, expired, rstdone, firsterr, pdleak, ppc, evs, egen, hups, hp>>

\* Alloc; WaitWrite: the slot is unused -> Control(PollWritable) (hook 14)
D65 == /\ dpc = "d65" /\ slots' = slots + 1 /\ dpc' = "d14r"
       /\ UNCHANGED <<addrs, ai, k, lastbits, reg, detached, opst, fdopen, wt, ct, expired, rstdone, outcome, firsterr, result, byctx, pdleak, ppc, evs, egen, hups, hp>>

\* defaultPoll.Control: operator.inuse() (hook 12)
D14r == /\ dpc = "d14r" /\ dpc' = "d12"
        /\ UNCHANGED <<addrs, ai, k, lastbits, reg, detached, opst, slots, fdopen, wt, ct, expired, rstdone, outcome, firsterr, result, byctx, pdleak, ppc, evs, egen, hups, hp>>

\* state 0 -> 1, EPOLL_CTL_ADD (ET|OUT|RDHUP|ERR); park in WaitWrite's select (hook 70)
D12 == /\ dpc = "d12" /\ opst' = 1 /\ reg' = TRUE /\ lastbits' = {} /\ dpc' = "d70"
       /\ UNCHANGED <<addrs, ai, k, detached, slots, fdopen, wt, ct, expired, rstdone, outcome, firsterr, result, byctx, pdleak, ppc, evs, egen, hups, hp>>

\* the select wakes on any ready case; Go picks among the ready ones at random
D70 == /\ dpc = "d70"
       /\ \/ /\ wt /\ ~ct                \* write-ready and the double check sees no hang-up: read SO_ERROR
             /\ \E k0 \in KProg(k) :
                  /\ k' = k0
                  /\ \/ /\ k0 = "est" /\ outcome' = "ok" /\ dpc' = "d13"
                     \/ /\ k0 = "closed"
                        /\ outcome' = "soerr"
                        /\ dpc' = IF Dev_NoFreeOnSoErr THEN "dnofree" ELSE "d13"
             /\ UNCHANGED detached
          \/ /\ wt /\ ct /\ outcome' = "closed" /\ dpc' = "d13" /\ UNCHANGED <<k, detached>>      \* double check: closed by peer
          \/ /\ ct /\ outcome' = "closed" /\ dpc' = "d13" /\ UNCHANGED <<k, detached>>
          \/ /\ expired /\ outcome' = "timeout" /\ dpc' = "d14d" /\ UNCHANGED <<k, detached>>    \* pd.detach(): Control (hook 14)
       /\ UNCHANGED <<addrs, ai, lastbits, reg, opst, slots, fdopen, wt, ct, expired, rstdone, firsterr, result, byctx, pdleak, ppc, evs, egen, hups, hp>>

\* Control(PollDetach): once per operator; then the deferred Free: freeable -> unused() (hook 13)
D14d == /\ dpc = "d14d"
        /\ IF detached THEN UNCHANGED <<reg, detached>> ELSE reg' = FALSE /\ detached' = TRUE
        /\ dpc' = "d13"
        /\ UNCHANGED <<addrs, ai, k, lastbits, opst, slots, fdopen, wt, ct, expired, rstdone, outcome, firsterr, result, byctx, pdleak, ppc, evs, egen, hups, hp>>

\* what dialTCP does with a finished attempt (no schedule point between the attempt's return and the loop's decision)
Decide(ok, to, leak) ==
    LET err == IF to THEN "timeout" ELSE "other" IN
    /\ pdleak' = (pdleak \/ leak)
    /\ IF ok /\ ~(Dev_CtxBeforeSuccess /\ expired)
       THEN \* newTCPConnection ... : the tail (connection set-up, covered by Conn.tla); the descriptor stays open
            /\ dpc' = "tail" /\ UNCHANGED <<addrs, ai, k, lastbits, reg, detached, wt, ct, outcome, firsterr, result, byctx, fdopen>>
       ELSE IF ok
       THEN \* (deviation) an established connection is dropped on the floor
            /\ dpc' = "ret" /\ result' = "timeout" /\ byctx' = TRUE /\ UNCHANGED <<addrs, ai, k, lastbits, reg, detached, wt, ct, outcome, firsterr, fdopen>>
       ELSE IF expired
       THEN /\ dpc' = "ret" /\ fdopen' = FALSE /\ byctx' = to   \* (the attempt itself ended in WaitWrite's ctx arm)
            /\ result' = IF Dev_FirstErr /\ firsterr # "none" THEN firsterr ELSE err
            /\ UNCHANGED <<addrs, ai, k, lastbits, reg, detached, wt, ct, outcome, firsterr>>
       ELSE IF ai < Len(Addrs)
       THEN /\ ai' = ai + 1 /\ firsterr' = (IF firsterr = "none" THEN err ELSE firsterr)
            /\ StartAttempt /\ UNCHANGED <<result, byctx>>
       ELSE /\ dpc' = "ret" /\ fdopen' = FALSE /\ result' = (IF firsterr = "none" THEN err ELSE firsterr)
            /\ UNCHANGED <<addrs, ai, k, lastbits, reg, detached, wt, ct, outcome, firsterr, byctx>>

\* unused(): waits while the poller dispatches through the slot; reset; the slot goes back; socket() closes the descriptor on error
D13 == /\ dpc = "d13"
       /\ IF opst = 2
          THEN UNCHANGED vars     \* spin (hook 13 again)
          ELSE /\ slots' = slots - 1
               /\ Decide(outcome = "ok", outcome = "timeout", FALSE)
               /\ opst' = 0
               /\ UNCHANGED <<addrs, expired, rstdone, ppc, evs, egen, hups, hp>>

\* (deviation) the failure arm that forgot the Free
DNoFree == /\ dpc = "dnofree"
           /\ Decide(FALSE, FALSE, TRUE)
           /\ IF ai' # ai THEN TRUE ELSE UNCHANGED opst
           /\ UNCHANGED <<addrs, slots, expired, rstdone, ppc, evs, egen, hups, hp>>

\* the rest of a successful dial: connection set-up, return, and the caller's Close (not the subject of this model)
DTail == /\ dpc = "tail"
         /\ slots' \in 0..2 /\ fdopen' \in BOOLEAN /\ result' \in {result, "conn"}
         /\ UNCHANGED <<addrs, ai, k, lastbits, reg, detached, opst, wt, ct, expired, rstdone, dpc, outcome, firsterr, byctx, pdleak, ppc, evs, egen, hups, hp>>

\* ---- poller -----------------------------------------------------------------------------
\* epoll_wait returns the slot's event when its readiness grew since it was last reported
P1001 == /\ ppc = "p1001"
         /\ \E k0 \in KProg(k) :
              /\ reg /\ Bits(k0) # lastbits /\ lastbits \subseteq Bits(k0)
              /\ k' = k0 /\ lastbits' = Bits(k0) /\ evs' = Bits(k0) /\ egen' = ai
         /\ ppc' = "p42"
         /\ UNCHANGED <<addrs, ai, reg, detached, opst, slots, fdopen, wt, ct, expired, rstdone, dpc, outcome, firsterr, result, byctx, pdleak, hups, hp>>

\* handler: getOperator, operator.do() (hook 10)
P42 == /\ ppc = "p42" /\ ppc' = "p10"
       /\ UNCHANGED <<addrs, ai, k, lastbits, reg, detached, opst, slots, fdopen, wt, ct, expired, rstdone, dpc, outcome, firsterr, result, byctx, pdleak, evs, egen, hups, hp>>

\* after the last event of the batch: onhups() starts the hang-up task
EndBatch(h) == hp' = [g \in DOMAIN hp |-> IF g \in h THEN "h41" ELSE hp[g]] /\ hups' = {}

\* CAS 1 -> 2 fails for a slot that was freed (or belongs to an attempt that is over): the event is dropped
P10 == /\ ppc = "p10"
       /\ IF egen = ai /\ opst = 1
          THEN /\ opst' = 2
               /\ IF "hup" \in evs
                  THEN ppc' = "p14h" /\ hups' = hups \cup {ai}     \* appendHup: queue OnHup, detach (hook 14)
                  ELSE ppc' = "p71w" /\ UNCHANGED hups             \* OnWrite = pd.onwrite (hook 71)
               /\ UNCHANGED hp
          ELSE /\ ppc' = "p1001" /\ UNCHANGED opst /\ EndBatch(hups)
       /\ UNCHANGED <<addrs, ai, k, lastbits, reg, detached, slots, fdopen, wt, ct, expired, rstdone, dpc, outcome, firsterr, result, byctx, pdleak, evs, egen>>

PDetach == IF detached THEN UNCHANGED <<reg, detached>> ELSE reg' = FALSE /\ detached' = TRUE

P14h == /\ ppc = "p14h" /\ PDetach /\ ppc' = "p11h"
        /\ UNCHANGED <<addrs, ai, k, lastbits, opst, slots, fdopen, wt, ct, expired, rstdone, dpc, outcome, firsterr, result, byctx, pdleak, evs, egen, hups, hp>>

\* operator.done(); end of the batch
P11h == /\ ppc = "p11h" /\ opst' = 1 /\ ppc' = "p1001" /\ EndBatch(hups)
        /\ UNCHANGED <<addrs, ai, k, lastbits, reg, detached, slots, fdopen, wt, ct, expired, rstdone, dpc, outcome, firsterr, result, byctx, pdleak, evs, egen>>

\* onwrite: first time: detach (hook 14) then close(writeTrigger)
P71w == /\ ppc = "p71w"
        /\ ppc' = IF wt THEN "p11w" ELSE "p14w"
        /\ UNCHANGED <<addrs, ai, k, lastbits, reg, detached, opst, slots, fdopen, wt, ct, expired, rstdone, dpc, outcome, firsterr, result, byctx, pdleak, evs, egen, hups, hp>>

P14w == /\ ppc = "p14w" /\ PDetach /\ wt' = TRUE /\ ppc' = "p11w"
        /\ UNCHANGED <<addrs, ai, k, lastbits, opst, slots, fdopen, ct, expired, rstdone, dpc, outcome, firsterr, result, byctx, pdleak, evs, egen, hups, hp>>

P11w == /\ ppc = "p11w" /\ opst' = 1 /\ ppc' = "p1001" /\ EndBatch(hups)
        /\ UNCHANGED <<addrs, ai, k, lastbits, reg, detached, slots, fdopen, wt, ct, expired, rstdone, dpc, outcome, firsterr, result, byctx, pdleak, evs, egen>>

\* ---- hang-up task ------------------------------------------------------------------------
H41(g) == /\ hp[g] = "h41" /\ hp' = [hp EXCEPT ![g] = "h71"]
          /\ UNCHANGED <<addrs, ai, k, lastbits, reg, detached, opst, slots, fdopen, wt, ct, expired, rstdone, dpc, outcome, firsterr, result, byctx, pdleak, ppc, evs, egen, hups>>

\* pd.onhup closes the closeTrigger of the pollDesc it was made for
H71(g) == /\ hp[g] = "h71" /\ hp' = [hp EXCEPT ![g] = "done"]
          /\ ct' = IF g = ai THEN TRUE ELSE ct
          /\ UNCHANGED <<addrs, ai, k, lastbits, reg, detached, opst, slots, fdopen, wt, expired, rstdone, dpc, outcome, firsterr, result, byctx, pdleak, ppc, evs, egen, hups>>

\* ---- environment --------------------------------------------------------------------------
Expire == /\ MayExpire /\ ~expired /\ dpc # "ret" /\ expired' = TRUE
          /\ UNCHANGED <<addrs, ai, k, lastbits, reg, detached, opst, slots, fdopen, wt, ct, rstdone, dpc, outcome, firsterr, result, byctx, pdleak, ppc, evs, egen, hups, hp>>

\* the listener accepts and resets (needs the handshake to be complete)
PeerRst == /\ Peer = "rst" /\ ~rstdone /\ dpc \notin {"ret", "d1000"} /\ "est" \in KProg(k)
           /\ k' = "closed" /\ rstdone' = TRUE
           /\ UNCHANGED <<addrs, ai, lastbits, reg, detached, opst, slots, fdopen, wt, ct, expired, dpc, outcome, firsterr, result, byctx, pdleak, ppc, evs, egen, hups, hp>>

DialerNext == DStart \/ D65 \/ D14r \/ D12 \/ D70 \/ D14d \/ D13 \/ DNoFree \/ DTail
PollerNext == P1001 \/ P42 \/ P10 \/ P14h \/ P11h \/ P71w \/ P14w \/ P11w
HupNext == \E g \in DOMAIN hp : H41(g) \/ H71(g)
Next == DialerNext \/ PollerNext \/ HupNext \/ Expire \/ PeerRst
Spec == Init /\ [][Next]_vars

\* hook ids the controlled scheduler reports for each pc
DPt == CASE dpc = "d1000" -> 1000 [] dpc = "d65" -> 65 [] dpc \in {"d14r", "d14d"} -> 14 [] dpc = "d12" -> 12 [] dpc = "d70" -> 70 [] dpc = "d13" -> 13 [] OTHER -> 0
PPt == CASE ppc = "p1001" -> 1001 [] ppc = "p42" -> 42 [] ppc = "p10" -> 10 [] ppc \in {"p14h", "p14w"} -> 14 [] ppc \in {"p11h", "p11w"} -> 11 [] ppc = "p71w" -> 71 [] OTHER -> 0
HPt(g) == CASE hp[g] = "h41" -> 41 [] hp[g] = "h71" -> 71 [] OTHER -> 0

\* ---- properties -----------------------------------------------------------------------------
TypeOK == /\ ai \in 1..Len(Addrs) /\ k \in {"idle", "syn", "est", "closed"} /\ opst \in 0..2 /\ slots \in 0..3
          /\ result \in {"none", "conn", "other", "timeout"} /\ outcome \in {"none", "ok", "closed", "soerr", "timeout"}
\* a failed or timed-out dial leaves no descriptor and no slot behind
CleanOnError == result \in {"other", "timeout"} => ~fdopen /\ slots = 0
\* the temporary slot never outlives its attempt
NoPdLeak == ~pdleak
\* when the dial ended because the context had expired the error says so
TimeoutReported == (result \in {"other", "timeout"} /\ byctx) => result = "timeout"
\* without an expiry a dial to an accepting listener succeeds
NoSpuriousFailure == (result \in {"other", "timeout"} /\ ~expired) => \A i \in 1..Len(Addrs) : Addrs[i] # "listen"
\* the slot protocol: the dialer never resets the slot while the poller dispatches through it
\* (D13 waits for opst # 2), and the poller never dispatches through a slot of a finished attempt
\* the dial returns unless the peer never answers and the context never expires
Returns == (~ENABLED Next) => (dpc \in {"ret", "tail"} \/ (Peer = "drop" /\ ~MayExpire))
=============================================================================
