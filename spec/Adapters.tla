------------------------------ MODULE Adapters ------------------------------
(***************************************************************************)
(* Property C16: the stream adapters NewReader / NewWriter / NewIOReader /  *)
(* NewIOWriter preserve the byte stream for every behaviour the io           *)
(* contracts allow.  Three independent components share this module:         *)
(*   R  a nocopy Reader over a scripted io.Reader (short reads, zero-byte     *)
(*      reads, data together with an error, io.EOF)                          *)
(*   W  a nocopy Writer over a scripted io.Writer (short writes, errors)       *)
(*   I  an io.Reader over a nocopy Reader, and an io.Writer over W             *)
(* Streams are position-coded by the harness, so a result is described by      *)
(* (start position, length, error class).  TLC generates call sequences and    *)
(* scripts (-simulate); the harness replays them against scripted doubles and   *)
(* compares every result and every buffer the sink is handed.                 *)
(***************************************************************************)
EXTENDS Integers, Sequences, FiniteSets, TLC

CONSTANTS Chunks,   \* byte counts a scripted source read may return
          Needs,    \* sizes asked from the reader
          WSizes,   \* sizes written to the writer
          Accepts   \* byte counts a scripted sink write may accept (-1 stands for "everything")

VARIABLES r,     \* [script: Seq([n, e]), produced, consumed]   e in {"nil","eof","other"}
          w,     \* [submitted, flushed, accepted, script: Seq([a, e])]
          i,     \* [filled, read]  io.Reader over a plain buffer
          last   \* output: the call and what it must return / hand to the sink

vars == <<r, w, i, last>>

Out(op, n, start, len, err, sstart, slen) ==
    [op |-> op, n |-> n, start |-> start, len |-> len, err |-> err, sstart |-> sstart, slen |-> slen, src |-> <<>>, snk |-> <<>>]

Init ==
    /\ r = [script |-> <<>>, produced |-> 0, consumed |-> 0]
    /\ w = [submitted |-> 0, flushed |-> 0, accepted |-> 0, script |-> <<>>]
    /\ i = [filled |-> 0, read |-> 0]
    /\ last = Out("init", 0, 0, 0, "nil", 0, 0)

\* ---- R: the source is consumed until n bytes are buffered, an error comes, or the script ends (then io.EOF)
RECURSIVE Fill(_, _, _)
Fill(script, avail, n) ==
    IF avail >= n THEN [script |-> script, add |-> 0, err |-> "nil"]
    ELSE IF script = <<>> THEN [script |-> <<>>, add |-> 0, err |-> "eof"]
    ELSE LET h == Head(script) IN
         IF h.e # "nil" THEN [script |-> Tail(script), add |-> h.n, err |-> h.e]
         ELSE LET rest == Fill(Tail(script), avail + h.n, n) IN
              [script |-> rest.script, add |-> h.n + rest.add, err |-> rest.err]

\* the environment extends the script: what the next source Read will return
SrcPlan(n, e) ==
    /\ Len(r.script) < 6
    /\ r' = [r EXCEPT !.script = Append(@, [n |-> n, e |-> e])]
    /\ last' = [Out("SrcPlan", n, 0, 0, e, 0, 0) EXCEPT !.src = <<n, e>>]
    /\ UNCHANGED <<w, i>>

\* any Reader call that needs n bytes and (on success) consumes c of them
ReaderCall(op, n, consume) ==
    LET avail == r.produced - r.consumed
        f == Fill(r.script, avail, n)
        ok == f.err = "nil"
    IN /\ r' = [r EXCEPT !.script = f.script, !.produced = @ + f.add,
                         !.consumed = IF ok /\ consume THEN @ + n ELSE @]
       /\ last' = Out(op, n, r.consumed, IF ok THEN n ELSE 0, f.err, 0, 0)
       /\ UNCHANGED <<w, i>>

\* a source that hands its data out in many small pieces: k reads of c bytes are planned and one Next needs (nearly) all of them
\* (the adapter's fill gives up after 16 source reads and must be called again)
BurstNext(k, c, short) ==
    LET burst == [j \in 1 .. k |-> [n |-> c, e |-> "nil"]]
        script2 == r.script \o burst
        avail == r.produced - r.consumed
        have == avail + k * c + (IF r.script = <<>> THEN 0 ELSE 0)
        need == have - short
        f == Fill(script2, avail, need)
        ok == f.err = "nil"
    IN /\ r.script = <<>> /\ need > 0
       /\ r' = [r EXCEPT !.script = f.script, !.produced = @ + f.add, !.consumed = IF ok THEN @ + need ELSE @]
       /\ last' = Out("BurstNext", need, r.consumed, IF ok THEN need ELSE 0, f.err, k, c)
       /\ UNCHANGED <<w, i>>

RLen == r.produced - r.consumed

\* ---- W
WriterWrite(op, n) ==
    /\ w' = [w EXCEPT !.submitted = @ + n]
    /\ last' = Out(op, n, 0, 0, "nil", 0, 0)
    /\ UNCHANGED <<r, i>>

WriterAck(k) ==
    /\ k >= 0 /\ k <= w.submitted - w.flushed
    /\ w' = [w EXCEPT !.submitted = w.flushed + k]
    /\ last' = Out("MallocAck", k, 0, 0, "nil", 0, 0)
    /\ UNCHANGED <<r, i>>

SnkPlan(a, e) ==
    /\ Len(w.script) < 4
    /\ (e = "nil" => a = -1)          \* io.Writer: a short write must return an error
    /\ w' = [w EXCEPT !.script = Append(@, [a |-> a, e |-> e])]
    /\ last' = [Out("SnkPlan", 0, 0, 0, e, 0, 0) EXCEPT !.snk = <<a, e>>]
    /\ UNCHANGED <<r, i>>

\* Flush hands the sink everything that it has not accepted yet; an exhausted script accepts everything
WriterFlush(op, n) ==
    LET sub == w.submitted + n
        len == sub - w.accepted
        h == IF w.script = <<>> THEN [a |-> -1, e |-> "nil"] ELSE Head(w.script)
        acc == IF h.a = -1 \/ h.a >= len THEN len ELSE h.a
        called == len > 0
    IN /\ w' = [w EXCEPT !.submitted = sub, !.flushed = sub,
                         !.accepted = IF called THEN @ + acc ELSE @,
                         !.script = IF called /\ w.script # <<>> THEN Tail(@) ELSE @]
       /\ last' = Out(op, n, 0, 0, IF called THEN h.e ELSE "nil", w.accepted, len)
       /\ UNCHANGED <<r, i>>

\* ---- I: io.Reader over a nocopy Reader holding `filled - read` bytes
IOFill(n) == /\ i' = [i EXCEPT !.filled = @ + n]
             /\ last' = Out("IOFill", n, 0, 0, "nil", 0, 0)
             /\ UNCHANGED <<r, w>>
IORead(plen) ==
    LET avail == i.filled - i.read
        k == IF plen < avail THEN plen ELSE avail
    IN /\ i' = [i EXCEPT !.read = @ + k]
       /\ last' = Out("IORead", plen, i.read, k, IF plen > 0 /\ avail = 0 THEN "ioeof" ELSE "nil", 0, 0)
       /\ UNCHANGED <<r, w>>

Pick(S) == RandomElement(IF r.produced >= 0 THEN S ELSE {})

ReaderOps == {"Next", "Peek", "Skip", "ReadBinary", "ReadString", "Slice"}
SimNext ==
    \E d \in {Pick(1 .. 100)} :
      CASE d <= 22 -> (\E n \in {Pick(Chunks)}, e \in {Pick({"nil", "nil", "nil", "eof", "other"})} : SrcPlan(n, e))
        [] d <= 50 -> (\E op \in {Pick(ReaderOps)}, n \in {Pick(Needs \cup {RLen, RLen + 1})} : n > 0 /\ ReaderCall(op, n, op # "Peek"))
        [] d <= 52 -> ReaderCall("ReadByte", 1, TRUE)
        [] d <= 54 -> (\E k \in {Pick({17, 18, 20, 33, 40})}, c \in {Pick({1, 3, 100, 1000})}, sh \in {Pick({0, 1})} : BurstNext(k, c, sh))
        [] d <= 57 -> (last' = Out("Release", 0, 0, 0, "nil", 0, 0) /\ UNCHANGED <<r, w, i>>)
        [] d <= 70 -> (\E op \in {Pick({"Malloc", "WriteBinary", "WriteString", "WriteByte"})}, n \in {Pick(WSizes)} : WriterWrite(op, IF op = "WriteByte" THEN 1 ELSE n))
        [] d <= 73 -> (\E k \in {Pick(0 .. (w.submitted - w.flushed))} : WriterAck(k))
        [] d <= 80 -> (\E a \in {Pick(Accepts)}, e \in {Pick({"nil", "short", "other"})} : SnkPlan(IF e = "nil" THEN -1 ELSE a, e))
        [] d <= 88 -> WriterFlush("Flush", 0)
        [] d <= 92 -> (\E n \in {Pick(WSizes)} : WriterFlush("IOWrite", n))
        [] d <= 96 -> (\E n \in {Pick(WSizes)} : IOFill(n))
        [] OTHER   -> (\E n \in {Pick(Needs \cup {0})} : IORead(n))

\* exhaustive sanity model (small constants): the same actions with ordinary quantifiers
Next ==
    \/ \E n \in Chunks, e \in {"nil", "eof", "other"} : SrcPlan(n, e)
    \/ \E op \in ReaderOps, n \in Needs : ReaderCall(op, n, op # "Peek")
    \/ \E n \in WSizes : WriterWrite("Malloc", n)
    \/ \E k \in 0 .. 1 : WriterAck(k)
    \/ \E a \in Accepts, e \in {"nil", "short"} : SnkPlan(IF e = "nil" THEN -1 ELSE a, e)
    \/ WriterFlush("Flush", 0)

\* what the adapters promise, as invariants of this model
Inv == /\ r.consumed <= r.produced
       /\ w.accepted <= w.flushed /\ w.flushed <= w.submitted
       /\ i.read <= i.filled
Bound == r.produced <= 5 /\ w.submitted <= 3 /\ Len(r.script) <= 2 /\ Len(w.script) <= 1 /\ i.filled = 0
View == <<r, w, i>>
=============================================================================
