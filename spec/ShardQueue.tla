----------------------------- MODULE ShardQueue -----------------------------
(***************************************************************************)
(* Implementation-shaped specification of mux.ShardQueue (property C17):   *)
(* one action per atomic operation / critical section of shard_queue.go,    *)
(* with the variables the code has (state, trigger, runNum, the ring         *)
(* w/r/list, per-shard getter lists and locks).  Adders, the closer and the   *)
(* worker task(s) are separate processes; TLC explores every interleaving.    *)
(*                                                                         *)
(* pc labels follow the schedule points in mux/shard_queue.go:               *)
(*  adder : a_state a_idx a_lock a_append a_unlock a_ring a_trig a_run        *)
(*  worker: w_load w_ring w_lock w_unlock w_deal w_sub w_flush w_clear         *)
(*          w_check w_rerun w_cas                                            *)
(*  closer: c_cas c_trig c_store c_spin                                      *)
(* History variables (ran, flushed, addRet, closeCall, closeRet) record what   *)
(* the observable specification talks about; they are hidden by VIEW.          *)
(***************************************************************************)
EXTENDS Integers, Sequences, FiniteSets, TLC

CONSTANTS NShards,   \* number of shards (size)
          Adders,    \* set of adder processes
          AddsPer,   \* Add calls per adder
          Dev_TrigBeforeRing,  \* deviation: trigger counted before the ring slot is written (seeded-change shape)
          Dev_EarlyClosed      \* deviation: worker flips closing->closed before its exit re-check

Active == 0
Closing == 1
Closed == 2
Shards == 0 .. NShards - 1
Getter == Adders \X (1 .. AddsPer)

VARIABLES state, trigger, runNum, wp, rp, list, getters, locks, idx,
          apc, an, ashard, atrig,        \* adder: pc, number of adds done, chosen shard, "became non-empty"
          workers,                       \* sequence of worker records (a new task is spawned by foreach)
          cpc,                           \* closer pc
          ran, flushed, appended, addRet, closeCalled, closeRet, ranAtCloseCall

vars == <<state, trigger, runNum, wp, rp, list, getters, locks, idx, apc, an, ashard, atrig, workers, cpc,
          ran, flushed, appended, addRet, closeCalled, closeRet, ranAtCloseCall>>

NewWorker == [pc |-> "w_load", tn |-> 0, neg |-> 0, shared |-> 0, swap |-> <<>>]

Init ==
    /\ state = Active /\ trigger = 0 /\ runNum = 0 /\ wp = 0 /\ rp = 0
    /\ list = [i \in Shards |-> 0] /\ getters = [s \in Shards |-> <<>>] /\ locks = [s \in Shards |-> 0] /\ idx = 0
    /\ apc = [a \in Adders |-> "a_state"] /\ an = [a \in Adders |-> 0] /\ ashard = [a \in Adders |-> 0] /\ atrig = [a \in Adders |-> FALSE]
    /\ workers = <<>> /\ cpc = "c_cas"
    /\ ran = [g \in Getter |-> 0] /\ flushed = {} /\ appended = <<>> /\ addRet = {} /\ closeCalled = FALSE /\ closeRet = FALSE
    /\ ranAtCloseCall = {}

Cur(a) == <<a, an[a] + 1>>      \* the getter the adder is adding now
AdderDone(a) == [apc EXCEPT ![a] = IF an[a] + 1 >= AddsPer THEN "done" ELSE "a_state"]
RetAdd(a) == /\ apc' = AdderDone(a) /\ an' = [an EXCEPT ![a] = @ + 1] /\ addRet' = addRet \cup {Cur(a)}

\* foreach(): runNum++ > 1 ? return : spawn a worker task
Foreach == IF runNum + 1 > 1 THEN /\ runNum' = runNum + 1 /\ UNCHANGED workers
           ELSE /\ runNum' = runNum + 1 /\ workers' = Append(workers, NewWorker)

\* ---------------------------------------------------------------- adder
A_state(a) == /\ apc[a] = "a_state"
              /\ IF state # Active
                 THEN /\ apc' = AdderDone(a) /\ an' = [an EXCEPT ![a] = @ + 1]   \* ignored: never added
                      /\ UNCHANGED addRet
                 ELSE /\ apc' = [apc EXCEPT ![a] = "a_idx"] /\ UNCHANGED <<an, addRet>>
              /\ UNCHANGED <<state, trigger, runNum, wp, rp, list, getters, locks, idx, ashard, atrig, workers, cpc, ran, flushed, appended, closeCalled, closeRet, ranAtCloseCall>>

A_idx(a) == /\ apc[a] = "a_idx"
            /\ idx' = idx + 1 /\ ashard' = [ashard EXCEPT ![a] = (idx + 1) % NShards]
            /\ apc' = [apc EXCEPT ![a] = "a_lock"]
            /\ UNCHANGED <<state, trigger, runNum, wp, rp, list, getters, locks, an, atrig, workers, cpc, ran, flushed, appended, addRet, closeCalled, closeRet, ranAtCloseCall>>

A_lock(a) == /\ apc[a] = "a_lock" /\ locks[ashard[a]] = 0
             /\ locks' = [locks EXCEPT ![ashard[a]] = 1]
             \* the critical section runs without a schedule point in between
             /\ atrig' = [atrig EXCEPT ![a] = (getters[ashard[a]] = <<>>)]
             /\ getters' = [getters EXCEPT ![ashard[a]] = Append(@, Cur(a))]
             /\ apc' = [apc EXCEPT ![a] = "a_unlock"]
             /\ UNCHANGED <<state, trigger, runNum, wp, rp, list, idx, an, ashard, workers, cpc, ran, flushed, appended, addRet, closeCalled, closeRet, ranAtCloseCall>>

A_unlock(a) == /\ apc[a] = "a_unlock"
               /\ locks' = [locks EXCEPT ![ashard[a]] = 0]
               /\ IF atrig[a] THEN /\ apc' = [apc EXCEPT ![a] = IF Dev_TrigBeforeRing THEN "a_trig" ELSE "a_ring"] /\ UNCHANGED <<an, addRet>>
                              ELSE RetAdd(a)
               /\ UNCHANGED <<state, trigger, runNum, wp, rp, list, getters, idx, ashard, atrig, workers, cpc, ran, flushed, appended, closeCalled, closeRet, ranAtCloseCall>>

A_ring(a) == /\ apc[a] = "a_ring"
             /\ wp' = (wp + 1) % NShards /\ list' = [list EXCEPT ![(wp + 1) % NShards] = ashard[a]]
             /\ IF Dev_TrigBeforeRing
                THEN IF atrig[a] THEN /\ apc' = [apc EXCEPT ![a] = "a_run"] /\ UNCHANGED <<an, addRet>>   \* atrig reused: "first"
                                 ELSE RetAdd(a)
                ELSE /\ apc' = [apc EXCEPT ![a] = "a_trig"] /\ UNCHANGED <<an, addRet>>
             /\ UNCHANGED <<state, trigger, runNum, rp, getters, locks, idx, ashard, atrig, workers, cpc, ran, flushed, appended, closeCalled, closeRet, ranAtCloseCall>>

A_trig(a) == /\ apc[a] = "a_trig"
             /\ trigger' = trigger + 1
             /\ IF Dev_TrigBeforeRing
                THEN /\ atrig' = [atrig EXCEPT ![a] = ~(trigger + 1 > 1)] /\ apc' = [apc EXCEPT ![a] = "a_ring"] /\ UNCHANGED <<an, addRet>>
                ELSE /\ UNCHANGED atrig
                     /\ IF trigger + 1 > 1 THEN RetAdd(a) ELSE /\ apc' = [apc EXCEPT ![a] = "a_run"] /\ UNCHANGED <<an, addRet>>
             /\ UNCHANGED <<state, runNum, wp, rp, list, getters, locks, idx, ashard, workers, cpc, ran, flushed, appended, closeCalled, closeRet, ranAtCloseCall>>

A_run(a) == /\ apc[a] = "a_run"
            /\ Foreach
            /\ RetAdd(a)
            /\ UNCHANGED <<state, trigger, wp, rp, list, getters, locks, idx, ashard, atrig, cpc, ran, flushed, appended, closeCalled, closeRet, ranAtCloseCall>>

\* ---------------------------------------------------------------- worker k
WSet(k, rec) == workers' = [workers EXCEPT ![k] = rec]
W(k) == workers[k]

W_load(k) == /\ W(k).pc = "w_load"
             /\ WSet(k, [W(k) EXCEPT !.tn = trigger, !.neg = 0, !.pc = IF trigger > 0 THEN "w_ring" ELSE "w_flush"])
             /\ UNCHANGED <<state, trigger, runNum, wp, rp, list, getters, locks, idx, apc, an, ashard, atrig, cpc, ran, flushed, appended, addRet, closeCalled, closeRet, ranAtCloseCall>>

W_ring(k) == /\ W(k).pc = "w_ring"
             /\ rp' = (rp + 1) % NShards
             /\ WSet(k, [W(k) EXCEPT !.shared = list[(rp + 1) % NShards], !.pc = "w_lock"])
             /\ UNCHANGED <<state, trigger, runNum, wp, list, getters, locks, idx, apc, an, ashard, atrig, cpc, ran, flushed, appended, addRet, closeCalled, closeRet, ranAtCloseCall>>

W_lock(k) == /\ W(k).pc = "w_lock" /\ locks[W(k).shared] = 0
             /\ locks' = [locks EXCEPT ![W(k).shared] = 1]
             /\ getters' = [getters EXCEPT ![W(k).shared] = <<>>]
             /\ WSet(k, [W(k) EXCEPT !.swap = getters[W(k).shared], !.pc = "w_unlock"])
             /\ UNCHANGED <<state, trigger, runNum, wp, rp, list, idx, apc, an, ashard, atrig, cpc, ran, flushed, appended, addRet, closeCalled, closeRet, ranAtCloseCall>>

W_unlock(k) == /\ W(k).pc = "w_unlock"
               /\ locks' = [locks EXCEPT ![W(k).shared] = 0]
               /\ WSet(k, [W(k) EXCEPT !.pc = "w_deal"])
               /\ UNCHANGED <<state, trigger, runNum, wp, rp, list, getters, idx, apc, an, ashard, atrig, cpc, ran, flushed, appended, addRet, closeCalled, closeRet, ranAtCloseCall>>

\* deal(): every getter of the swapped list is invoked and its data appended
W_deal(k) == /\ W(k).pc = "w_deal"
             /\ ran' = [g \in Getter |-> ran[g] + Cardinality({i \in DOMAIN W(k).swap : W(k).swap[i] = g})]
             /\ appended' = appended \o W(k).swap
             /\ LET neg == W(k).neg - 1 IN
                WSet(k, [W(k) EXCEPT !.neg = neg, !.swap = <<>>, !.pc = IF W(k).tn + neg = 0 THEN "w_sub" ELSE "w_ring"])
             /\ UNCHANGED <<state, trigger, runNum, wp, rp, list, getters, locks, idx, apc, an, ashard, atrig, cpc, flushed, addRet, closeCalled, closeRet, ranAtCloseCall>>

W_sub(k) == /\ W(k).pc = "w_sub"
            /\ trigger' = trigger + W(k).neg
            /\ WSet(k, [W(k) EXCEPT !.tn = trigger + W(k).neg, !.neg = 0, !.pc = IF trigger + W(k).neg > 0 THEN "w_ring" ELSE "w_flush"])
            /\ UNCHANGED <<state, runNum, wp, rp, list, getters, locks, idx, apc, an, ashard, atrig, cpc, ran, flushed, appended, addRet, closeCalled, closeRet, ranAtCloseCall>>

W_flush(k) == /\ W(k).pc = "w_flush"
              /\ flushed' = {appended[i] : i \in DOMAIN appended}
              /\ WSet(k, [W(k) EXCEPT !.pc = IF Dev_EarlyClosed THEN "w_cas" ELSE "w_clear"])
              /\ UNCHANGED <<state, trigger, runNum, wp, rp, list, getters, locks, idx, apc, an, ashard, atrig, cpc, ran, appended, addRet, closeCalled, closeRet, ranAtCloseCall>>

W_clear(k) == /\ W(k).pc = "w_clear"
              /\ runNum' = 0
              /\ WSet(k, [W(k) EXCEPT !.pc = "w_check"])
              /\ UNCHANGED <<state, trigger, wp, rp, list, getters, locks, idx, apc, an, ashard, atrig, cpc, ran, flushed, appended, addRet, closeCalled, closeRet, ranAtCloseCall>>

W_check(k) == /\ W(k).pc = "w_check"
              /\ WSet(k, [W(k) EXCEPT !.pc = IF trigger > 0 THEN "w_rerun" ELSE (IF Dev_EarlyClosed THEN "done" ELSE "w_cas")])
              /\ UNCHANGED <<state, trigger, runNum, wp, rp, list, getters, locks, idx, apc, an, ashard, atrig, cpc, ran, flushed, appended, addRet, closeCalled, closeRet, ranAtCloseCall>>

W_rerun(k) == /\ W(k).pc = "w_rerun"
              /\ IF runNum + 1 > 1
                 THEN /\ runNum' = runNum + 1 /\ WSet(k, [W(k) EXCEPT !.pc = "done"])
                 ELSE /\ runNum' = runNum + 1 /\ workers' = Append([workers EXCEPT ![k] = [W(k) EXCEPT !.pc = "done"]], NewWorker)
              /\ UNCHANGED <<state, trigger, wp, rp, list, getters, locks, idx, apc, an, ashard, atrig, cpc, ran, flushed, appended, addRet, closeCalled, closeRet, ranAtCloseCall>>

W_cas(k) == /\ W(k).pc = "w_cas"
            /\ state' = IF state = Closing THEN Closed ELSE state
            /\ WSet(k, [W(k) EXCEPT !.pc = IF Dev_EarlyClosed THEN "w_clear" ELSE "done"])
            /\ UNCHANGED <<trigger, runNum, wp, rp, list, getters, locks, idx, apc, an, ashard, atrig, cpc, ran, flushed, appended, addRet, closeCalled, closeRet, ranAtCloseCall>>

\* ---------------------------------------------------------------- closer
C_cas == /\ cpc = "c_cas"
         /\ closeCalled' = TRUE /\ ranAtCloseCall' = addRet
         \* (the first evaluation of the loop condition follows the CAS without a schedule point)
         /\ IF state = Active THEN state' = Closing /\ cpc' = "c_trig" /\ UNCHANGED closeRet
                              ELSE cpc' = "done" /\ closeRet' = TRUE /\ UNCHANGED state
         /\ UNCHANGED <<trigger, runNum, wp, rp, list, getters, locks, idx, apc, an, ashard, atrig, workers, ran, flushed, appended, addRet>>
C_trig == /\ cpc = "c_trig"
          /\ cpc' = IF trigger = 0 THEN "c_store" ELSE "c_spin"
          /\ UNCHANGED <<state, trigger, runNum, wp, rp, list, getters, locks, idx, apc, an, ashard, atrig, workers, ran, flushed, appended, addRet, closeCalled, closeRet, ranAtCloseCall>>
C_store == /\ cpc = "c_store"
           /\ state' = Closed /\ cpc' = "done" /\ closeRet' = TRUE
           /\ UNCHANGED <<trigger, runNum, wp, rp, list, getters, locks, idx, apc, an, ashard, atrig, workers, ran, flushed, appended, addRet, closeCalled, ranAtCloseCall>>
\* Gosched, then the loop condition (state != closed) is evaluated again
C_spin == /\ cpc = "c_spin"
          /\ IF state = Closed THEN cpc' = "done" /\ closeRet' = TRUE ELSE cpc' = "c_trig" /\ UNCHANGED closeRet
          /\ UNCHANGED <<state, trigger, runNum, wp, rp, list, getters, locks, idx, apc, an, ashard, atrig, workers, ran, flushed, appended, addRet, closeCalled, ranAtCloseCall>>

MaxWorkers == 8
WStep(k) == k \in DOMAIN workers /\ (W_load(k) \/ W_ring(k) \/ W_lock(k) \/ W_unlock(k) \/ W_deal(k) \/ W_sub(k) \/ W_flush(k)
                                     \/ W_clear(k) \/ W_check(k) \/ W_rerun(k) \/ W_cas(k))
AStep(a) == A_state(a) \/ A_idx(a) \/ A_lock(a) \/ A_unlock(a) \/ A_ring(a) \/ A_trig(a) \/ A_run(a)
CStep == C_cas \/ C_trig \/ C_store \/ C_spin
Next == (\E a \in Adders : AStep(a)) \/ (\E k \in 1 .. MaxWorkers : WStep(k)) \/ CStep

Spec == Init /\ [][Next]_vars

\* ---------------------------------------------------------------- properties (C17)
AtMostOnce == \A g \in Getter : ran[g] <= 1
\* Close returns only after every getter whose Add had returned before Close was called has been invoked
CloseWaits == closeRet => \A g \in ranAtCloseCall : ran[g] >= 1
\* a worker never sees more decrements than triggers
TriggerNonNeg == trigger >= 0
Terminal == (\A a \in Adders : apc[a] = "done") /\ cpc = "done" /\ \A k \in DOMAIN workers : workers[k].pc = "done"
\* at quiescence nothing added is left behind: invoked exactly once and flushed, without any further Add
NothingStranded == Terminal => \A g \in addRet : ran[g] = 1 /\ g \in flushed
\* no process other than the terminated ones is stuck (deadlock freedom is checked by TLC with this as the only allowed end)
View == <<state, trigger, runNum, wp, rp, list, getters, locks, idx, apc, an, ashard, atrig, workers, cpc, ran, closeRet, ranAtCloseCall, flushed>>
=============================================================================
