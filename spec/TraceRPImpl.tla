---------------------------- MODULE TraceRPImpl ----------------------------
(* Conformance of recorded executions of the real input hand-off (connection on a socketpair, manual poller,  *)
(* controlled scheduler) with ReadProto.tla: each line is one step of the schedule actually taken - the actor,  *)
(* the schedule point it was parked at, and after the step the readTrigger occupancy, the input length,          *)
(* waitReadSize, the closing word, the operator state, whether a timer tick is pending and the unread bytes in   *)
(* the socket.                                                                                                  *)
EXTENDS ReadProto, Json

Trace == ndJsonDeserialize("sched.ndjson")
VARIABLE l
tvars == <<vars, l>>
TInit == Init /\ l = 1 /\ TLCSet(2, 0)

ResetVars(ev) ==
    /\ ops' = [j \in 1 .. NOps |-> IF j = 1 THEN [n |-> ev.n1, timed |-> ev.t1 = 1] ELSE [n |-> ev.n2, timed |-> ev.t2 = 1]]
    /\ opi' = 1 /\ rpc' = "r_len0" /\ rerr' = "none" /\ inlen' = 0 /\ wrs' = 0 /\ rt' = <<>> /\ closing' = 0 /\ opst' = 1
    /\ timer' = "off" /\ ticked' = FALSE /\ pend' = 0 /\ sent' = 0 /\ peerClosed' = FALSE /\ detached' = FALSE
    /\ ppc' = "p_fetch" /\ pk' = 0 /\ pevhup' = FALSE /\ hpc' = "none" /\ rets' = <<>>

ProjOk(ev) ==
    /\ Len(rt') = ev.rt /\ inlen' = ev.inlen /\ wrs' = ev.wrs /\ closing' = ev.closing /\ opst' = ev.opst
    /\ (timer' = "fired") = (ev.tick = 1)
    /\ (ev.pend >= 0 => pend' = ev.pend)

\* the peer's step with its amount (0: close); the bound on the peer's total is the specification's, not the trace's
PeerStep(k) ==
    IF k = 0 THEN PeerClose
    ELSE /\ ~peerClosed /\ sent' = sent + k /\ pend' = pend + k
         /\ UNCHANGED <<ops, opi, rpc, rerr, inlen, wrs, rt, closing, opst, timer, ticked, peerClosed, detached, ppc, pk, pevhup, hpc, rets>>

TNext ==
    /\ l <= Len(Trace)
    /\ LET ev == Trace[l] IN
       IF ev.g = "reset" THEN ResetVars(ev)
       ELSE /\ CASE ev.g = "r" -> (RPt = ev.pt /\ Reader)
                 [] ev.g = "p" -> (PPt = ev.pt /\ Poller)
                 [] ev.g = "h" -> (HPt = ev.pt /\ Hup)
                 [] ev.g = "peer" -> PeerStep(ev.k)
                 [] ev.g = "rtimer" -> TimerFire
                 [] OTHER -> FALSE
            /\ ProjOk(ev)
    /\ l' = l + 1
    /\ TLCSet(2, IF l' - 1 > TLCGet(2) THEN l' - 1 ELSE TLCGet(2))

TSpec == TInit /\ [][TNext]_tvars
Report == PrintT(<<"IMPL-RESULT", TLCGet(2), Len(Trace), TRUE>>)
=============================================================================
