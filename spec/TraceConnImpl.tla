--------------------------- MODULE TraceConnImpl ---------------------------
(* Conformance of recorded executions of the real callback / teardown protocol (server-side connection with      *)
(* OnConnect, OnRequest, OnDisconnect and a close callback on a socketpair, manual poller, controlled scheduler)    *)
(* with Conn.tla: each line is one step of the schedule actually taken - the goroutine (task i, poller, hang-up      *)
(* goroutine, closer, peer), the schedule point it was parked at, and after the step the closing / connecting /       *)
(* processing keys, the connection state word, the input length, the operator state and the detach counter.           *)
(* The result also says whether the specification itself collected a rule violation on this very schedule (used to     *)
(* tell a recorded finding of the code as it is from a deviation of the code).                                         *)
EXTENDS Conn, Json

Trace == ndJsonDeserialize("sched.ndjson")
VARIABLE l
tvars == <<vars, l>>
TInit == Init /\ l = 1 /\ TLCSet(2, 0) /\ TLCSet(3, {})

ResetVars(ev) ==
    /\ sh' = InitSh
    /\ env' = [pend |-> 0, sent |-> 0, peerClosed |-> FALSE]
    /\ P' = [pc |-> "p_fetch", k |-> 0, hup |-> FALSE, need |-> FALSE]
    /\ H' = [pc |-> "none"]
    /\ T' = InitT
    /\ nt' = IF WithOnConnect THEN 1 ELSE 0
    /\ C' = [pc |-> IF ev.closer = 1 THEN "c_cb" ELSE "none"]
    /\ hist' = InitHist

ProjOk(ev) ==
    /\ sh'.closing = ev.closing /\ sh'.connecting = ev.connecting /\ sh'.processing = ev.processing /\ sh'.st = ev.st
    /\ sh'.inlen = ev.inlen /\ sh'.opst = ev.opst /\ sh'.det = ev.det

PeerStep(k) ==
    IF k = 0 THEN PeerClose
    ELSE /\ ~env.peerClosed /\ env' = [env EXCEPT !.sent = @ + k, !.pend = @ + k] /\ UNCHANGED <<sh, P, H, T, nt, C, hist>>

TNext ==
    /\ l <= Len(Trace)
    /\ LET ev == Trace[l] IN
       IF ev.g = "reset" THEN ResetVars(ev)
       ELSE /\ CASE ev.g = "t" -> (ev.i \in 1 .. MaxTasks /\ TPt(ev.i) = ev.pt /\ TaskNext(ev.i))
                 [] ev.g = "p" -> (PPt = ev.pt /\ PollerNext)
                 [] ev.g = "h" -> (HPt = ev.pt /\ HupNext)
                 [] ev.g = "c" -> (CPt = ev.pt /\ CloserNext)
                 [] ev.g = "peer" -> PeerStep(ev.k)
                 [] OTHER -> FALSE
            /\ ProjOk(ev)
    /\ l' = l + 1
    /\ TLCSet(2, IF l' - 1 > TLCGet(2) THEN l' - 1 ELSE TLCGet(2))
    /\ TLCSet(3, TLCGet(3) \cup hist'.bad)

TSpec == TInit /\ [][TNext]_tvars
Report == PrintT(<<"IMPL-RESULT", TLCGet(2), Len(Trace), TLCGet(3)>>)
=============================================================================
