----------------------------- MODULE TraceServer -----------------------------
EXTENDS ServerObs, Json, TLC, Sequences
Trace == ndJsonDeserialize("trace.ndjson")
VARIABLES l, viol
tvars == <<v, l, viol>>
TraceInit == v = InitVal /\ l = 1 /\ viol = {} /\ TLCSet(1, <<0, {}>>)
\* (bounded: a build in which almost every event breaks a rule would otherwise make every state carry an ever larger set)
Judge(ev, V) == viol' = IF Cardinality(viol) < 400 THEN viol \cup {<<ev.t, l, r>> : r \in V} ELSE viol
Step(ev) ==
    CASE ev.e = "Init" -> v' = InitVal /\ UNCHANGED viol
      [] ev.e = "Track" -> v' = AcceptEff(ev.n) /\ Judge(ev, AcceptViol(ev.n))
      [] ev.e = "ConnClosed" -> v' = ClosedEff(ev.n) /\ Judge(ev, ClosedViol(ev.n, ev.g))
      [] ev.e = "CbStart" /\ ev.k = "request" -> v' = [v EXCEPT !.inHandler = @ \cup {ev.n}] /\ UNCHANGED viol
      [] ev.e = "CbEnd" /\ ev.k = "request" -> v' = [v EXCEPT !.inHandler = @ \ {ev.n}, !.busyAtSweep = @ \ {ev.n}] /\ UNCHANGED viol
      \* a server-side sender: the connection is busy (like one with a running handler) from the moment output is pending - the first
      \* sendmsg of its Write has happened and bytes are left - not from the call of Write (until then it is legitimately idle)
      [] ev.e = "PushStart" -> v' = [v EXCEPT !.pushFd = ev.n] /\ UNCHANGED viol
      [] ev.e = "Sendmsg" /\ ev.g = "pusher" -> v' = (IF v.pushFd >= 0 THEN [v EXCEPT !.inHandler = @ \cup {v.pushFd}] ELSE v) /\ UNCHANGED viol
      [] ev.e = "PushEnd" -> v' = [v EXCEPT !.inHandler = @ \ {ev.n}, !.busyAtSweep = @ \ {ev.n}, !.pushFd = -1] /\ UNCHANGED viol
      [] ev.e = "FdOpen" /\ ev.k = "1" -> v' = OpenEff(ev.n) /\ UNCHANGED viol
      [] ev.e = "FdClose" /\ ev.k = "1" -> v' = FdCloseEff(ev.n) /\ UNCHANGED viol
      [] ev.e = "Sweep" -> v' = SweepEff /\ UNCHANGED viol
      [] ev.e = "ShutdownCall" -> v' = CallEff /\ UNCHANGED viol
      [] ev.e = "ShutdownRet" -> v' = [v EXCEPT !.ret = ev.err] /\ Judge(ev, RetViol(ev.err))
      [] ev.e = "Tracked" -> Judge(ev, TrackedViol(ev.n, ev.m)) /\ UNCHANGED v
      [] ev.e = "ResumeCheck" -> Judge(ev, IF ev.n = 0 \/ ev.m = 0 THEN {"C13.accepting_did_not_resume_after_descriptor_exhaustion"} ELSE {}) /\ UNCHANGED v
      [] ev.e = "Panic" -> Judge(ev, {"C13.panic"}) /\ UNCHANGED v
      [] ev.e = "Quiescent" -> Judge(ev, IF ev.err # "" THEN {} ELSE QuiescentViol(ev.n)) /\ UNCHANGED v
      [] OTHER -> UNCHANGED <<v, viol>>
TraceNext == l <= Len(Trace) /\ Step(Trace[l]) /\ l' = l + 1 /\ TLCSet(1, <<l', viol'>>)
TraceSpec == TraceInit /\ [][TraceNext]_tvars
Report == PrintT(<<"TRACE-RESULT", TLCGet(1)[1] - 1, Len(Trace), TLCGet(1)[2]>>)
=============================================================================
