CONSTANTS
  MaxTasks = 5
  MaxSend = 2
  WithOnConnect = TRUE
  WithOnDisconnect = TRUE
  HandlerCloses = FALSE
  WithCloser = TRUE
  Dev_NoConnRecheck = FALSE
  Dev_NoInputRecheck = FALSE
  Dev_HupLockTwice = FALSE
  Dev_NoHupTask = FALSE
SPECIFICATION Spec
INVARIANTS TypeOK
CHECK_DEADLOCK FALSE
