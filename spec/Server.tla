------------------------------- MODULE Server -------------------------------
(***************************************************************************)
(* Implementation-shaped specification of the server around ONE accepted    *)
(* connection (netpoll_server.go: OnRead -> accept -> onAccept, Close's      *)
(* sweep) composed with the connection's own protocol (Conn.tla, the         *)
(* configuration without OnConnect, handler returns).  Property C13.         *)
(*                                                                         *)
(* Additional goroutines:                                                   *)
(*   L  the listener's poller: fetch, dispatch, accept, connection.init      *)
(*      (pick a poller, register), the activity check, the untrack callback, *)
(*      Store, the "close callbacks already started?" re-check, onConnect    *)
(*   S  Shutdown: detach + close the listener, then sweeps: accepts in       *)
(*      progress, isIdle (three loads), Close of an idle connection           *)
(*      (closeBy / force, triggers, closeCallback), "still tracked?",         *)
(*      nil / wait / deadline                                                *)
(* The connection's poller, hang-up goroutine and handler tasks are Conn's.  *)
(* Deviations (FALSE for the code as it is) = the code before a repair:      *)
(*   Dev_NoAccepting   accepts in progress are not counted (before F17)      *)
(*   Dev_NoRecheck     no re-check after Store (before F8)                   *)
(*   Dev_RecheckActive the re-check looks at IsActive() (between F8 and F8b) *)
(*   Dev_CountIdleOnly a connection the sweep has closed is not counted       *)
(*                     (before F15)                                          *)
(***************************************************************************)
EXTENDS Conn

CONSTANTS MaxSweeps,
          AnyDeadline,    \* the deadline may pass after any sweep that found something to wait for (conformance: real time is not modelled)
          Dev_NoAccepting, Dev_NoRecheck, Dev_RecheckActive, Dev_CountIdleOnly

VARIABLES
    L,      \* [pc]
    S,      \* [pc, sweeps, active (activeConn of the current sweep), ret]
    srv,    \* [tracked (entry in connections), untrackReg (untrack callback registered), cbRun (closeCallbackRun), accepting, lnOpen, syn (a client connection waits in the accept queue), accepted]
    shist   \* [retLive: Shutdown returned nil while the connection was alive, busyClosed, ...] set of rule names
svars == <<vars, L, S, srv, shist>>

SInit ==
    /\ sh = [closing |-> 0, connecting |-> 0, processing |-> 0, st |-> 0, inlen |-> 0, opst |-> 0, det |-> 0, reg |-> FALSE]
    /\ env = [pend |-> 0, sent |-> 0, peerClosed |-> FALSE]
    /\ P = [pc |-> "p_fetch", k |-> 0, hup |-> FALSE, need |-> FALSE]
    /\ H = [pc |-> "none"]
    /\ T = [i \in 1 .. MaxTasks |-> NoTask]
    /\ nt = 0
    /\ C = [pc |-> "none"]
    /\ hist = [conn |-> 2, req |-> 0, reqs |-> 0, cc |-> 0, ccn |-> 0, od |-> 0, pcl |-> 0, bad |-> {}]
    /\ L = [pc |-> "l_fetch"]
    /\ S = [pc |-> "s_det", sweeps |-> 0, active |-> 0, ret |-> "none"]
    /\ srv = [tracked |-> FALSE, untrackReg |-> FALSE, cbRun |-> FALSE, accepting |-> 0, lnOpen |-> TRUE, syn |-> FALSE, accepted |-> FALSE]
    /\ shist = {}

\* the connection is alive: accepted and its close callbacks have not run
Alive == srv.accepted /\ hist.ccn = 0

\* effect of a step of the connection's own goroutines on the server's bookkeeping: when the close callbacks start, closeCallback sets
\* its flag and runs the list it loads - the untrack callback only if it had been registered by then
Book(h, h2) == IF h.cc = 0 /\ h2.cc # 0 THEN [srv EXCEPT !.cbRun = TRUE, !.tracked = IF srv.untrackReg THEN FALSE ELSE @] ELSE srv

TaskS(i) == TaskNext(i) /\ srv' = Book(hist, hist') /\ UNCHANGED <<L, S, shist>>
PollerS == PollerNext /\ srv' = Book(hist, hist') /\ UNCHANGED <<L, S, shist>>
HupS == HupNext /\ srv' = Book(hist, hist') /\ UNCHANGED <<L, S, shist>>

\* ---- the client ---------------------------------------------------------------------------
ClientConnect == /\ ~srv.syn /\ ~srv.accepted /\ srv.lnOpen /\ srv' = [srv EXCEPT !.syn = TRUE] /\ UNCHANGED <<vars, L, S, shist>>
ClientSend == /\ (srv.syn \/ srv.accepted) /\ PeerSend /\ UNCHANGED <<L, S, srv, shist>>
ClientClose == /\ (srv.syn \/ srv.accepted) /\ PeerClose /\ UNCHANGED <<L, S, srv, shist>>

\* ---- the listener's poller ---------------------------------------------------------------------
LSet(pc) == L' = [pc |-> pc]
LStep ==
    CASE L.pc = "l_fetch" -> /\ srv.syn /\ srv.lnOpen /\ LSet("l_ev") /\ UNCHANGED <<vars, srv>>
      [] L.pc = "l_ev" -> /\ LSet("l_do") /\ UNCHANGED <<vars, srv>>
      [] L.pc = "l_do" ->           \* operator.do(); OnRead: accepting++ ; accept ; connection.init up to the poller pick
            /\ IF srv.lnOpen /\ srv.syn
                  THEN srv' = [srv EXCEPT !.accepting = @ + 1, !.syn = FALSE, !.accepted = TRUE] /\ LSet("l_pick")
                  ELSE UNCHANGED srv /\ LSet("l_done")
            /\ UNCHANGED vars
      [] L.pc = "l_pick" -> /\ LSet("l_i31") /\ UNCHANGED <<vars, srv>>
      [] L.pc = "l_i31" -> /\ LSet("l_act0") /\ UNCHANGED <<vars, srv>>
      [] L.pc = "l_act0" -> /\ LSet("l_reg") /\ UNCHANGED <<vars, srv>>       \* onPrepare: IsActive() before register
      [] L.pc = "l_reg" -> /\ LSet("l_inuse") /\ UNCHANGED <<vars, srv>>        \* Control(PollReadable) ...
      [] L.pc = "l_inuse" ->        \* ... inuse(); epoll_ctl(ADD): the connection is live from here on
            /\ sh' = [sh EXCEPT !.opst = 1, !.reg = TRUE] /\ LSet("l_cb")
            /\ UNCHANGED <<env, P, H, T, nt, C, hist, srv>>
      [] L.pc = "l_cb" ->           \* AddCloseCallback(untrack)
            /\ srv' = [srv EXCEPT !.untrackReg = TRUE] /\ LSet("l_store") /\ UNCHANGED vars
      [] L.pc = "l_store" ->        \* connections.Store ; accepting-- ; the re-check ; then onConnect's first point
            /\ LET untrack == IF Dev_NoRecheck THEN FALSE ELSE IF Dev_RecheckActive THEN sh.closing # 0 ELSE srv.cbRun IN
               srv' = [srv EXCEPT !.tracked = ~untrack, !.accepting = @ - 1]
            /\ LSet("l_act1") /\ UNCHANGED vars
      [] L.pc = "l_act1" ->         \* if !nconn.IsActive() return: a connection that is closing gets no OnConnect (it is tracked all the same)
            /\ LSet(IF sh.closing # 0 THEN "l_done" ELSE "l_conn") /\ UNCHANGED <<vars, srv>>
      [] L.pc = "l_conn" ->         \* onConnect(): no OnConnect callback: changeState(none, connected)
            /\ sh' = [sh EXCEPT !.st = IF @ = 0 THEN 1 ELSE @] /\ LSet("l_done")
            /\ UNCHANGED <<env, P, H, T, nt, C, hist, srv>>
      [] L.pc = "l_done" -> /\ LSet("l_fetch") /\ UNCHANGED <<vars, srv>>
      [] OTHER -> FALSE
LNext == LStep /\ UNCHANGED <<S, shist>>

\* ---- Shutdown -------------------------------------------------------------------------------------
SSet(pc) == S' = [S EXCEPT !.pc = pc]
\* the sweep's verdict after Range: nil when nothing counted as active, else wait for the next sweep or give up at the deadline
Decide(active, n) ==
    IF active = 0 THEN S' = [S EXCEPT !.pc = "end", !.ret = "nil", !.active = 0, !.sweeps = n]
    ELSE IF n >= MaxSweeps THEN S' = [S EXCEPT !.pc = "end", !.ret = "deadline", !.active = 0, !.sweeps = n]
    ELSE \/ S' = [S EXCEPT !.pc = "s_sweep", !.active = 0, !.sweeps = n]
         \/ AnyDeadline /\ S' = [S EXCEPT !.pc = "end", !.ret = "deadline", !.active = 0, !.sweeps = n]
\* "if _, tracked := connections.Load(key); tracked { activeConn++ }" and the end of the Range.
\* (Dev_CountIdleOnly, the code before F15: a connection counts unless the sweep has just closed it)
NotIdle(active) == Decide(active + (IF Dev_CountIdleOnly THEN 1 ELSE IF srv.tracked THEN 1 ELSE 0), S.sweeps)
AfterClose(active, sv) == Decide(active + (IF Dev_CountIdleOnly THEN 0 ELSE IF sv.tracked THEN 1 ELSE 0), S.sweeps)

SStep ==
    CASE S.pc = "s_det" ->          \* Control(PollDetach) on the listener; ln.Close()
            /\ srv' = [srv EXCEPT !.lnOpen = FALSE] /\ SSet("s_sweep") /\ UNCHANGED vars
      [] S.pc = "s_sweep" ->        \* activeConn = accepting ; Range
            /\ LET a == IF Dev_NoAccepting THEN 0 ELSE srv.accepting IN
               IF srv.tracked THEN S' = [S EXCEPT !.pc = "s_i1", !.sweeps = @ + 1, !.active = a] ELSE Decide(a, S.sweeps + 1)
            /\ UNCHANGED <<vars, srv>>
      [] S.pc = "s_i1" ->           \* isIdle: isUnlock(processing)
            /\ IF sh.processing = 0 THEN SSet("s_i2") ELSE NotIdle(S.active)
            /\ UNCHANGED <<vars, srv>>
      [] S.pc = "s_i2" ->           \* inputBuffer.IsEmpty()
            /\ IF sh.inlen = 0 THEN SSet("s_i3") ELSE NotIdle(S.active)
            /\ UNCHANGED <<vars, srv>>
      [] S.pc = "s_i3" -> /\ SSet("s_cb") /\ UNCHANGED <<vars, srv>>   \* outputBuffer.IsEmpty(): nothing is written here
      [] S.pc = "s_cb" ->           \* idle: Close(): closeBy(user)
            /\ IF sh.closing = 0 THEN sh' = [sh EXCEPT !.closing = 1] /\ SSet("s_tr") ELSE UNCHANGED sh /\ SSet("s_force")
            /\ UNCHANGED <<env, P, H, T, nt, C, hist, srv>>
      [] S.pc = "s_tr" -> /\ SSet("s_tw") /\ UNCHANGED <<vars, srv>>
      [] S.pc = "s_tw" -> /\ SSet("s_lk") /\ UNCHANGED <<vars, srv>>
      [] S.pc = "s_force" -> /\ sh' = [sh EXCEPT !.closing = 1] /\ SSet("s_lk2") /\ UNCHANGED <<env, P, H, T, nt, C, hist, srv>>
      [] S.pc \in {"s_lk", "s_lk2"} ->   \* closeCallback(true, needDetach): lock(processing)
            /\ IF sh.processing = 0
                  THEN /\ sh' = [sh EXCEPT !.processing = 1]
                       /\ LET e == EnterCc(S.pc = "s_lk") IN SSet(e[1]) /\ hist' = e[2] /\ srv' = Book(hist, e[2])
                       /\ UNCHANGED <<env, P, H, T, nt, C>>
                  ELSE AfterClose(S.active, srv) /\ UNCHANGED <<vars, srv>>
      [] S.pc \in CcPcs ->
            /\ CcEnabled(S.pc)
            /\ LET r == CcStep(S.pc) IN
               /\ sh' = r[2] /\ hist' = r[3]
               /\ LET sv == Book(hist, r[3]) IN
                  /\ srv' = sv
                  /\ IF r[1] = "end" THEN AfterClose(S.active, sv) ELSE SSet(r[1])
            /\ UNCHANGED <<env, P, H, T, nt, C>>
      [] OTHER -> FALSE
\* history: what Shutdown's return means
Judge(s2) ==
    IF S.pc # "end" /\ s2.pc = "end" /\ s2.ret = "nil" /\ Alive' THEN shist \cup {"shutdown_returned_nil_with_live_connections"} ELSE shist
SNext == SStep /\ UNCHANGED L /\ shist' = Judge(S')

Next2 == (\E i \in 1 .. MaxTasks : TaskS(i)) \/ PollerS \/ HupS \/ LNext \/ SNext \/ ClientConnect \/ ClientSend \/ ClientClose
Spec2 == SInit /\ [][Next2]_svars

\* ---- schedule points --------------------------------------------------------------------------------
LPt == CASE L.pc = "l_fetch" -> 1001 [] L.pc = "l_ev" -> 42 [] L.pc = "l_do" -> 10 [] L.pc = "l_pick" -> 65 [] L.pc = "l_i31" -> 31 [] L.pc \in {"l_act0", "l_act1"} -> 2
         [] L.pc = "l_reg" -> 14 [] L.pc = "l_inuse" -> 12 [] L.pc \in {"l_cb", "l_store"} -> 62 [] L.pc = "l_conn" -> 33 [] L.pc = "l_done" -> 11 [] OTHER -> 0
SPt == CASE S.pc = "s_det" -> 14 [] S.pc = "s_sweep" -> 63 [] S.pc = "s_i1" -> 7 [] S.pc \in {"s_i2", "s_i3"} -> 31 [] S.pc = "s_cb" -> 1 [] S.pc = "s_tr" -> 20 [] S.pc = "s_tw" -> 21
         [] S.pc = "s_force" -> 3 [] S.pc \in {"s_lk", "s_lk2"} -> 4 [] S.pc \in CcPcs -> CcPt(S.pc) [] OTHER -> 0

\* ---- properties ------------------------------------------------------------------------------------------
STypeOK == srv.accepting \in 0 .. 1 /\ S.sweeps <= MaxSweeps + 1
\* Shutdown returns nil only when no accepted connection is alive
NilMeansNoneAlive == "shutdown_returned_nil_with_live_connections" \notin shist
\* the connection's own rules still hold with a Shutdown in the picture
ConnRules == hist.bad \subseteq {"ondisconnect_after_close_callbacks"}
SQuiescent == Quiescent /\ L.pc = "l_fetch" /\ S.pc = "end" /\ ~(srv.syn /\ srv.lnOpen)
\* a closed connection does not stay tracked; an alive one stays tracked
NoStaleEntry == (SQuiescent /\ srv.accepted /\ hist.cc = 2) => ~srv.tracked
TrackedWhileAlive == (srv.tracked /\ L.pc \in {"l_fetch", "l_conn", "l_done"}) => srv.accepted
AliveIsTracked == (SQuiescent /\ Alive /\ sh.reg) => srv.tracked
=============================================================================
