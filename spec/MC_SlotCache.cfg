SPECIFICATION Spec
CONSTANTS
  Conns = {"A", "B", "G"}
  Supply = 2
  Block = 2
  MaxSend = 1
  Dev_ReclaimOnEmpty = FALSE
  Dev_LateOnHup = FALSE
  Dev_FreeAtHandlerStart = FALSE
  Dev_QueueBeforeReset = FALSE
INVARIANTS TypeOK NoBad ListsOK Delivered
CHECK_DEADLOCK FALSE
