------------------------------ MODULE ConnObs ------------------------------
(***************************************************************************)
(* Observable specification of ONE netpoll connection: the properties      *)
(* C05 (teardown exactly once), C06 (serial handling, nothing stranded),    *)
(* C07 (blocked reader), C08 (flush), C09 (callback order), and the         *)
(* connection part of C15 (descriptor closed once), stated as a state       *)
(* machine over API-level events only: user callbacks starting and ending,  *)
(* API calls and their returns, what the peer did, close(2) on the          *)
(* connection's descriptor, poller-slot release, timer expiry.              *)
(* No internal identifier of the implementation appears here.               *)
(*                                                                         *)
(* Every event E has a guard Ok_E(ev) - the property - and an effect.       *)
(* ConnObs!Next takes an event only when its guard holds.  The trace spec   *)
(* (TraceConn.tla) feeds recorded executions of the real code through the   *)
(* same effects and reports the name of every guard that fails; rule names  *)
(* carry the property they belong to.                                       *)
(***************************************************************************)
EXTENDS Integers, Sequences, FiniteSets

VARIABLE o   \* the observable state: one record with the fields
             \*  cfg        [conn, disc, req, ncb]: callbacks configured, number of user close callbacks
             \*  started    [kind -> number of starts]  kinds: prepare connect disconnect request close1..close3
             \*  ended      [kind -> number of ends]
             \*  closeSeq   close-callback indices in the order they started
             \*  fdCloses   close(2) calls on the connection's descriptor
             \*  slotFrees  poller-slot releases
             \*  detached   Detach() was called
             \*  inactive   IsActive() has returned false
             \*  peerClosed the peer closed / half-closed / reset
             \*  sent, consumed   bytes the peer sent / bytes returned by successful reads
             \*  localClose a Close/Detach call has started (any goroutine or callback) or a handler panicked
             \*  closeDone  a Close/Detach call has returned
             \*  panicked   a request handler panicked
             \*  eofFirst   a read reported end-of-stream before any local close started
             \*  pend       [actor -> pending API call or NoCall]
             \*  rtFired, wtFired  read/write timer expiries so far
             \*  submitted  bytes accepted by Write calls that returned nil;  drained: bytes the peer has read
             \*  writeFailed  a Write/Flush has reported an error: the stream guarantee (C04) ends there
             \*  reqSet     an OnRequest handler is installed
             \*  reqAfterClose  handler invocations started after a Close call returned
             \*  peerPending    bytes in the peer's receive queue at the quiescent point (-1 unknown): 0 means the socket is writable

Kinds == {"prepare", "connect", "disconnect", "request", "close1", "close2", "close3"}
CloseKinds == {"close1", "close2", "close3"}
CloseIdx(k) == CASE k = "close1" -> 1 [] k = "close2" -> 2 [] k = "close3" -> 3 [] OTHER -> 0
NoCall == [api |-> "", n |-> 0, m |-> 0, rt |-> 0, wt |-> 0, pd |-> FALSE]
Actors == {"acceptor", "task1", "task2", "task3", "task4", "task5", "task6", "task7", "task8", "task9", "task10", "task11", "task12",
           "task13", "task14", "task15", "task16", "task17", "task18", "task19", "task20", "closer1", "closer2", "closer3",
           "reader", "flusher", "flusher2", "hup1", "hup2", "poller", "env", "user1", "user2"}

Depth == o.started["request"] - o.ended["request"]
InCb(k) == o.started[k] - o.ended[k]
AnyCloseStarted == \E k \in CloseKinds : o.started[k] > 0
AllCloseDone == \A i \in 1 .. o.cfg.ncb : LET k == IF i = 1 THEN "close1" ELSE IF i = 2 THEN "close2" ELSE "close3" IN o.ended[k] = 1
LastCloseEnded == o.cfg.ncb > 0 /\ o.ended["close1"] > 0

InitVal(conn, disc, req, ncb) ==
    [cfg |-> [conn |-> conn, disc |-> disc, req |-> req, ncb |-> ncb],
     started |-> [k \in Kinds |-> 0], ended |-> [k \in Kinds |-> 0],
     closeSeq |-> <<>>, fdCloses |-> 0, slotFrees |-> 0, detached |-> FALSE, inactive |-> FALSE,
     peerClosed |-> FALSE, sent |-> 0, consumed |-> 0, localClose |-> FALSE, closeDone |-> FALSE,
     panicked |-> FALSE, eofFirst |-> FALSE, pend |-> [a \in Actors |-> NoCall], rtFired |-> 0, wtFired |-> 0,
     submitted |-> 0, drained |-> 0, writeFailed |-> FALSE, reqSet |-> req, reqAfterClose |-> 0, peerPending |-> -1]

-----------------------------------------------------------------------------
(* Guards: each returns the set of names of the rules the event violates.   *)

CbStartViol(k, inlen) ==
    (IF k \in CloseKinds /\ o.started[k] > 0 THEN {"C05.close_callback_ran_twice"} ELSE {})
    \cup (IF k \in CloseKinds /\ Depth > 0 THEN {"C05.close_callback_during_handler"} ELSE {})
    \cup (IF k \in CloseKinds /\ o.closeSeq # <<>> /\ o.closeSeq[Len(o.closeSeq)] # CloseIdx(k) + 1 /\ o.started[k] = 0
          THEN {"C05.close_callbacks_out_of_order"} ELSE {})
    \cup (IF k \in CloseKinds /\ o.closeSeq = <<>> /\ CloseIdx(k) # o.cfg.ncb THEN {"C05.close_callbacks_out_of_order"} ELSE {})
    \cup (IF k = "request" /\ Depth > 0 THEN {"C06.two_handlers_at_once"} ELSE {})
    \* one invocation may race a Close; a second one after Close returned means the close was not honoured
    \cup (IF k = "request" /\ o.closeDone /\ o.reqAfterClose >= 1 THEN {"C05.handler_rerun_after_close_returned"} ELSE {})
    \* (close callbacks started by the user's own Close inside OnPrepare are not poller events)
    \cup (IF k # "prepare" /\ o.started["prepare"] > o.ended["prepare"] /\ ~(k \in CloseKinds /\ o.localClose)
          THEN {"C09.event_before_onprepare_returned"} ELSE {})
    \cup (IF k = "request" /\ o.cfg.conn /\ o.ended["connect"] = 0 THEN {"C09.onrequest_before_onconnect_finished"} ELSE {})
    \cup (IF k = "disconnect" /\ o.started[k] > 0 THEN {"C09.ondisconnect_twice"} ELSE {})
    \cup (IF k = "disconnect" /\ o.cfg.conn /\ o.ended["connect"] = 0 THEN {"C09.ondisconnect_before_onconnect_finished"} ELSE {})
    \cup (IF k = "disconnect" /\ AnyCloseStarted THEN {"C09.ondisconnect_after_close_callbacks"} ELSE {})
    \cup (IF k = "connect" /\ o.started[k] > 0 THEN {"C09.onconnect_twice"} ELSE {})
    \cup (IF LastCloseEnded THEN {"C09.callback_after_close_callbacks"} ELSE {})
    \* peer closed with input still buffered: the handler must have been offered it first
    \* (a connection torn down before its OnConnect ever started is exempt: the handler may not run before OnConnect)
    \cup (IF k \in CloseKinds /\ ~AnyCloseStarted /\ inlen > 0 /\ o.reqSet /\ ~o.localClose /\ ~o.panicked
             /\ (~o.cfg.conn \/ o.started["connect"] > 0)
          THEN {"C06.input_not_offered_before_close_callbacks", "C04.sent_bytes_not_offered_before_end_of_stream"} ELSE {})

FdCloseViol(wasOpen) ==
    (IF o.fdCloses > 0 THEN {"C05.descriptor_closed_twice"} ELSE {})
    \cup (IF o.detached THEN {"C05.descriptor_closed_though_detached"} ELSE {})
    \cup (IF wasOpen = 0 THEN {"C15.close_of_a_descriptor_that_is_not_open"} ELSE {})

SlotFreeViol == IF o.slotFrees > 0 THEN {"C05.poller_slot_released_twice"} ELSE {}

IsActiveViol(v) == IF v = 1 /\ o.inactive THEN {"C05.isactive_true_after_false"} ELSE {}

\* return of a blocking read that needed n bytes; `have` = bytes buffered when it was called
ReadRetViol(a, err, ok, lenAfter) ==
    LET c == o.pend[a] IN
    (IF err = "nil" /\ ok = 0 THEN {"C04.read_returned_wrong_bytes"} ELSE {})
    \* end-of-stream is reported only once everything the peer sent has been delivered
    \cup (IF err = "eof" /\ o.consumed + lenAfter < o.sent THEN {"C04.end_of_stream_before_all_data"} ELSE {})
    \cup (IF err = "eof" /\ ~o.peerClosed THEN {"C07.eof_without_peer_close"} ELSE {})
    \* "returns successfully once n bytes are buffered": end-of-stream with the n bytes sitting in the buffer is not an answer
    \cup (IF err = "eof" /\ lenAfter >= c.n THEN {"C07.eof_although_bytes_were_buffered"} ELSE {})
    \cup (IF err = "closed" /\ ~o.localClose THEN {"C07.connclosed_without_local_close"} ELSE {})
    \cup (IF err = "rtimeout" /\ o.rtFired = c.rt THEN {"C07.timeout_without_expiry"} ELSE {})
    \cup (IF err = "rtimeout" /\ c.m >= c.n THEN {"C07.timeout_although_bytes_were_buffered"} ELSE {})
    \cup (IF err = "rtimeout" /\ lenAfter < c.m THEN {"C07.timeout_consumed_data"} ELSE {})
    \* (a timer tick is followed by a second look at the buffer, and the recorded executions have no schedule point between that look
    \* and the return; a deadline that has passed before the call is only compared with what was buffered at the call)
    \cup (IF err = "rtimeout" /\ lenAfter >= c.n /\ ~c.pd THEN {"C07.timeout_although_bytes_were_buffered"} ELSE {})
    \cup (IF err \notin {"nil", "eof", "closed", "rtimeout"} THEN {"C07.unexpected_read_error"} ELSE {})

\* return of Write: nil only when the kernel has taken every o.submitted byte
WriteRetViol(a, err, n, peerPending, others) ==
    LET c == o.pend[a] IN
    (IF err = "nil" /\ peerPending >= 0 /\ o.drained + peerPending < o.submitted + c.n
        THEN {"C08.flush_returned_nil_before_kernel_took_the_data"} ELSE {})
    \cup (IF err = "wtimeout" /\ o.wtFired = c.wt THEN {"C08.write_timeout_without_expiry"} ELSE {})
    \cup (IF err = "closed" /\ ~o.localClose /\ ~o.peerClosed THEN {"C08.connclosed_without_close"} ELSE {})
    \cup (IF err = "concurrent" /\ ~others /\ ~o.localClose /\ ~o.peerClosed THEN {"C08.concurrent_access_without_concurrent_flush"} ELSE {})
    \* while a close (local or by the peer) is racing the call, any error is an acceptable way to fail
    \cup (IF err \notin {"nil", "wtimeout", "closed", "concurrent"} /\ ~o.peerClosed /\ ~o.localClose THEN {"C08.unexpected_write_error"} ELSE {})

\* judgement at a quiescent point: nothing can move any more.
\* blocked: set of [g, k, n] for user goroutines / tasks still parked; inlen: unread input
QuiescentViol(inlen, blocked) ==
    LET teardown == o.closeDone \/ o.panicked \/ (o.peerClosed /\ (o.cfg.conn \/ o.reqSet))
        inCallback == \E b \in blocked : b.cb
    IN
    \* C05 "exactly": a triggered teardown has completed unless a callback is legitimately still in progress
    (IF teardown /\ Depth = 0 /\ ~inCallback /\ o.started["prepare"] = o.ended["prepare"] /\ ~AllCloseDone
        THEN {"C05.close_callbacks_never_ran"} ELSE {})
    \cup (IF teardown /\ Depth = 0 /\ ~inCallback /\ AllCloseDone /\ ~o.detached /\ o.fdCloses = 0 THEN {"C05.descriptor_never_closed"} ELSE {})
    \cup (IF teardown /\ Depth = 0 /\ ~inCallback /\ AllCloseDone /\ o.slotFrees = 0 THEN {"C05.poller_slot_never_released"} ELSE {})
    \* C06: unread input, a handler installed, nobody closed: a handler must be in progress
    \cup (IF inlen > 0 /\ o.reqSet /\ ~o.localClose /\ ~o.panicked /\ ~AnyCloseStarted /\ Depth = 0 /\ (~o.cfg.conn \/ o.ended["connect"] > 0)
        THEN {"C06.input_stranded_without_handler"} ELSE {})
    \* C09: the peer closed a connection whose OnConnect ran (or that has none): exactly one OnDisconnect
    \cup (IF o.peerClosed /\ o.cfg.disc /\ (~o.localClose \/ o.eofFirst) /\ ~o.panicked /\ (~o.cfg.conn \/ o.started["connect"] > 0)
             /\ o.started["disconnect"] = 0 /\ ~inCallback
        THEN {"C09.ondisconnect_never_ran"} ELSE {})
    \* C07/C08: nobody stays blocked once a wake-up condition holds
    \cup UNION {(IF b.k = "read" /\ (inlen >= b.n \/ o.peerClosed \/ o.localClose) THEN {"C07.reader_blocked_for_ever"} ELSE {})
                \cup (IF b.k = "write" /\ (o.peerClosed \/ o.localClose \/ b.n = 0 \/ o.peerPending = 0) THEN {"C08.flusher_blocked_for_ever"} ELSE {})
                \cup (IF b.k = "until" /\ (b.n = 1 \/ o.peerClosed \/ o.localClose) THEN {"C04.line_reader_blocked_with_delimiter_buffered"} ELSE {})
                \cup (IF b.k = "spin" THEN {"C05.goroutine_spinning_for_ever"} ELSE {})
                \* Close never blocks, whatever the other goroutines are doing
                \cup (IF b.g \in {"closer1", "closer2", "closer3"} /\ b.k # "harness" THEN {"C12.close_call_never_returned"} ELSE {})
                \cup (IF b.k = "timerdrain" THEN {"C07.reader_stuck_draining_timer"} ELSE {})
                \* C12: after a close no Reader / Writer call stays blocked
                \cup (IF b.k \in {"timerdrain", "read", "write"} /\ (o.localClose \/ o.peerClosed) /\ ~b.cb THEN {"C12.call_blocked_after_close"} ELSE {}) : b \in blocked}

-----------------------------------------------------------------------------
(* Effects: the new observable state after an event *)
CbStartEff(k) == [o EXCEPT !.started[k] = @ + 1,
                           !.reqAfterClose = IF k = "request" /\ o.closeDone THEN @ + 1 ELSE @,
                           !.closeSeq = IF k \in CloseKinds THEN Append(@, CloseIdx(k)) ELSE @]
CbEndEff(k, pan) == [o EXCEPT !.ended[k] = @ + 1,
                              !.panicked = (@ \/ pan = 1),
                              !.localClose = (@ \/ pan = 1)]
\* (pd: the read was called with a deadline that had already passed)
CallEff(a, api, n, m, pd) ==
    [o EXCEPT !.pend[a] = [api |-> api, n |-> n, m |-> m, rt |-> o.rtFired, wt |-> o.wtFired, pd |-> pd],
              !.localClose = (@ \/ api \in {"Close", "Detach"}),
              !.detached = (@ \/ api = "Detach")]
RetEff(a, api, n, ok, err) ==
    [o EXCEPT !.pend[a] = NoCall,
              !.closeDone = (@ \/ api \in {"Close", "Detach"}),
              !.consumed = IF api \in {"Next", "Until"} THEN (IF err = "nil" \/ api = "Until" THEN @ + n ELSE @) ELSE @,
              !.submitted = IF api = "Write" /\ err = "nil" THEN @ + o.pend[a].n ELSE @,
              !.writeFailed = (@ \/ (api = "Write" /\ err # "nil")),
              !.reqSet = (@ \/ api = "SetOnRequest"),
              \* a read that reported end-of-stream before anybody closed locally: the peer's close was seen first
              !.eofFirst = (@ \/ (err = "eof" /\ ~o.localClose))]
OthersFlushing(a) == \E b \in Actors : b # a /\ o.pend[b].api = "Write"

(* The property as a next-state relation: an event is possible only if it violates no rule.      *)
(* (TraceConn.tla uses the same guards and effects to judge recorded executions.)                *)
Next ==
    \/ \E k \in Kinds, n \in 0 .. 2 : CbStartViol(k, n) = {} /\ o' = CbStartEff(k)
    \/ \E k \in Kinds, p \in 0 .. 1 : InCb(k) > 0 /\ o' = CbEndEff(k, p)
    \/ FdCloseViol(1) = {} /\ o' = [o EXCEPT !.fdCloses = @ + 1]
    \/ SlotFreeViol = {} /\ o' = [o EXCEPT !.slotFrees = @ + 1]
    \/ \E v \in 0 .. 1 : IsActiveViol(v) = {} /\ o' = [o EXCEPT !.inactive = (@ \/ v = 0)]
    \/ o' = [o EXCEPT !.peerClosed = TRUE]
=============================================================================
