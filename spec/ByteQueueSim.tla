--------------------------- MODULE ByteQueueSim ---------------------------
(* Weighted random next-state relation for `tlc -simulate`: parameters are drawn with      *)
(* RandomElement so that a step has few successors and the operation mix is controlled.    *)
(* (TLC picks uniformly among successors; without this, writes with many size/delimiter    *)
(* combinations drown Flush and the reads.)  Only the *choice* is random; every step is a   *)
(* step of ByteQueue!Next_ (or the harmless Nop), so behaviours generated here are          *)
(* behaviours of ByteQueue.                                                                 *)
(* Draws are bound with \E x \in {Pick(S)} : a LET would be re-evaluated (re-drawn) at       *)
(* every occurrence.                                                                        *)
EXTENDS ByteQueue, TLC

\* mentioning a variable keeps TLC from folding the draw into a constant at start-up
Pick(S) == RandomElement(IF nrid >= 0 THEN S ELSE {})

SimWrite ==
    \E b \in Bufs : \E n \in {Pick(WSizes)} : \E dl \in {Pick(DlChoices(n))} :
         \/ Malloc(b, n, dl)
         \/ WriteBinary(b, n, dl)
         \/ WriteString(b, n, dl)
         \/ WriteByte(b, IF dl >= 0 THEN 0 ELSE -1)
         \/ \E w \in {Pick(WSizes \cup {0})} : BookFill(b, w, IF dl >= 0 /\ w > 0 THEN 0 ELSE -1)
         \/ \E r \in {Pick({0, 1, bufs[b].lm, bufs[b].lm \div 2})} : WriteDirect(b, n, r, -1)

SimAck == \E b \in Bufs : \E k \in {Pick({0, 1, MLen(b), MLen(b) - 1, MLen(b) \div 2} \cap (0 .. MLen(b)))} : MallocAck(b, k)
SimFlush == \E b \in Bufs : Flush(b)
SimAppend == \E b, d \in Bufs : AppendBuf(b, d)
SimRead ==
    \E b \in Bufs : \E n \in {Pick(ReadN(b))} :
      \/ Next(b, n) \/ Peek(b, n) \/ Skip(b, n) \/ ReadBinary(b, n) \/ ReadString(b, n)
      \/ ReadCopy(b, n) \/ Slice(b, n) \/ ReadByte(b) \/ Until(b) \/ GetBytes(b)
\* donors for Append: a second read/write buffer that is filled (also across nodes), trimmed with MallocAck and appended unflushed
Donors == {d \in Bufs : Writable(d) /\ ~bufs[d].ap /\ \E b \in Bufs : b < d /\ Writable(b)}
SimDonor ==
    IF Donors = {} THEN (IF FreeBufs # {} THEN (\E c \in {Pick(Caps)} : New(c)) ELSE SimFlush)
    ELSE \E d \in {Pick(Donors)} : \E k \in {Pick(1 .. 7)} : \E n \in {Pick(WSizes)} :
            CASE k <= 2 -> Malloc(d, n, -1)
              [] k = 3 /\ MLen(d) > 0 -> (\E a \in {Pick({1, MLen(d) \div 2, MLen(d) - 1} \cap (0 .. MLen(d)))} : MallocAck(d, a))
              [] k >= 4 /\ (\E b \in Bufs : b < d /\ Writable(b) /\ (bufs[b].pd = <<>> \/ bufs[d].rd = <<>>) /\ LiveOf(d) = {}) ->
                    (\E b \in {Pick({b \in Bufs : b < d /\ Writable(b) /\ (bufs[b].pd = <<>> \/ bufs[d].rd = <<>>) /\ LiveOf(d) = {}})} : AppendBuf(b, d))
              [] OTHER -> Malloc(d, n, -1)
SimRelease == \E b \in Bufs : Release(b)
\* chains of Slice readers (a Slice of a Slice, consumed and released in any order while the parent still holds data)
Sls == {b \in Bufs : Alive(b) /\ bufs[b].kind = "sl"}
Big == {b \in Bufs : Readable(b) /\ RLen(b) > 1 /\ FreeBufs # {}}
SimNested ==
    \E c \in {Pick(1 .. 4)} :
    IF Sls # {} /\ (c > 1 \/ Big = {})
    THEN \E b \in {Pick(Sls)} :
            IF RLen(b) = 0 THEN Release(b)
            ELSE \E n \in {Pick({1, RLen(b) \div 2, RLen(b) - 1, RLen(b)} \cap (1 .. RLen(b)))} : \E k \in {Pick(1 .. 5)} :
                    CASE k <= 2 /\ FreeBufs # {} -> Slice(b, n)
                      [] k = 3 -> Skip(b, RLen(b))
                      [] k = 4 /\ Cardinality(ZcLive) < MaxLive -> Next(b, n)
                      [] OTHER -> Release(b)
    ELSE \E b \in {Pick(Big)} : \E n \in {Pick({1, RLen(b) \div 2, RLen(b) - 1})} : Slice(b, n)
EnNested == Sls # {} \/ Big # {}
\* the Peek cache: Peek over several nodes, small consuming reads, Peek again - on the buffer that holds most
Fat == {b \in Bufs : Readable(b) /\ RLen(b) > 1 /\ \A c \in Bufs : (Readable(c) => RLen(c) <= RLen(b))}
SimPeeky ==
    \E b \in {Pick(Fat)} : \E k \in {Pick(1 .. 8)} : \E n \in {Pick({RLen(b), RLen(b) - 1, RLen(b) \div 2})} :
        CASE k <= 3 /\ Cardinality(ZcLive) < MaxLive -> Peek(b, n)
          [] k = 4 -> ReadByte(b)
          [] k = 5 /\ 1 \in ReadN(b) -> Skip(b, 1)
          [] k = 6 /\ Cardinality(ZcLive) < MaxLive /\ 1 \in ReadN(b) -> Next(b, 1)
          [] k = 7 /\ bufs[b].kind # "sl" /\ 1 \in ReadN(b) -> ReadCopy(b, 1)
          [] k = 8 -> Release(b)      \* Peek, Release, Peek: the Peek cache must not survive the Release
          [] OTHER -> ReadByte(b)
SimLife == (\E c \in {Pick(Caps)} : New(c)) \/ NewIn \/ (\E b \in Bufs : Close(b))

\* always enabled, so a behaviour never ends early when the drawn class has no enabled action
\* (a1 toggles so that two Nops in a row are not a stuttering step, which the simulator drops)
Nop == last' = Out("Nop", 0, IF last.op = "Nop" THEN 1 - last.a1 ELSE 0, 0, FALSE, <<>>, 0, 0, 0) /\ UNCHANGED <<bufs, srcs, live, nrid>>

AnyW == \E b \in Bufs : Writable(b)
AnyWnoAp == \E b \in Bufs : Writable(b) /\ ~bufs[b].ap
AnyA == \E b \in Bufs : Readable(b)
EnAppend == \E b, d \in Bufs : Writable(b) /\ Writable(d) /\ b # d /\ ~bufs[d].ap /\ (bufs[b].pd = <<>> \/ bufs[d].rd = <<>>) /\ LiveOf(d) = {}
EnLife == FreeBufs # {} \/ AnyW

AnyWI == \E b \in Bufs : Alive(b) /\ bufs[b].kind \in {"rw", "in"}
\* fallback when the drawn class has no enabled action (ENABLED cannot be used: it would re-draw
\* the random parameters); SimRead is enabled whenever some buffer is alive
Else == IF AnyW THEN SimFlush ELSE IF EnLife THEN SimLife ELSE IF AnyA THEN SimRead ELSE Nop

SimNext ==
    \E d \in {Pick(1 .. 100)} :
       CASE ~(\E b \in Bufs : Alive(b)) -> (IF EnLife THEN SimLife ELSE Nop)
         [] d <= 24            -> (IF AnyWI THEN SimWrite ELSE Else)
         [] d <= 31            -> (IF AnyWnoAp THEN SimAck ELSE Else)
         [] d <= 46            -> (IF AnyW THEN SimFlush ELSE Else)
         [] d <= 49            -> (IF EnAppend THEN SimAppend ELSE Else)
         [] d <= 51            -> (IF AnyW THEN SimDonor ELSE Else)
         [] d <= 75            -> (IF AnyA THEN SimRead ELSE Else)
         [] d <= 81            -> (IF EnNested THEN SimNested ELSE Else)
         [] d <= 88            -> (IF Fat # {} THEN SimPeeky ELSE Else)
         [] d <= 95            -> (IF AnyA THEN SimRelease ELSE Else)
         [] OTHER              -> Else
=============================================================================
