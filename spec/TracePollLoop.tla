--------------------------- MODULE TracePollLoop ---------------------------
EXTENDS PollLoopObs, Sequences, Json
Trace == ndJsonDeserialize("trace.ndjson")
VARIABLES o, l, viol
tvars == <<o, l, viol>>
TraceInit == o = ObsInit /\ l = 1 /\ viol = {} /\ TLCSet(1, <<0, {}>>)
\* (bounded: a build in which almost every event breaks a rule would otherwise make every state carry an ever larger set)
Judge(ev, V) == viol' = IF Cardinality(viol) < 400 THEN viol \cup {<<ev.t, l, r>> : r \in V} ELSE viol

Step(ev) ==
    CASE ev.e = "Init" -> o' = ObsInit /\ UNCHANGED viol
      [] ev.e = "Send" -> o' = [o EXCEPT !.sent = Put(@, ev.k, Get(@, ev.k) + ev.n)] /\ UNCHANGED viol
      [] ev.e = "Deliver" -> o' = [o EXCEPT !.dlv = Put(@, ev.k, Get(@, ev.k) + ev.n)] /\ Judge(ev, DeliverViol(o, ev.k, ev.n, ev.m))
      [] ev.e = "Reg" -> o' = [o EXCEPT !.regd = IF ev.err = "" THEN @ \cup {ev.k} ELSE @] /\ UNCHANGED viol
      [] ev.e = "Writable" -> o' = [o EXCEPT !.wr = Put(@, ev.k, Get(@, ev.k) + 1)] /\ Judge(ev, WritableViol(o, ev.k))
      [] ev.e = "Hup" -> Judge(ev, {"C11.hangup_without_cause"}) /\ UNCHANGED o
      [] ev.e = "TrigCall" -> o' = [o EXCEPT !.trigIdle = IF o.idle THEN @ \cup {ev.g} ELSE @ \ {ev.g}, !.trigRet = @ \ {ev.g}] /\ UNCHANGED viol
      [] ev.e = "TrigRet" -> o' = [o EXCEPT !.trigRet = @ \cup {ev.g}] /\ UNCHANGED viol
      [] ev.e = "LoopIdle" -> o' = [o EXCEPT !.idle = TRUE] /\ UNCHANGED viol
      [] ev.e = "LoopWake" -> o' = [o EXCEPT !.idle = FALSE, !.trigIdle = {}] /\ UNCHANGED viol
      [] ev.e = "CloseCall" -> o' = [o EXCEPT !.closeCall = TRUE] /\ UNCHANGED viol
      [] ev.e = "CloseRet" -> o' = [o EXCEPT !.closeRet = TRUE] /\ UNCHANGED viol
      [] ev.e = "LoopExit" -> o' = [o EXCEPT !.exited = TRUE] /\ Judge(ev, ExitViol(o, ev.n))
      [] ev.e = "Quiescent" -> Judge(ev, QuiescentViol(o, ev.n)) /\ UNCHANGED o
      [] ev.e = "Panic" -> Judge(ev, {"C11.panic_in_poller"}) /\ UNCHANGED o
      [] OTHER -> UNCHANGED <<o, viol>>

TraceNext == l <= Len(Trace) /\ Step(Trace[l]) /\ l' = l + 1 /\ TLCSet(1, <<l', viol'>>)
TraceSpec == TraceInit /\ [][TraceNext]_tvars
Report == PrintT(<<"TRACE-RESULT", TLCGet(1)[1] - 1, Len(Trace), TLCGet(1)[2]>>)
=============================================================================
