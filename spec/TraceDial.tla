------------------------------ MODULE TraceDial ------------------------------
EXTENDS DialObs, Json, TLC, Sequences
Trace == ndJsonDeserialize("trace.ndjson")
VARIABLES l, viol
tvars == <<d, l, viol>>
TraceInit == d = InitVal("") /\ l = 1 /\ viol = {} /\ TLCSet(1, <<0, {}>>)
\* (bounded: a build in which almost every event breaks a rule would otherwise make every state carry an ever larger set)
Judge(ev, V) == viol' = IF Cardinality(viol) < 400 THEN viol \cup {<<ev.t, l, r>> : r \in V} ELSE viol
Step(ev) ==
    CASE ev.e = "Init" -> d' = [InitVal(ev.k) EXCEPT !.anydrop = (ev.n = 1)] /\ UNCHANGED viol
      [] ev.e = "FdOpen" /\ ev.k \in {"5", "1"} -> d' = [d EXCEPT !.own = @ \cup {ev.n}] /\ UNCHANGED viol
      [] ev.e = "FdClose" /\ ev.k \in {"1", "5", "6"} -> d' = [d EXCEPT !.own = @ \ {ev.n}] /\ UNCHANGED viol
      [] ev.e = "SlotAlloc" -> d' = [d EXCEPT !.slots = @ + 1] /\ UNCHANGED viol
      [] ev.e = "SlotFree" -> d' = [d EXCEPT !.slots = @ - 1] /\ UNCHANGED viol
      [] ev.e = "CtxExpired" -> d' = [d EXCEPT !.expired = TRUE] /\ UNCHANGED viol
      [] ev.e = "DialRet" -> d' = [d EXCEPT !.returned = TRUE] /\ Judge(ev, RetViolW(ev.k = "err", ev.n, ev.m, IF ev.err = "1" THEN 1 ELSE 0, ev.g = "waited" \/ ev.err = "waited"))
      [] ev.e = "Echo" -> Judge(ev, IF ev.n = 0 THEN {"C14.connection_not_usable_in_both_directions"} ELSE {}) /\ UNCHANGED d
      [] ev.e = "ChildFds" -> Judge(ev, IF ev.n > 0 THEN {"C14.descriptor_left_behind"} ELSE {}) /\ UNCHANGED d
      [] ev.e = "Census" -> Judge(ev, CensusViol(ev.n, ev.m)) /\ UNCHANGED d
      [] ev.e = "Panic" -> Judge(ev, {"C14.panic"}) /\ UNCHANGED d
      [] ev.e = "Quiescent" -> Judge(ev, IF ev.err # "" THEN {} ELSE EndViol(ev.n, TRUE)) /\ UNCHANGED d
      [] OTHER -> UNCHANGED <<d, viol>>
TraceNext == l <= Len(Trace) /\ Step(Trace[l]) /\ l' = l + 1 /\ TLCSet(1, <<l', viol'>>)
TraceSpec == TraceInit /\ [][TraceNext]_tvars
Report == PrintT(<<"TRACE-RESULT", TLCGet(1)[1] - 1, Len(Trace), TLCGet(1)[2]>>)
=============================================================================
