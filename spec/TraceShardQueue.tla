-------------------------- MODULE TraceShardQueue --------------------------
EXTENDS ShardQueueObs, Json, TLC
Trace == ndJsonDeserialize("trace.ndjson")
VARIABLES l, viol
tvars == <<o, l, viol>>
TraceInit == o = InitVal /\ l = 1 /\ viol = {} /\ TLCSet(1, <<0, {}>>)
\* (bounded: a build in which almost every event breaks a rule would otherwise make every state carry an ever larger set)
Judge(ev, V) == viol' = IF Cardinality(viol) < 400 THEN viol \cup {<<ev.t, l, r>> : r \in V} ELSE viol
Step(ev) ==
    CASE ev.e = "Init" -> o' = InitVal /\ UNCHANGED viol
      [] ev.e = "AddCall" -> o' = AddCallEff(ev.n) /\ UNCHANGED viol
      [] ev.e = "AddRet" -> o' = AddRetEff(ev.n) /\ UNCHANGED viol
      [] ev.e = "Run" -> o' = RunEff(ev.n) /\ Judge(ev, RunViol(ev.n))
      [] ev.e = "RunNil" -> o' = RunNilEff(ev.n) /\ Judge(ev, RunViol(ev.n))
      [] ev.e = "Flush" -> o' = [o EXCEPT !.flushedN = ev.n] /\ UNCHANGED viol
      [] ev.e = "CloseCall" -> o' = CloseCallEff /\ UNCHANGED viol
      [] ev.e = "CloseRet" -> o' = [o EXCEPT !.closeRet = TRUE] /\ Judge(ev, CloseRetViol)
      [] ev.e = "Panic" -> Judge(ev, {"C17.panic"}) /\ UNCHANGED o
      [] ev.e = "Quiescent" -> Judge(ev, IF ev.err # "" THEN {} ELSE QuiescentViol(ev.n)) /\ UNCHANGED o
      [] OTHER -> UNCHANGED <<o, viol>>
TraceNext == l <= Len(Trace) /\ Step(Trace[l]) /\ l' = l + 1 /\ TLCSet(1, <<l', viol'>>)
TraceSpec == TraceInit /\ [][TraceNext]_tvars
Report == PrintT(<<"TRACE-RESULT", TLCGet(1)[1] - 1, Len(Trace), TLCGet(1)[2]>>)
=============================================================================
