CONSTANTS
  Cap = 2
  MaxN = 3
  NOps = 2
  Dev_NoStaleCheck = FALSE
  Dev_NoStaleCheckUntimed = FALSE
  Dev_NoRearm = TRUE
  EagerKernel = FALSE
SPECIFICATION Spec
CONSTRAINT NoOverlap
CONSTRAINT BigOps
INVARIANTS NoLostWakeup
CHECK_DEADLOCK FALSE
