----------------------------- MODULE FlushProto -----------------------------
(***************************************************************************)
(* Implementation-shaped specification of the output hand-off of one       *)
(* connection (connection_impl.go: Write, flush, waitFlush,                *)
(* staleFlushSignal, triggerWrite; connection_reactor.go: outputs,         *)
(* outputAck, rw2r; the write branch of the poller's handler) together     *)
(* with the kernel objects it talks to: the socket buffer, the peer         *)
(* draining it, the epoll write interest (level-triggered EPOLLOUT) and     *)
(* the write timer.  Property C08.                                         *)
(*                                                                         *)
(* One action = what the code does between two schedule points; the name   *)
(* of a pc is the schedule point the goroutine is parked at (the number is  *)
(* the point's id in verif_on.go):                                         *)
(*   flusher  f_active(2) f_lock(4) f_add(30) f_e1(31) f_skl(31) f_sk(30)   *)
(*            f_e2(31) f_ctl(14) f_wait(24) f_waitT(25) f_stale(31)         *)
(*            f_rearm(14) f_tdrain(27) f_t2(29) f_rw2r(14) f_unlock(5)      *)
(*   poller   p_fetch(1001) p_ev(42) p_do(10) p_e1(31) p_skl(31) p_sk(30)   *)
(*            p_e2(31) p_ctl(14) p_trig(21) p_done(11)                      *)
(*   environment: the peer drains the socket; the write timer fires.        *)
(* Amounts are in units (Cap units fit into the socket buffer).            *)
(* Deviations (FALSE for the code as it is):                               *)
(*   Dev_NoStaleCheck  a nil signal always completes the waiting flush      *)
(*   Dev_NoStaleCheckUntimed  ... of a flush without timeout only            *)
(*                     (the code before the repair of L1)                   *)
(*   Dev_NoRearm       a stale signal is skipped without registering the    *)
(*                     write interest again (before the repair of L1b)      *)
(***************************************************************************)
EXTENDS Integers, Sequences, FiniteSets, TLC

CONSTANTS Cap, MaxN, NOps, Dev_NoStaleCheck, Dev_NoStaleCheckUntimed, Dev_NoRearm,
          EagerKernel    \* TRUE: EPOLLOUT is reported whenever there is room and the timer may fire at any moment after it was armed;
                         \* FALSE: what the harness can drive (unix socket: writable again only once drained; timer fires while the flush waits)

VARIABLES ops,        \* the flusher's program: sequence of [n, timed]
          opi,        \* index of the current Write (Len(ops)+1: finished)
          fpc, fvec, fk, fsig,  \* flusher: pc, bytes in the vector handed to sendmsg, bytes the kernel took, signal received
          blen,       \* outputBuffer length (what Len() returns)
          bvis,       \* bytes published in the node chain (what GetBytes hands out): a writer publishes the nodes first, the length after
          fin, pin,   \* flusher / poller is between GetBytes and the Release that follows its Skip (uses the node chain)
          sock, drained, submitted,
          reg,        \* epoll interest of the descriptor: "R" or "RW"
          wt,         \* writeTrigger, a channel with one slot: <<>> or <<"nil">>
          flock,      \* the flushing key
          timer,      \* "off", "armed", "fired" (a tick sits in the timer's channel)
          ppc, pvec, pk, pev,   \* poller: pc, vector, accepted, an EPOLLOUT event has been fetched and not handled yet
          hz,         \* history: flush() and the poller's write path used the output buffer in a way the design excludes (see ExclusiveBuffer)
          rets        \* results of the finished Writes: sequence of [res, left] (left: outputBuffer length at return)
vars == <<ops, opi, fpc, fvec, fk, fsig, blen, bvis, fin, pin, sock, drained, submitted, reg, wt, flock, timer, ppc, pvec, pk, pev, hz, rets>>

Min(a, b) == IF a < b THEN a ELSE b
Free == Cap - sock
\* what epoll reports for the descriptor (level-triggered): space in the socket buffer
Writable == reg = "RW" /\ (IF EagerKernel THEN sock < Cap ELSE sock = 0)
\* bytes a sendmsg may accept: an empty socket buffer takes what fits; a partly filled one takes some amount up to the room left
\* (EagerKernel) or exactly the room left (what the socketpair of the harness does)
Accepts == IF sock = 0 \/ ~EagerKernel THEN {Min(Free, bvis)} ELSE 0 .. Min(Free, bvis)

Init ==
    /\ ops \in [1 .. NOps -> [n : 1 .. MaxN, timed : BOOLEAN]]
    /\ opi = 1 /\ fpc = "f_active" /\ fvec = 0 /\ fk = 0 /\ fsig = "none"
    /\ blen = 0 /\ bvis = 0 /\ fin = FALSE /\ pin = FALSE /\ sock = 0 /\ drained = 0 /\ submitted = 0
    /\ reg = "R" /\ wt = <<>> /\ flock = 0 /\ timer = "off"
    /\ ppc = "p_fetch" /\ pvec = 0 /\ pk = 0 /\ pev = FALSE /\ hz = FALSE /\ rets = <<>>

Cur == ops[opi]
FU(v) == UNCHANGED v

\* the Write returns: (result, nothing else) then the deferred unlock
Ret(res) == /\ rets' = Append(rets, [res |-> res, left |-> blen]) /\ fpc' = "f_unlock"

\* ---- flusher ------------------------------------------------------------------
FActive ==   \* IsActive(): no closer in this model
    /\ fpc = "f_active" /\ opi <= Len(ops)
    /\ fpc' = "f_lock"
    /\ UNCHANGED <<ops, opi, fvec, fk, fsig, blen, bvis, fin, pin, sock, drained, submitted, reg, wt, flock, timer, ppc, pvec, pk, pev, rets, hz>>

FLock ==
    /\ fpc = "f_lock"
    /\ flock' = 1 /\ fpc' = "f_add"     \* single writer: the CAS succeeds; Malloc, copy, Flush() publishes the nodes
    /\ bvis' = bvis + Cur.n /\ submitted' = submitted + Cur.n
    /\ UNCHANGED <<ops, opi, fvec, fk, fsig, blen, fin, pin, sock, drained, reg, wt, timer, ppc, pvec, pk, pev, rets, hz>>

FAdd ==      \* ... and then the length
    /\ fpc = "f_add"
    /\ blen' = blen + Cur.n /\ fpc' = "f_e1"
    /\ UNCHANGED <<ops, opi, fvec, fk, fsig, bvis, fin, pin, sock, drained, submitted, reg, wt, flock, timer, ppc, pvec, pk, pev, rets, hz>>

FE1 ==       \* flush(): IsEmpty? ; GetBytes ; sendmsg
    /\ fpc = "f_e1"
    /\ IF blen = 0
          THEN Ret("nil") /\ UNCHANGED <<fvec, fk, fin, sock>>
          ELSE \E k \in Accepts :
               /\ fvec' = bvis /\ fk' = k /\ sock' = sock + k /\ fin' = TRUE
               /\ fpc' = IF k > 0 THEN "f_skl" ELSE "f_e2"
               /\ UNCHANGED rets
    /\ UNCHANGED <<ops, opi, fsig, blen, bvis, pin, drained, submitted, reg, wt, flock, timer, ppc, pvec, pk, pev>>
    /\ hz' = (hz \/ (blen # 0 /\ pin))

FSkl ==      \* Skip: Len() check; "not enough" (only possible when the poller's write path interfered): flush returns that error
    /\ fpc = "f_skl"
    /\ IF blen < fk THEN Ret("skiperr") /\ fin' = FALSE ELSE fpc' = "f_sk" /\ UNCHANGED <<rets, fin>>
    /\ UNCHANGED <<ops, opi, fvec, fk, fsig, blen, bvis, pin, sock, drained, submitted, reg, wt, flock, timer, ppc, pvec, pk, pev, hz>>

FSk ==       \* recalLen(-k), walk the nodes, Release
    /\ fpc = "f_sk"
    /\ blen' = blen - fk /\ bvis' = (IF bvis > fk THEN bvis - fk ELSE 0) /\ fpc' = "f_e2"
    /\ UNCHANGED <<ops, opi, fvec, fk, fsig, fin, pin, sock, drained, submitted, reg, wt, flock, timer, ppc, pvec, pk, pev, rets, hz>>

FE2 ==       \* "return if write all buffer", else ask for writability
    /\ fpc = "f_e2"
    /\ fin' = FALSE
    /\ IF blen = 0 THEN Ret("nil") ELSE fpc' = "f_ctl" /\ UNCHANGED rets
    /\ UNCHANGED <<ops, opi, fvec, fk, fsig, blen, bvis, pin, sock, drained, submitted, reg, wt, flock, timer, ppc, pvec, pk, pev, hz>>

FCtl ==      \* Control(PollR2RW); waitFlush arms the timer for a timed write
    /\ fpc = "f_ctl"
    /\ reg' = "RW"
    /\ IF Cur.timed THEN fpc' = "f_waitT" /\ timer' = "armed" ELSE fpc' = "f_wait" /\ UNCHANGED timer
    /\ UNCHANGED <<ops, opi, fvec, fk, fsig, blen, bvis, fin, pin, sock, drained, submitted, wt, flock, ppc, pvec, pk, pev, rets, hz>>

FWait ==     \* err = <-writeTrigger
    /\ fpc = "f_wait" /\ wt # <<>>
    /\ fsig' = Head(wt) /\ wt' = <<>> /\ fpc' = "f_stale"
    /\ UNCHANGED <<ops, opi, fvec, fk, blen, bvis, fin, pin, sock, drained, submitted, reg, flock, timer, ppc, pvec, pk, pev, rets, hz>>

FWaitT ==    \* select { case err = <-writeTrigger ; case <-timer.C }
    /\ fpc = "f_waitT"
    /\ \/ /\ wt # <<>> /\ fsig' = Head(wt) /\ wt' = <<>> /\ fpc' = "f_stale" /\ UNCHANGED timer
       \/ /\ timer = "fired" /\ timer' = "off" /\ fpc' = "f_t2" /\ UNCHANGED <<fsig, wt>>
    /\ UNCHANGED <<ops, opi, fvec, fk, blen, bvis, fin, pin, sock, drained, submitted, reg, flock, ppc, pvec, pk, pev, rets, hz>>

\* staleFlushSignal: a nil signal with a non-empty output buffer is the leftover of an earlier flush
FStale ==
    /\ fpc = "f_stale"
    /\ LET stale == ~Dev_NoStaleCheck /\ ~(Dev_NoStaleCheckUntimed /\ ~Cur.timed) /\ blen # 0 IN
       IF stale
       THEN /\ fpc' = IF Dev_NoRearm THEN (IF Cur.timed THEN "f_waitT" ELSE "f_wait") ELSE "f_rearm"
            /\ UNCHANGED <<rets, timer>>
       ELSE \* the waiting flush returns the signal; a timed flush stops its timer (draining a tick that already fired)
            IF Cur.timed /\ timer = "fired"
            THEN fpc' = "f_tdrain" /\ UNCHANGED <<rets, timer>>
            ELSE Ret("nil") /\ timer' = "off"
    /\ UNCHANGED <<ops, opi, fvec, fk, fsig, blen, bvis, fin, pin, sock, drained, submitted, reg, wt, flock, ppc, pvec, pk, pev, hz>>

FRearm ==    \* Control(PollR2RW) again, back to the wait
    /\ fpc = "f_rearm"
    /\ reg' = "RW" /\ fpc' = IF Cur.timed THEN "f_waitT" ELSE "f_wait"
    /\ UNCHANGED <<ops, opi, fvec, fk, fsig, blen, bvis, fin, pin, sock, drained, submitted, wt, flock, timer, ppc, pvec, pk, pev, rets, hz>>

FTDrain ==   \* <-timer.C after Stop() returned false
    /\ fpc = "f_tdrain"
    /\ timer' = "off" /\ Ret("nil")
    /\ UNCHANGED <<ops, opi, fvec, fk, fsig, blen, bvis, fin, pin, sock, drained, submitted, reg, wt, flock, ppc, pvec, pk, pev, hz>>

FT2 ==       \* the timer won: look at the trigger once more, else give up
    /\ fpc = "f_t2"
    /\ IF wt # <<>>
          THEN fsig' = Head(wt) /\ wt' = <<>> /\ fpc' = "f_stale2"
          ELSE fpc' = "f_rw2r" /\ UNCHANGED <<fsig, wt>>
    /\ UNCHANGED <<ops, opi, fvec, fk, blen, bvis, fin, pin, sock, drained, submitted, reg, flock, timer, ppc, pvec, pk, pev, rets, hz>>

FStale2 ==   \* staleFlushSignal on the timeout path
    /\ fpc = "f_stale2"
    /\ LET stale == ~Dev_NoStaleCheck /\ ~(Dev_NoStaleCheckUntimed /\ ~Cur.timed) /\ blen # 0 IN
       IF stale THEN fpc' = (IF Dev_NoRearm THEN "f_rw2r" ELSE "f_rearm2") /\ UNCHANGED rets
       ELSE Ret("nil")
    /\ UNCHANGED <<ops, opi, fvec, fk, fsig, blen, bvis, fin, pin, sock, drained, submitted, reg, wt, flock, timer, ppc, pvec, pk, pev, hz>>

FRearm2 ==
    /\ fpc = "f_rearm2" /\ reg' = "RW" /\ fpc' = "f_rw2r"
    /\ UNCHANGED <<ops, opi, fvec, fk, fsig, blen, bvis, fin, pin, sock, drained, submitted, wt, flock, timer, ppc, pvec, pk, pev, rets, hz>>

FRw2r ==     \* Control(PollRW2R); return ErrWriteTimeout
    /\ fpc = "f_rw2r"
    /\ reg' = "R" /\ Ret("timeout")
    /\ UNCHANGED <<ops, opi, fvec, fk, fsig, blen, bvis, fin, pin, sock, drained, submitted, wt, flock, timer, ppc, pvec, pk, pev, hz>>

FUnlock ==
    /\ fpc = "f_unlock"
    /\ flock' = 0 /\ opi' = opi + 1 /\ fpc' = "f_active"
    /\ UNCHANGED <<ops, fvec, fk, fsig, blen, bvis, fin, pin, sock, drained, submitted, reg, wt, timer, ppc, pvec, pk, pev, rets, hz>>

Flusher == FActive \/ FLock \/ FAdd \/ FE1 \/ FSkl \/ FSk \/ FE2 \/ FCtl \/ FWait \/ FWaitT \/ FStale \/ FRearm \/ FTDrain
           \/ FT2 \/ FStale2 \/ FRearm2 \/ FRw2r \/ FUnlock

\* ---- poller (write branch of the handler for this descriptor) ---------------------
PFetch ==    \* epoll_wait reports EPOLLOUT for the descriptor
    /\ ppc = "p_fetch" /\ Writable
    /\ pev' = TRUE /\ ppc' = "p_ev"
    /\ UNCHANGED <<ops, opi, fpc, fvec, fk, fsig, blen, bvis, fin, pin, sock, drained, submitted, reg, wt, flock, timer, pvec, pk, rets, hz>>

PEv == /\ ppc = "p_ev" /\ ppc' = "p_do"
       /\ UNCHANGED <<ops, opi, fpc, fvec, fk, fsig, blen, bvis, fin, pin, sock, drained, submitted, reg, wt, flock, timer, pvec, pk, pev, rets, hz>>

PDo == /\ ppc = "p_do" /\ ppc' = "p_e1" /\ pev' = FALSE
       /\ UNCHANGED <<ops, opi, fpc, fvec, fk, fsig, blen, bvis, fin, pin, sock, drained, submitted, reg, wt, flock, timer, pvec, pk, rets, hz>>

PE1 ==       \* outputs(): IsEmpty? rw2r : GetBytes ; iosend
    /\ ppc = "p_e1"
    /\ IF blen = 0
          THEN ppc' = "p_ctl" /\ UNCHANGED <<pvec, pk, pin, sock>>
          ELSE \E k \in Accepts :
               /\ pvec' = bvis /\ pk' = k /\ sock' = sock + k /\ pin' = TRUE
               /\ ppc' = IF k > 0 THEN "p_skl" ELSE "p_e2"
    /\ UNCHANGED <<ops, opi, fpc, fvec, fk, fsig, blen, bvis, fin, drained, submitted, reg, wt, flock, timer, pev, rets>>
    /\ hz' = (hz \/ (blen # 0 /\ (fin \/ fpc = "f_add")))

PSkl == /\ ppc = "p_skl" /\ ppc' = IF blen < pk THEN "p_e2" ELSE "p_sk"
        /\ UNCHANGED <<ops, opi, fpc, fvec, fk, fsig, blen, bvis, fin, pin, sock, drained, submitted, reg, wt, flock, timer, pvec, pk, pev, rets, hz>>

PSk == /\ ppc = "p_sk" /\ blen' = blen - pk /\ bvis' = (IF bvis > pk THEN bvis - pk ELSE 0) /\ ppc' = "p_e2"
       /\ UNCHANGED <<ops, opi, fpc, fvec, fk, fsig, fin, pin, sock, drained, submitted, reg, wt, flock, timer, pvec, pk, pev, rets, hz>>

PE2 ==       \* outputAck: if IsEmpty() rw2r
    /\ ppc = "p_e2" /\ pin' = FALSE
    /\ ppc' = IF blen = 0 THEN "p_ctl" ELSE "p_done"
    /\ UNCHANGED <<ops, opi, fpc, fvec, fk, fsig, blen, bvis, fin, sock, drained, submitted, reg, wt, flock, timer, pvec, pk, pev, rets, hz>>

PCtl ==      \* rw2r: Control(PollRW2R) ...
    /\ ppc = "p_ctl" /\ reg' = "R" /\ ppc' = "p_trig"
    /\ UNCHANGED <<ops, opi, fpc, fvec, fk, fsig, blen, bvis, fin, pin, sock, drained, submitted, wt, flock, timer, pvec, pk, pev, rets, hz>>

PTrig ==     \* ... triggerWrite(nil): non-blocking send into the one-slot channel
    /\ ppc = "p_trig"
    /\ wt' = IF wt = <<>> THEN <<"nil">> ELSE wt
    /\ ppc' = "p_done"
    /\ UNCHANGED <<ops, opi, fpc, fvec, fk, fsig, blen, bvis, fin, pin, sock, drained, submitted, reg, flock, timer, pvec, pk, pev, rets, hz>>

PDone == /\ ppc = "p_done" /\ ppc' = "p_fetch"
         /\ UNCHANGED <<ops, opi, fpc, fvec, fk, fsig, blen, bvis, fin, pin, sock, drained, submitted, reg, wt, flock, timer, pvec, pk, pev, rets, hz>>

Poller == PFetch \/ PEv \/ PDo \/ PE1 \/ PSkl \/ PSk \/ PE2 \/ PCtl \/ PTrig \/ PDone

\* ---- environment ----------------------------------------------------------------
PeerDrain == /\ sock > 0 /\ drained' = drained + sock /\ sock' = 0
             /\ UNCHANGED <<ops, opi, fpc, fvec, fk, fsig, blen, bvis, fin, pin, submitted, reg, wt, flock, timer, ppc, pvec, pk, pev, rets, hz>>
TimerFire == /\ timer = "armed" /\ (EagerKernel \/ fpc = "f_waitT") /\ timer' = "fired"
             /\ UNCHANGED <<ops, opi, fpc, fvec, fk, fsig, blen, bvis, fin, pin, sock, drained, submitted, reg, wt, flock, ppc, pvec, pk, pev, rets, hz>>

Next == Flusher \/ Poller \/ PeerDrain \/ TimerFire
Spec == Init /\ [][Next]_vars

\* the schedule point a goroutine is parked at (ids of verif_on.go; 1001 = the manual poller's fetch step)
FPt == CASE fpc = "f_active" -> 2 [] fpc = "f_lock" -> 4 [] fpc \in {"f_add", "f_sk"} -> 30 [] fpc \in {"f_e1", "f_skl", "f_e2", "f_stale", "f_stale2"} -> 31
         [] fpc \in {"f_ctl", "f_rearm", "f_rearm2", "f_rw2r"} -> 14 [] fpc = "f_wait" -> 24 [] fpc = "f_waitT" -> 25 [] fpc = "f_tdrain" -> 27
         [] fpc = "f_t2" -> 29 [] fpc = "f_unlock" -> 5 [] OTHER -> 0
PPt == CASE ppc = "p_fetch" -> 1001 [] ppc = "p_ev" -> 42 [] ppc = "p_do" -> 10 [] ppc \in {"p_e1", "p_skl", "p_e2"} -> 31 [] ppc = "p_sk" -> 30
         [] ppc = "p_ctl" -> 14 [] ppc = "p_trig" -> 21 [] ppc = "p_done" -> 11 [] OTHER -> 0

\* ---- properties -------------------------------------------------------------------
TypeOK == blen \in Int /\ sock \in 0 .. Cap /\ reg \in {"R", "RW"} /\ Len(wt) <= 1 /\ timer \in {"off", "armed", "fired"}

\* flush() and the poller's write path never read the node chain at the same time, and the poller never takes a vector while a
\* Write has published its nodes but not yet the length   (fails for the code as it is: finding F16)
ExclusiveBuffer == ~hz
\* programs whose writes all exceed the socket buffer (window schedules that do not depend on what a partly filled socket accepts)
BigOps == \A j \in 1 .. NOps : ops[j].n = MaxN
NoOverlap == ExclusiveBuffer       \* used as a state constraint where the other properties are checked

\* Write returns nil only when every byte submitted so far has been accepted by the kernel
NilMeansTaken == \A j \in 1 .. Len(rets) : rets[j].res = "nil" => rets[j].left = 0
\* nothing is lost or duplicated on the way
Conservation == (~fin /\ ~pin) => bvis + sock + drained = submitted
\* the length word and the node chain agree whenever nobody is in the middle of changing them
LenAgrees == (~fin /\ ~pin /\ fpc # "f_add") => blen = bvis
\* a flush without timeout that waits can still be woken: the write interest is registered, or a signal / a fetched event / a
\* poller in the middle of its handling is on its way
NoLostWakeup == (fpc = "f_wait") => (wt # <<>> \/ reg = "RW" \/ pev \/ ppc \notin {"p_fetch"})
\* a timed flush never waits without a timer
TimedHasTimer == (fpc = "f_waitT") => timer \in {"armed", "fired"}
\* the timer is never left with a tick when a timed wait starts (a stale tick would fail the next flush at once)
NoStaleTick == (fpc = "f_ctl") => timer = "off"
=============================================================================
