CONSTANTS
  Cap = 2
  MaxN = 3
  NOps = 2
  Dev_NoStaleCheck = TRUE
  Dev_NoStaleCheckUntimed = FALSE
  Dev_NoRearm = FALSE
  EagerKernel = FALSE
SPECIFICATION Spec
CONSTRAINT NoOverlap
CONSTRAINT BigOps
INVARIANTS NilMeansTaken
CHECK_DEADLOCK FALSE
