----------------------------- MODULE LinkBuffer -----------------------------
(***************************************************************************)
(* Transcription of the node chain of nocopy_linkbuffer.go (content-free):  *)
(* nodes with capacity / length / read offset / write offset / reference     *)
(* count / flags / origin, the four chain pointers, the two length words,    *)
(* the caches of multi-node reads, the Peek cache, Slice readers built with   *)
(* Refer, and the ledger of pool blocks.  Properties C01 (the length words   *)
(* and pointers stay consistent), C02 (what a zero-copy read handed out is    *)
(* not returned to the pool before Release), C03 (every pool block is         *)
(* returned at most once and never while data in it is unread).              *)
(*                                                                         *)
(* Sizes are in units of 2048 bytes: LinkBufferCap = 2, the nocopy threshold  *)
(* of WriteBinary = 2 (strictly more goes nocopy), pagesize = 4; the pool     *)
(* rounds capacities up to powers of two.  One action = one API call; every   *)
(* branch of the Go code is a branch here (growth, isSingleNode, the copy     *)
(* loops, Refer / Release with origins, the discard loop of MallocAck, the    *)
(* split of WriteDirect ...).                                               *)
(* Buffers: 1 is a read/write buffer; the others are Slice readers or, with   *)
(* WithAppend, further read/write buffers that can be appended (WriteBuffer). *)
(***************************************************************************)
EXTENDS Integers, Sequences, FiniteSets, TLC

CONSTANTS MaxNode, MaxBlk, MaxBuf, Sizes, InitSizes,
          MaxSteps,            \* number of calls explored from the initial state
          WithWriteDirect,     \* WriteDirect with remain > 0 is part of the program space (finding F3 of the code as it is)
          WithAppend,          \* further read/write buffers and WriteBuffer (Append) are part of the program space
          WithBook,            \* the poller's book / bookAck pair (connection input path) is part of the program space
          Dev_AppendKeepsTail  \* deviation: WriteBuffer cuts the chain behind the donor's write node only when the donor had readable data

CapMin == 2
Inplace == 2
PageSize == 4
Pow2(x) == IF x <= 1 THEN 1 ELSE IF x <= 2 THEN 2 ELSE IF x <= 4 THEN 4 ELSE 8

VARIABLES
    nd,     \* [1..MaxNode -> node record]; cap = 0: the id is unused
    nn,     \* nodes created so far
    pool,   \* [1..MaxBlk -> [cap, freed (times returned to the pool)]]
    nb,     \* blocks created so far
    bf,     \* [1..MaxBuf -> buffer record]
    owed,   \* zero-copy results handed to the user and not yet released: set of [buf, blk]
    last,   \* the last call: [op, b, n, m, ok]
    steps,  \* calls so far
    bad     \* rule names
vars == <<nd, nn, pool, nb, bf, owed, last, steps, bad>>

NoNode == [cap |-> 0, len |-> 0, off |-> 0, mal |-> 0, refer |-> 0, unm |-> FALSE, exp |-> FALSE, origin |-> 0, next |-> 0, blk |-> 0, live |-> FALSE]
NoBuf == [kind |-> "none", head |-> 0, read |-> 0, flush |-> 0, write |-> 0, length |-> 0, msize |-> 0, caches |-> <<>>, cp |-> [blk |-> 0, len |-> 0, cap |-> 0],
          app |-> 0,   \* readable bytes taken over by WriteBuffer and not yet submitted by Flush (contract: only writes until then)
          apd |-> FALSE, \* a buffer was appended (WriteBuffer) and Flush has not been called since: only further writes are documented until then
          booked |-> -1] \* the poller's reservation (book) not yet acknowledged (bookAck); -1: none

Init ==
    /\ \E s \in InitSizes :
        IF s = 0
        THEN /\ nd = [i \in 1 .. MaxNode |-> IF i = 1 THEN [NoNode EXCEPT !.refer = 1, !.unm = TRUE, !.live = TRUE] ELSE NoNode]
             /\ pool = [i \in 1 .. MaxBlk |-> [cap |-> 0, freed |-> 0]] /\ nb = 0
        ELSE /\ nd = [i \in 1 .. MaxNode |-> IF i = 1 THEN [NoNode EXCEPT !.cap = Pow2(IF s < CapMin THEN CapMin ELSE s), !.refer = 1, !.live = TRUE, !.blk = 1] ELSE NoNode]
             /\ pool = [i \in 1 .. MaxBlk |-> IF i = 1 THEN [cap |-> Pow2(IF s < CapMin THEN CapMin ELSE s), freed |-> 0] ELSE [cap |-> 0, freed |-> 0]] /\ nb = 1
    /\ nn = 1
    /\ bf = [i \in 1 .. MaxBuf |-> IF i = 1 THEN [NoBuf EXCEPT !.kind = "rw", !.head = 1, !.read = 1, !.flush = 1, !.write = 1] ELSE NoBuf]
    /\ owed = {} /\ last = [op |-> "New", b |-> 1, n |-> 0, m |-> 0, ok |-> TRUE] /\ bad = {} /\ steps = 0

\* ---- helpers on a node table N (functional style: operators return new tables) -------------------------
NLen(N, i) == N[i].len - N[i].off
\* the pool block behind a node's bytes: its own, or its origin's
BlkOf(N, i) == IF N[i].blk # 0 THEN N[i].blk ELSE IF N[i].origin # 0 THEN N[N[i].origin].blk ELSE 0

\* a state bundle threaded through the transcribed code
St == [N |-> nd, K |-> pool, nn |-> nn, nb |-> nb, bad |-> bad]

\* newLinkBufferNode(size)
NewNode(S, size) ==
    LET id == S.nn + 1 IN
    IF size <= 0
    THEN [S EXCEPT !.nn = id, !.N = [S.N EXCEPT ![id] = [NoNode EXCEPT !.refer = 1, !.unm = TRUE, !.live = TRUE]]]
    ELSE LET c == Pow2(IF size < CapMin THEN CapMin ELSE size) b == S.nb + 1 IN
         [S EXCEPT !.nn = id, !.nb = b, !.N = [S.N EXCEPT ![id] = [NoNode EXCEPT !.cap = c, !.refer = 1, !.live = TRUE, !.blk = b]],
                   !.K = [S.K EXCEPT ![b] = [cap |-> c, freed |-> 0]]]

\* free(block)
FreeBlk(S, b) == IF b = 0 THEN S ELSE [S EXCEPT !.K = [S.K EXCEPT ![b].freed = @ + 1], !.bad = IF S.K[b].freed > 0 THEN @ \cup {"double_free"} ELSE @]

\* node.Release(): the origin first (recursively), then itself
RECURSIVE NodeRelease(_, _)
NodeRelease(S, i) ==
    LET S1 == IF S.N[i].origin # 0 THEN NodeRelease(S, S.N[i].origin) ELSE S
        r == S1.N[i].refer - 1 IN
    IF r = 0
    THEN LET S2 == IF ~S1.N[i].unm THEN FreeBlk(S1, S1.N[i].blk) ELSE S1 IN
         [S2 EXCEPT !.N = [S2.N EXCEPT ![i] = [@ EXCEPT !.refer = 0, !.live = FALSE, !.origin = 0, !.next = 0]]]
    ELSE [S1 EXCEPT !.N = [S1.N EXCEPT ![i].refer = r], !.bad = IF r < 0 THEN @ \cup {"release_of_dead_node"} ELSE @]

Budget(k, j) == nn + k <= MaxNode /\ nb + j <= MaxBlk
Alive(b) == bf[b].kind \in {"rw", "sl"}

\* ---- writer -----------------------------------------------------------------------------------------------
\* growth(n): returns <<S, write>>
RECURSIVE Growth(_, _, _)
Growth(S, w, n) ==
    IF S.N[w].unm \/ S.N[w].cap - S.N[w].mal < n
    THEN IF S.N[w].next = 0
         THEN LET S1 == NewNode(S, n) id == S1.nn IN <<[S1 EXCEPT !.N = [S1.N EXCEPT ![w].next = id]], id>>
         ELSE Growth(S, S.N[w].next, n)
    ELSE <<S, w>>

Commit(S, B, op, b, n, m) ==
    /\ nd' = S.N /\ pool' = S.K /\ nn' = S.nn /\ nb' = S.nb /\ bad' = S.bad
    /\ bf' = B /\ last' = [op |-> op, b |-> b, n |-> n, m |-> m, ok |-> TRUE]
    /\ steps < MaxSteps /\ steps' = steps + 1

RW(b) == bf[b].kind = "rw"
\* (the writer API is not mixed with an outstanding reservation of the poller)
WR(b) == RW(b) /\ bf[b].booked = -1
Malloc(b, n) ==
    /\ WR(b) /\ Budget(1, 1)
    /\ LET g == Growth(St, bf[b].write, n) S == g[1] w == g[2]
           S2 == [S EXCEPT !.N = [S.N EXCEPT ![w].mal = @ + n]] IN
       Commit(S2, [bf EXCEPT ![b].write = w, ![b].msize = @ + n], "Malloc", b, n, 0)
    /\ UNCHANGED owed

\* the nodes from a to z (inclusive) along next
RECURSIVE Chain(_, _, _)
Chain(N, a, z) == IF a = 0 THEN <<>> ELSE IF a = z THEN <<a>> ELSE <<a>> \o Chain(N, N[a].next, z)
RECURSIVE ChainAll(_, _)
ChainAll(N, a) == IF a = 0 THEN <<>> ELSE <<a>> \o ChainAll(N, N[a].next)
SeqSum(f, s) == LET RECURSIVE Sm(_) Sm(k) == IF k = 0 THEN 0 ELSE f[s[k]] + Sm(k - 1) IN Sm(Len(s))

Flush(b) ==
    /\ WR(b) /\ Budget(1, 0)
    /\ LET w0 == bf[b].write
           S1 == IF nd[w0].cap > PageSize THEN (LET T == NewNode(St, 0) IN [T EXCEPT !.N = [T.N EXCEPT ![w0].next = T.nn]]) ELSE St
           w == IF nd[w0].cap > PageSize THEN S1.nn ELSE w0
           ch == Chain(S1.N, bf[b].flush, w)
           ids == {ch[k] : k \in 1 .. Len(ch)}
           delta == [i \in ids |-> IF S1.N[i].mal > S1.N[i].len THEN S1.N[i].mal - S1.N[i].len ELSE 0]
           tot == SeqSum(delta, ch)
           N2 == [i \in 1 .. MaxNode |-> IF i \in ids /\ delta[i] > 0 THEN [S1.N[i] EXCEPT !.len = S1.N[i].mal] ELSE S1.N[i]] IN
       Commit([S1 EXCEPT !.N = N2], [bf EXCEPT ![b].write = w, ![b].flush = w, ![b].msize = 0, ![b].length = @ + tot, ![b].app = 0, ![b].apd = FALSE], "Flush", b, 0, 0)
    /\ UNCHANGED owed

\* MallocAck(k): keep the first k malloc'ed bytes
RECURSIVE AckWalk(_, _, _)
AckWalk(N, w, ack) ==    \* returns <<N, write>>
    LET l == N[w].mal - N[w].len IN
    IF l >= ack THEN <<[N EXCEPT ![w].mal = ack + N[w].len], w>>
    ELSE AckWalk(N, N[w].next, ack - l)
MallocAck(b, k) ==
    /\ WR(b) /\ k <= bf[b].msize /\ bf[b].app = 0 /\ ~bf[b].apd
    /\ LET r == AckWalk(nd, bf[b].flush, k) N1 == r[1] w == r[2]
           rest == ChainAll(N1, N1[w].next)
           ids == {rest[j] : j \in 1 .. Len(rest)}
           N2 == [i \in 1 .. MaxNode |-> IF i \in ids THEN [N1[i] EXCEPT !.mal = N1[i].off, !.refer = 1, !.len = N1[i].off] ELSE N1[i]] IN
       Commit([St EXCEPT !.N = N2], [bf EXCEPT ![b].write = w, ![b].msize = k], "MallocAck", b, k, 0)
    /\ UNCHANGED owed

WriteBinary(b, n) ==
    /\ WR(b) /\ Budget(1, 1)
    /\ IF n > Inplace
       THEN LET S1 == NewNode(St, 0) id == S1.nn w == bf[b].write
                S2 == [S1 EXCEPT !.N = [S1.N EXCEPT ![w].next = id, ![id] = [@ EXCEPT !.cap = n, !.len = 0, !.mal = n]]] IN
            Commit(S2, [bf EXCEPT ![b].write = id, ![b].msize = @ + n], "WriteBinary", b, n, 0)
       ELSE LET g == Growth(St, bf[b].write, n) S == g[1] w == g[2]
                S2 == [S EXCEPT !.N = [S.N EXCEPT ![w].mal = @ + n]] IN
            Commit(S2, [bf EXCEPT ![b].write = w, ![b].msize = @ + n], "WriteBinary", b, n, 0)
    /\ UNCHANGED owed

\* WriteDirect(extra of n, remain r): the caller has malloc'ed msize bytes and inserts its own memory before the last r of them
RECURSIVE FindOrigin(_, _, _)
FindOrigin(N, o, m) ==   \* returns <<origin, malloc offset inside it>>
    LET t == N[o].mal - N[o].len IN IF t < m THEN FindOrigin(N, N[o].next, m - t) ELSE <<o, m + N[o].len>>
RECURSIVE LastOf(_, _)
LastOf(N, a) == IF N[a].next = 0 THEN a ELSE LastOf(N, N[a].next)
WriteDirect(n, r) ==
    /\ WR(1) /\ Budget(2, 0) /\ r <= bf[1].msize /\ bf[1].msize > 0 /\ bf[1].app = 0 /\ ~bf[1].apd
    /\ (r > 0 => WithWriteDirect)
    /\ LET fo == FindOrigin(nd, bf[1].flush, bf[1].msize - r) o == fo[1] m == fo[2]
           S1 == NewNode(St, 0) dn == S1.nn
           S2 == [S1 EXCEPT !.N = [S1.N EXCEPT ![dn] = [@ EXCEPT !.cap = n, !.len = 0, !.mal = n]]] IN
       IF r > 0
       THEN LET S3 == NewNode(S2, 0) ne == S3.nn
                N4 == [S3.N EXCEPT ![ne] = [@ EXCEPT !.off = m, !.len = m, !.cap = S3.N[o].cap, !.mal = S3.N[o].mal, !.unm = S3.N[o].unm, !.blk = S3.N[o].blk, !.next = S3.N[o].next],
                                   ![o] = [@ EXCEPT !.mal = m, !.unm = TRUE, !.next = dn],
                                   ![dn] = [@ EXCEPT !.next = ne]] IN
            Commit([S3 EXCEPT !.N = N4], [bf EXCEPT ![1].write = LastOf(N4, bf[1].write), ![1].msize = @ + n], "WriteDirect", 1, n, r)
       ELSE LET N4 == [S2.N EXCEPT ![dn] = [@ EXCEPT !.next = S2.N[o].next], ![o] = [@ EXCEPT !.next = dn]] IN
            Commit([S2 EXCEPT !.N = N4], [bf EXCEPT ![1].write = LastOf(N4, bf[1].write), ![1].msize = @ + n], "WriteDirect", 1, n, r)
    /\ UNCHANGED owed

\* ---- reader -------------------------------------------------------------------------------------------------
\* recalLen(delta < 0): a non-empty Peek cache is retired into caches
Retire(B) == IF B.cp.len > 0 THEN [B EXCEPT !.caches = Append(@, B.cp.blk), !.cp = [blk |-> 0, len |-> 0, cap |-> 0]] ELSE B

\* isSingleNode: move read over empty nodes; returns <<read, single?>>
RECURSIVE SkipEmpty(_, _, _)
SkipEmpty(N, r, fl) == IF NLen(N, r) = 0 /\ r # fl THEN SkipEmpty(N, N[r].next, fl) ELSE r
\* the copy loop of Next / ReadBinary: consume n bytes across nodes; returns <<N, read>>
RECURSIVE Consume(_, _, _)
Consume(N, r, ack) ==
    LET l == NLen(N, r) IN
    IF l >= ack THEN <<[N EXCEPT ![r].off = @ + ack], r>>
    ELSE Consume(IF l > 0 THEN [N EXCEPT ![r].off = @ + l] ELSE N, N[r].next, ack - l)
\* Skip's loop does not touch the offsets of the nodes it leaves behind
RECURSIVE SkipWalk(_, _, _)
SkipWalk(N, r, ack) ==
    LET l == NLen(N, r) IN IF l >= ack THEN <<[N EXCEPT ![r].off = @ + ack], r>> ELSE SkipWalk(N, N[r].next, ack - l)

Next(b, n) ==
    /\ Alive(b) /\ bf[b].app = 0 /\ ~bf[b].apd /\ n <= bf[b].length /\ Budget(0, 1)
    /\ LET B0 == Retire(bf[b]) r == SkipEmpty(nd, B0.read, B0.flush) IN
       IF NLen(nd, r) >= n
       THEN /\ Commit([St EXCEPT !.N = [nd EXCEPT ![r].exp = TRUE, ![r].off = @ + n]], [bf EXCEPT ![b] = [B0 EXCEPT !.read = r, !.length = @ - n]], "Next", b, n, 1)
            /\ owed' = owed \cup {[buf |-> b, blk |-> BlkOf(nd, r)]}
       ELSE LET c == Pow2(n) kb == nb + 1 cr == Consume(nd, r, n) IN
            /\ Commit([St EXCEPT !.N = cr[1], !.nb = kb, !.K = [pool EXCEPT ![kb] = [cap |-> c, freed |-> 0]]],
                      [bf EXCEPT ![b] = [B0 EXCEPT !.read = cr[2], !.length = @ - n, !.caches = Append(@, kb)]], "Next", b, n, 2)
            /\ owed' = owed \cup {[buf |-> b, blk |-> kb]}

Peek(b, n) ==
    /\ Alive(b) /\ bf[b].app = 0 /\ ~bf[b].apd /\ n <= bf[b].length /\ Budget(0, 1)
    /\ LET B0 == bf[b] r == SkipEmpty(nd, B0.read, B0.flush) IN
       IF NLen(nd, r) >= n
       THEN /\ Commit([St EXCEPT !.N = [nd EXCEPT ![r].exp = TRUE]], [bf EXCEPT ![b].read = r], "Peek", b, n, 1)
            /\ owed' = owed \cup {[buf |-> b, blk |-> BlkOf(nd, r)]}
       ELSE LET B1 == IF B0.cp.blk # 0 /\ B0.cp.cap < n THEN [B0 EXCEPT !.caches = Append(@, B0.cp.blk), !.cp = [blk |-> 0, len |-> 0, cap |-> 0]] ELSE B0
                fresh == B1.cp.blk = 0
                kb == IF fresh THEN nb + 1 ELSE B1.cp.blk
                c == IF fresh THEN Pow2(n) ELSE B1.cp.cap
                B2 == [B1 EXCEPT !.read = r, !.cp = [blk |-> kb, len |-> IF B1.cp.len >= n /\ ~fresh THEN B1.cp.len ELSE n, cap |-> c]] IN
            /\ Commit(IF fresh THEN [St EXCEPT !.nb = kb, !.K = [pool EXCEPT ![kb] = [cap |-> c, freed |-> 0]]] ELSE St, [bf EXCEPT ![b] = B2], "Peek", b, n, 2)
            /\ owed' = owed \cup {[buf |-> b, blk |-> kb]}

Skip(b, n) ==
    /\ Alive(b) /\ bf[b].app = 0 /\ ~bf[b].apd /\ n <= bf[b].length
    /\ LET B0 == Retire(bf[b]) sw == SkipWalk(nd, B0.read, n) IN
       Commit([St EXCEPT !.N = sw[1]], [bf EXCEPT ![b] = [B0 EXCEPT !.read = sw[2], !.length = @ - n]], "Skip", b, n, 0)
    /\ UNCHANGED owed

ReadBinary(b, n) ==
    /\ Alive(b) /\ bf[b].app = 0 /\ ~bf[b].apd /\ n <= bf[b].length
    /\ LET B0 == Retire(bf[b]) r == SkipEmpty(nd, B0.read, B0.flush) cr == Consume(nd, r, n) IN
       Commit([St EXCEPT !.N = cr[1]], [bf EXCEPT ![b] = [B0 EXCEPT !.read = cr[2], !.length = @ - n]], "ReadBinary", b, n, 0)
    /\ UNCHANGED owed

\* Release(): returns the bundle and the buffer record after releasing consumed nodes, the caches and the Peek cache
RECURSIVE RelHead(_, _, _)
RelHead(S, h, r) == IF h = r \/ h = 0 THEN <<S, h>> ELSE (LET nx == S.N[h].next IN RelHead(NodeRelease(S, h), nx, r))
RECURSIVE FreeAll(_, _)
FreeAll(S, cs) == IF cs = <<>> THEN S ELSE FreeAll(FreeBlk(S, Head(cs)), Tail(cs))
RECURSIVE SkipEmptyNil(_, _, _)
SkipEmptyNil(N, r, fl) == IF r # fl /\ r # 0 /\ NLen(N, r) = 0 THEN SkipEmptyNil(N, N[r].next, fl) ELSE r
DoRelease(S, B) ==
    LET r == SkipEmptyNil(S.N, B.read, B.flush)
        rh == RelHead(S, B.head, r)
        S2 == FreeAll(rh[1], B.caches)
        S3 == IF B.cp.blk # 0 THEN FreeBlk(S2, B.cp.blk) ELSE S2 IN
    <<S3, [B EXCEPT !.read = r, !.head = rh[2], !.caches = <<>>, !.cp = [blk |-> 0, len |-> 0, cap |-> 0]]>>

Release(b) ==
    /\ Alive(b) /\ bf[b].app = 0 /\ ~bf[b].apd
    /\ LET dr == DoRelease(St, bf[b]) IN Commit(dr[1], [bf EXCEPT ![b] = dr[2]], "Release", b, 0, 0)
    /\ owed' = {o \in owed : o.buf # b}

\* Refer(n) on node i: a new unmanaged node over the next n bytes; the root of the origin chain is pinned
Refer(S, i, n) ==
    LET S1 == NewNode(S, 0) id == S1.nn root == IF S1.N[i].origin # 0 THEN S1.N[i].origin ELSE i IN
    [S1 EXCEPT !.N = [S1.N EXCEPT ![id] = [@ EXCEPT !.cap = n, !.len = n, !.mal = 0, !.origin = root], ![i].off = @ + n, ![root].refer = @ + 1]]

\* Slice(n): the loop over the nodes; returns <<S, read of b, first node of p, last node of p>>
RECURSIVE SliceWalk(_, _, _, _)
SliceWalk(S, r, ack, tail) ==
    LET l == NLen(S.N, r) IN
    IF l >= ack
    THEN LET S1 == Refer([S EXCEPT !.N = [S.N EXCEPT ![r].exp = TRUE]], r, ack) id == S1.nn IN
         <<[S1 EXCEPT !.N = [S1.N EXCEPT ![tail].next = id]], r, id>>
    ELSE IF l > 0
    THEN LET S1 == Refer([S EXCEPT !.N = [S.N EXCEPT ![r].exp = TRUE]], r, l) id == S1.nn IN
         SliceWalk([S1 EXCEPT !.N = [S1.N EXCEPT ![tail].next = id]], S1.N[r].next, ack - l, id)
    ELSE SliceWalk(S, S.N[r].next, ack, tail)

FreeBuf == CHOOSE i \in 1 .. MaxBuf : bf[i].kind = "none" /\ \A j \in 1 .. MaxBuf : bf[j].kind = "none" => i <= j
Slice(b, n) ==
    /\ Alive(b) /\ bf[b].app = 0 /\ ~bf[b].apd /\ n <= bf[b].length /\ \E i \in 1 .. MaxBuf : bf[i].kind = "none"
    /\ Budget(3, 0)
    /\ LET p == FreeBuf B0 == Retire(bf[b]) r == SkipEmpty(nd, B0.read, B0.flush) IN
       IF NLen(nd, r) >= n
       THEN LET S1 == Refer([St EXCEPT !.N = [nd EXCEPT ![r].exp = TRUE]], r, n) id == S1.nn IN
            /\ Commit(S1, [bf EXCEPT ![b] = [B0 EXCEPT !.read = r, !.length = @ - n],
                                     ![p] = [NoBuf EXCEPT !.kind = "sl", !.head = id, !.read = id, !.length = n]], "Slice", b, n, p)
            /\ UNCHANGED owed
       ELSE LET l == NLen(nd, r)
                S1 == Refer([St EXCEPT !.N = [nd EXCEPT ![r].exp = TRUE]], r, l) first == S1.nn
                sw == SliceWalk(S1, S1.N[r].next, n - l, first)
                B1 == [B0 EXCEPT !.read = sw[2], !.length = @ - n]
                dr == DoRelease(sw[1], B1) IN
            /\ Commit(dr[1], [bf EXCEPT ![b] = dr[2], ![p] = [NoBuf EXCEPT !.kind = "sl", !.head = first, !.read = first, !.length = n]], "Slice", b, n, p)
            /\ owed' = {o \in owed : o.buf # b}       \* the multi-node path ends with b.Release()

\* Close(): release everything
RECURSIVE RelChain(_, _)
RelChain(S, h) == IF h = 0 THEN S ELSE (LET nx == S.N[h].next IN RelChain(NodeRelease(S, h), nx))
Close(b) ==
    /\ WR(b)
    /\ LET dr == DoRelease(St, bf[b]) S2 == RelChain(dr[1], dr[2].head) IN
       Commit(S2, [bf EXCEPT ![b] = [NoBuf EXCEPT !.kind = "closed"]], "Close", b, 0, 0)
    /\ owed' = {o \in owed : o.buf # b}

\* NewLinkBuffer(size): one more read/write buffer
NewBuf(s) ==
    /\ WithAppend /\ Budget(1, 1) /\ \E i \in 1 .. MaxBuf : bf[i].kind = "none"
    /\ LET p == FreeBuf S1 == NewNode(St, s) id == S1.nn IN
       Commit(S1, [bf EXCEPT ![p] = [NoBuf EXCEPT !.kind = "rw", !.head = id, !.read = id, !.flush = id, !.write = id]], "NewBuf", p, s, 0)
    /\ UNCHANGED owed

\* b.WriteBuffer(d) (Append): the donor's chain from its read node to its write node is linked behind b's write node; what the donor
\* had consumed and what lies behind its write node is released; the donor is dead afterwards.
\* Contract: the two buffers do not interleave (b has nothing pending or d has nothing readable); until the next Flush only writes;
\* nothing read from the donor is still owed.
RECURSIVE RelUpTo(_, _, _)
RelUpTo(S, h, r) == IF h = r \/ h = 0 THEN S ELSE (LET nx == S.N[h].next IN RelUpTo(NodeRelease(S, h), nx, r))
WriteBuffer(b, d) ==
    /\ WithAppend /\ WR(b) /\ WR(d) /\ b # d
    /\ bf[d].length + bf[d].msize > 0
    /\ (bf[b].msize = 0 \/ bf[d].length = 0) /\ bf[d].app = 0
    /\ bf[d].caches = <<>> /\ bf[d].cp.blk = 0 /\ \A o \in owed : o.buf # d
    /\ LET D == bf[d]
           N1 == [nd EXCEPT ![bf[b].write].next = D.read]
           S1 == RelUpTo([St EXCEPT !.N = N1], D.head, D.read)
           S2 == RelChain(S1, S1.N[D.write].next)
           cut == D.length > 0 \/ ~Dev_AppendKeepsTail
           S3 == IF cut THEN [S2 EXCEPT !.N = [S2.N EXCEPT ![D.write].next = 0]] ELSE S2 IN
       Commit(S3, [bf EXCEPT ![b] = [@ EXCEPT !.write = D.write, !.length = @ + D.length, !.msize = @ + D.msize, !.app = @ + D.length, !.apd = TRUE],
                             ![d] = [NoBuf EXCEPT !.kind = "closed"]], "WriteBuffer", b, 0, d)
    /\ UNCHANGED owed

\* book(bookSize, maxSize) / bookAck(n): the poller reserves room in the write node (a new node of maxSize when it is full), the kernel
\* fills it, bookAck publishes the first n bytes at once (no Flush) and gives the rest back.  The reader side (Next .. Release) may run
\* between the two.
Min(a, c) == IF a < c THEN a ELSE c
Book(b, bs, ms) ==
    /\ WithBook /\ WR(b) /\ bf[b].msize = 0 /\ bf[b].app = 0 /\ ~bf[b].apd /\ Budget(1, 1)
    /\ LET w0 == bf[b].write
           full == nd[w0].cap - nd[w0].mal = 0
           S1 == IF full THEN (LET T == NewNode(St, ms) IN [T EXCEPT !.N = [T.N EXCEPT ![w0].next = T.nn]]) ELSE St
           w == IF full THEN S1.nn ELSE w0
           l == Min(IF full THEN ms ELSE nd[w0].cap - nd[w0].mal, bs)
           S2 == [S1 EXCEPT !.N = [S1.N EXCEPT ![w].mal = @ + l]] IN
       Commit(S2, [bf EXCEPT ![b].write = w, ![b].booked = l], "Book", b, bs, ms)
    /\ UNCHANGED owed
BookAck(b, n) ==
    /\ WithBook /\ RW(b) /\ bf[b].booked >= n
    /\ LET w == bf[b].write
           S1 == [St EXCEPT !.N = [nd EXCEPT ![w].mal = n + nd[w].len, ![w].len = n + nd[w].len]] IN
       Commit(S1, [bf EXCEPT ![b].flush = w, ![b].length = @ + n, ![b].booked = -1], "BookAck", b, n, 0)
    /\ UNCHANGED owed

Next_ ==
    \/ \E b \in 1 .. MaxBuf, bs \in {1, 2, 4}, ms \in {1, 2, 4} : Book(b, bs, ms)
    \/ \E b \in 1 .. MaxBuf, n \in 0 .. 4 : BookAck(b, n)
    \/ \E b \in 1 .. MaxBuf, n \in Sizes : Malloc(b, n) \/ WriteBinary(b, n)
    \/ \E b \in 1 .. MaxBuf : Flush(b) \/ Close(b)
    \/ \E b \in 1 .. MaxBuf, k \in 0 .. 3 : MallocAck(b, k)
    \/ \E s \in InitSizes : NewBuf(s)
    \/ \E b \in 1 .. MaxBuf, d \in 1 .. MaxBuf : WriteBuffer(b, d)
    \/ \E n \in Sizes, r \in 0 .. 2 : WriteDirect(n, r)
    \/ \E b \in 1 .. MaxBuf, n \in Sizes : Next(b, n) \/ Peek(b, n) \/ Skip(b, n) \/ ReadBinary(b, n) \/ Slice(b, n)
    \/ \E b \in 1 .. MaxBuf : Release(b)
Spec == Init /\ [][Next_]_vars
\* `last` only reports the call that led here
ViewNoLast == <<nd, nn, pool, nb, bf, owed, bad, steps>>

\* ---- properties ---------------------------------------------------------------------------------------------
\* nodes reachable from a live buffer
Reach(b) == LET c == ChainAll(nd, bf[b].head) IN {c[k] : k \in 1 .. Len(c)}
\* C03: a block is returned to the pool at most once ...
NoDoubleFree == "double_free" \notin bad /\ \A k \in 1 .. MaxBlk : pool[k].freed <= 1
\* ... and never while a node that still belongs to a buffer lives in it (unread data, room handed out by Malloc, or consumed data
\* that has not been released)
NoLiveFreed == \A b \in 1 .. MaxBuf : Alive(b) => \A i \in Reach(b) : BlkOf(nd, i) # 0 => pool[BlkOf(nd, i)].freed = 0
\* C02: what a zero-copy read handed out is valid until the reader's Release
NoEarlyFree == \A o \in owed : o.blk # 0 => pool[o.blk].freed = 0
\* C01: the words agree with the chain
Readable(b) == LET c == Chain(nd, bf[b].read, bf[b].flush) IN
               IF bf[b].kind = "sl" THEN SeqSum([i \in 1 .. MaxNode |-> NLen(nd, i)], ChainAll(nd, bf[b].read))
               ELSE SeqSum([i \in 1 .. MaxNode |-> NLen(nd, i)], c)
LengthOK == \A b \in 1 .. MaxBuf : Alive(b) => bf[b].length = Readable(b) + bf[b].app
Pending(b) == SeqSum([i \in 1 .. MaxNode |-> IF nd[i].mal > nd[i].len THEN nd[i].mal - nd[i].len ELSE 0], ChainAll(nd, bf[b].flush))
MallocOK == \A b \in 1 .. MaxBuf : RW(b) => bf[b].msize + (IF bf[b].booked > 0 THEN bf[b].booked ELSE 0) = Pending(b)
NoDeadRelease == "release_of_dead_node" \notin bad
ChainOK == \A b \in 1 .. MaxBuf : RW(b) => /\ bf[b].read \in Reach(b) /\ bf[b].flush \in Reach(b) /\ bf[b].write \in Reach(b)
                                            /\ \A i \in Reach(b) : nd[i].live
\* no node belongs to two live buffers' chains, and no chain runs into itself (ChainAll terminates: a node occurs once)
NoSharedNode == \A b1, b2 \in 1 .. MaxBuf : (RW(b1) /\ RW(b2) /\ b1 # b2) => Reach(b1) \cap Reach(b2) = {}
=============================================================================
