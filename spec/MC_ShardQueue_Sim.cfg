\* used with -simulate: TLC picks the schedule (no invariants: the behaviours are replayed on the real code)
SPECIFICATION Spec
CONSTANTS
  NShards = 2
  Adders = {"a1", "a2"}
  AddsPer = 2
  Dev_TrigBeforeRing = FALSE
  Dev_EarlyClosed = FALSE
CHECK_DEADLOCK FALSE
