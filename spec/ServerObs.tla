------------------------------ MODULE ServerObs ------------------------------
(***************************************************************************)
(* Observable specification of the server (C13): accepted connections are   *)
(* tracked until they are closed; Shutdown stops accepting, closes idle       *)
(* connections, leaves busy ones running, returns nil only when nothing is     *)
(* left (then the listener is closed), and the context's error when the        *)
(* deadline passes first.                                                    *)
(* Events: Track(fd) (the server starts tracking an accepted connection),     *)
(* ConnClosed(fd) (the connection's close callbacks ran),                      *)
(* handler start/end per fd, ShutdownCall / ShutdownRet(err), and at the       *)
(* quiescent point: Tracked(fd, active) for every entry the server still        *)
(* tracks, and whether the listener descriptor is still open.                  *)
(***************************************************************************)
EXTENDS Integers, FiniteSets

VARIABLE v  \* [live: set of accepted fds not yet closed, inHandler: set of fds, called, ret, liveAtCall, acceptAfterCall]

InitVal == [live |-> {}, inHandler |-> {}, called |-> FALSE, ret |-> "", liveAtCall |-> {}, acceptAfterCall |-> FALSE, busyAtCall |-> FALSE,
            closedEarly |-> {},   \* accepted descriptors whose connection was closed before the server had started to track it
            pushFd |-> -1,
            opening |-> {},
            busyAtSweep |-> {},
            openFds |-> {}]       \* descriptors of accepted connections that have not been closed yet   \* connections that were busy when the current sweep of Shutdown began       \* descriptors returned by accept whose connection the server has not started to track yet        \* the connection a server-side sender (outside any handler) is writing to

\* a connection that was closed (by its own poller) before the server stored it never becomes a live tracked connection:
\* the server drops it again at once
OpenEff(fd) == [v EXCEPT !.openFds = @ \cup {fd}, !.closedEarly = @ \ {fd}, !.opening = @ \cup {fd}, !.acceptAfterCall = (@ \/ v.called)]

AcceptEff(fd) == IF fd \in v.closedEarly THEN [v EXCEPT !.closedEarly = @ \ {fd}, !.opening = @ \ {fd}]
                 ELSE [v EXCEPT !.live = @ \cup {fd}, !.opening = @ \ {fd}, !.acceptAfterCall = (@ \/ v.called)]
\* Shutdown decides per sweep: a connection that was busy when the sweep began and still is when Shutdown closes it was not idle at
\* any moment in between (one that became busy after Shutdown had looked at it is the unavoidable check-then-close race)
SweepEff == [v EXCEPT !.busyAtSweep = v.inHandler]
FdCloseEff(fd) == [v EXCEPT !.openFds = @ \ {fd}]
\* a connection that the server starts to track after Shutdown has returned nil was alive (accepted, not closed) when it returned
AcceptViol(fd) == IF v.ret = "nil" /\ fd \notin v.closedEarly THEN {"C13.shutdown_returned_nil_with_live_connections"} ELSE {}
ClosedViol(fd, by) ==
    IF by = "shutdown" /\ fd \in v.inHandler /\ fd \in v.busyAtSweep THEN {"C13.shutdown_closed_a_busy_connection"} ELSE {}
ClosedEff(fd) == [v EXCEPT !.live = @ \ {fd}, !.inHandler = @ \ {fd}, !.busyAtSweep = @ \ {fd}, !.closedEarly = IF fd \in v.live THEN @ ELSE @ \cup {fd}]
\* (an accept in progress when Shutdown is called is something Shutdown has to wait for)
CallEff == [v EXCEPT !.called = TRUE, !.liveAtCall = v.live \cup v.opening, !.busyAtCall = (v.inHandler # {})]
RetViol(err) ==
    (IF err = "nil" /\ v.live # {} THEN {"C13.shutdown_returned_nil_with_live_connections"} ELSE {})
    \* a connection that accept has returned and whose close callbacks have not run is alive, tracked or not (the untrack callback is
    \* the first close callback by design - before the descriptor number can be reused - so "tracked" ends when the callbacks start)
    \cup (IF err = "nil" /\ (v.opening \ v.closedEarly) # {} THEN {"C13.shutdown_returned_nil_with_live_connections"} ELSE {})
    \* nothing was alive when Shutdown was called and nothing was accepted afterwards: the first sweep finds nothing to wait for
    \cup (IF err = "deadline" /\ v.liveAtCall = {} /\ ~v.acceptAfterCall THEN {"C13.shutdown_timed_out_with_nothing_to_wait_for"} ELSE {})
    \cup (IF err \notin {"nil", "deadline"} THEN {"C13.shutdown_returned_an_unexpected_error"} ELSE {})
TrackedViol(fd, active) == IF active = 0 THEN {"C13.closed_connection_still_tracked"} ELSE {}
QuiescentViol(lnOpen) == IF v.ret = "nil" /\ lnOpen = 1 THEN {"C13.listener_left_open_after_shutdown"} ELSE {}
=============================================================================
