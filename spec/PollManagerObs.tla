--------------------------- MODULE PollManagerObs ---------------------------
(* Observable rules of property C18 over API-level events of one scenario:                 *)
(*   PickRet(picker, poller, alive)   a Pick call returned poller #id; alive: its loop was   *)
(*                                    running (had not exited) at that moment                *)
(*   PhaseEnd(running, poolsize, spread) after all Picks of a phase returned and the pool    *)
(*                                    settled: loops running, pollers in the pool, max-min of  *)
(*                                    the per-poller pick counts (round-robin phases)         *)
(*   PhaseCfg(numLoops)               the size that had been configured for that phase        *)
EXTENDS Integers

PickViol(alive) == IF alive = 0 THEN {"C18.pick_returned_a_poller_whose_loop_is_not_running"} ELSE {}
PhaseViol(running, poolsize, spread, want) ==
    (IF running # want THEN {"C18.running_loops_differ_from_configured_size"} ELSE {})
    \cup (IF poolsize # want THEN {"C18.pool_size_differs_from_configured_size"} ELSE {})
    \cup (IF spread > 1 THEN {"C18.round_robin_not_even"} ELSE {})
=============================================================================
