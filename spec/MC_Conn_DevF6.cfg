CONSTANTS
  MaxTasks = 5
  MaxSend = 2
  WithOnConnect = TRUE
  WithOnDisconnect = TRUE
  HandlerCloses = FALSE
  WithCloser = FALSE
  Dev_NoConnRecheck = TRUE
  Dev_NoInputRecheck = FALSE
  Dev_HupLockTwice = FALSE
  Dev_NoHupTask = FALSE
SPECIFICATION Spec
INVARIANTS DisconnectRan
CHECK_DEADLOCK FALSE
