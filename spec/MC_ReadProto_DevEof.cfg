CONSTANTS
  MaxN = 3
  NOps = 2
  MaxSend = 4
  Dev_NoTimerDrain = FALSE
  Dev_NoEofRecheck = TRUE
  Dev_NoDoubleCheck = FALSE
SPECIFICATION Spec
INVARIANTS Results
CHECK_DEADLOCK FALSE
