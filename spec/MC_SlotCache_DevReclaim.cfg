SPECIFICATION Spec
CONSTANTS
  Conns = {"A", "B"}
  Supply = 1
  Block = 2
  MaxSend = 1
  Dev_ReclaimOnEmpty = TRUE
  Dev_LateOnHup = FALSE
  Dev_FreeAtHandlerStart = FALSE
  Dev_QueueBeforeReset = FALSE
INVARIANTS NoBad
CHECK_DEADLOCK FALSE
