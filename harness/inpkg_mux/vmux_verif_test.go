//go:build verif
// +build verif

package mux

// ShardQueue under a controlled scheduler (C17).  Every atomic operation of shard_queue.go is a
// schedule point (vp); adders, the closer and the worker tasks (spawned through the replaced runner)
// are actors.  A schedule is a list of actor names - taken from a TLC behaviour of ShardQueue.tla
// (labels a1/a2/.., w1/w2/.., closer) or chosen at random / by PCT.  The observable events (Add
// call/return, getter invocation, Flush, Close call/return) are validated by TLC against
// ShardQueueObs.tla.

import (
	"bytes"
	"context"
	"encoding/json"
	"fmt"
	"math/rand"
	"os"
	"runtime"
	"strconv"
	"sync"
	"sync/atomic"
	"testing"
	"time"
	"unsafe"

	"github.com/cloudwego/netpoll"
	"github.com/cloudwego/netpoll/internal/runner"
)

func mGID() int64 {
	var buf [64]byte
	n := runtime.Stack(buf[:], false)
	s := buf[len("goroutine "):n]
	i := bytes.IndexByte(s, ' ')
	id, _ := strconv.ParseInt(string(s[:i]), 10, 64)
	return id
}

type mGate struct {
	pt   int32
	obj  unsafe.Pointer
	a, b int64
}

type mActor struct {
	name   string
	gid    int64
	resume chan struct{}
	parked bool
	done   bool
	gate   mGate
	cond   func() bool
}

type mEvent struct {
	T   int    `json:"t"`
	E   string `json:"e"`
	G   string `json:"g"`
	K   string `json:"k"`
	N   int    `json:"n"`
	M   int    `json:"m"`
	Err string `json:"err"`
}

var mStragglers sync.WaitGroup

type mSched struct {
	mu      sync.Mutex
	actors  map[int64]*mActor
	list    []*mActor
	notify  chan *mActor
	running int32
	rnd     *rand.Rand
	plan    []string
	planPos int
	drift   int
	taken   []string
	evs     []mEvent
	stuck   string
	pct     map[string]int
	change  map[int]bool
	active  bool
	q       *ShardQueue
	proj    [][5]int32 // after every step: trigger, state, runNum, w, r (read while every actor is parked)
}

func (s *mSched) ev(e, k string, n, m int, err string) {
	g := "env"
	s.mu.Lock()
	if a := s.actors[mGID()]; a != nil {
		g = a.name
	}
	s.evs = append(s.evs, mEvent{E: e, G: g, K: k, N: n, M: m, Err: err})
	s.mu.Unlock()
}

func (s *mSched) Go(name string, fn func()) {
	a := &mActor{name: name, resume: make(chan struct{}, 1)}
	atomic.AddInt32(&s.running, 1)
	s.mu.Lock()
	s.list = append(s.list, a)
	s.mu.Unlock()
	go func() {
		a.gid = mGID()
		s.mu.Lock()
		s.actors[a.gid] = a
		s.mu.Unlock()
		defer func() {
			if x := recover(); x != nil {
				s.ev("Panic", name, 0, 0, fmt.Sprint(x))
			}
			s.mu.Lock()
			a.done = true
			delete(s.actors, a.gid)
			s.mu.Unlock()
			s.notify <- a
		}()
		s.park(a, mGate{pt: 1000})
		fn()
	}()
}

func (s *mSched) park(a *mActor, g mGate) {
	s.mu.Lock()
	a.gate, a.parked = g, true
	s.mu.Unlock()
	s.notify <- a
	<-a.resume
}

func (s *mSched) hook(pt int32, obj unsafe.Pointer, a, b int64) {
	if !s.active {
		return
	}
	s.mu.Lock()
	act := s.actors[mGID()]
	s.mu.Unlock()
	if act == nil {
		return
	}
	s.park(act, mGate{pt, obj, a, b})
}

func (s *mSched) enabled(a *mActor) bool {
	switch a.gate.pt {
	case 1001:
		return a.cond == nil || a.cond()
	case vpqShardLock, vpqShardLockSpn:
		q := (*ShardQueue)(a.gate.obj)
		return atomic.LoadInt32(&q.locks[a.gate.a]) == 0
	}
	return true
}

func (s *mSched) Run() {
	s.active = true
	verifHook = s.hook
	defer func() {
		s.active = false
		s.mu.Lock()
		for _, a := range s.list {
			if a.parked && !a.done {
				a.parked = false
				select {
				case a.resume <- struct{}{}:
				default:
				}
			}
		}
		s.mu.Unlock()
	}()
	for step := 1; ; step++ {
		deadline := time.After(10 * time.Second)
		for atomic.LoadInt32(&s.running) > 0 {
			select {
			case <-s.notify:
				atomic.AddInt32(&s.running, -1)
			case <-deadline:
				s.stuck = "an actor did not reach a schedule point"
				return
			}
		}
		if s.q != nil && step > 1 {
			s.proj = append(s.proj, [5]int32{atomic.LoadInt32(&s.q.trigger), atomic.LoadInt32(&s.q.state), atomic.LoadInt32(&s.q.runNum), s.q.w, s.q.r})
		}
		var cs []*mActor
		s.mu.Lock()
		for _, a := range s.list {
			if a.parked && !a.done && s.enabled(a) {
				cs = append(cs, a)
			}
		}
		s.mu.Unlock()
		if len(cs) == 0 {
			return
		}
		if step > 3000 {
			s.stuck = "step budget exhausted"
			return
		}
		var c *mActor
		for s.planPos < len(s.plan) && c == nil {
			want := s.plan[s.planPos]
			s.planPos++
			for _, x := range cs {
				if x.name == want {
					c = x
				}
			}
			if c == nil {
				s.drift++
				break
			}
		}
		if c == nil {
			if s.pct != nil {
				if s.change[step] {
					b := s.best(cs)
					s.pct[b.name] = -step
				}
				c = s.best(cs)
			} else {
				c = cs[s.rnd.Intn(len(cs))]
			}
		}
		s.taken = append(s.taken, c.name)
		s.mu.Lock()
		c.parked = false
		s.mu.Unlock()
		atomic.AddInt32(&s.running, 1)
		c.resume <- struct{}{}
	}
}

func (s *mSched) best(cs []*mActor) *mActor {
	b := cs[0]
	for _, c := range cs[1:] {
		if s.prio(c.name) > s.prio(b.name) {
			b = c
		}
	}
	return b
}

func (s *mSched) prio(n string) int {
	if p, ok := s.pct[n]; ok {
		return p
	}
	p := 1000 + s.rnd.Intn(1000)
	s.pct[n] = p
	return p
}

// ---- connection double ---------------------------------------------------------

type mWriter struct {
	netpoll.Writer
	s        *mSched
	appended int
	flushed  int
}

func (w *mWriter) Append(b netpoll.Writer) error {
	w.appended++
	return nil
}

func (w *mWriter) Flush() error {
	w.flushed = w.appended
	w.s.ev("Flush", "", w.flushed, 0, "")
	return nil
}

type mConn struct {
	netpoll.Connection
	w *mWriter
}

func (c *mConn) IsActive() bool         { return true }
func (c *mConn) Writer() netpoll.Writer { return c.w }
func (c *mConn) Close() error           { return nil }

type mScenario struct {
	ID       string   `json:"id"`
	Seed     int64    `json:"seed"`
	Strategy string   `json:"strategy"`
	Plan     []string `json:"plan"`
	Shards   int      `json:"shards"`
	Adders   int      `json:"adders"`
	AddsPer  int      `json:"addsper"`
	Close    bool     `json:"close"`
	LateAdd  bool     `json:"lateadd"` // one more Add after Close has returned
	NilMod   int      `json:"nilmod"`  // > 0: getters whose id is a multiple of it report "nothing to write"
}

func mRun(sc *mScenario) ([]mEvent, map[string]interface{}) {
	s := &mSched{actors: map[int64]*mActor{}, notify: make(chan *mActor, 64), rnd: rand.New(rand.NewSource(sc.Seed)), plan: sc.Plan}
	if sc.Strategy == "pct" {
		s.pct, s.change = map[string]int{}, map[int]bool{}
		for i := 0; i < 3; i++ {
			s.change[1+s.rnd.Intn(60)] = true
		}
	}
	old := runner.RunTask
	defer func() { runner.RunTask = old; verifHook = nil }()
	wn := 0
	var ended int32
	runner.RunTask = func(ctx context.Context, f func()) {
		if atomic.LoadInt32(&ended) == 1 {
			// a straggler of a finished scenario: not an actor of the next one
			mStragglers.Add(1)
			go func() { defer mStragglers.Done(); f() }()
			return
		}
		wn++
		s.Go(fmt.Sprintf("w%d", wn), f)
	}
	conn := &mConn{w: &mWriter{s: s}}
	q := NewShardQueue(sc.Shards, conn)
	s.q = q
	s.ev("Init", "", sc.Shards, 0, "")
	closeRet := int32(0)
	for a := 1; a <= sc.Adders; a++ {
		a := a
		s.Go(fmt.Sprintf("a%d", a), func() {
			for k := 1; k <= sc.AddsPer; k++ {
				id := a*10 + k
				s.ev("AddCall", "", id, 0, "")
				if sc.NilMod > 0 && id%sc.NilMod == 0 {
					// a getter with nothing to write (isNil): invoked, but nothing is appended
					q.Add(func() (netpoll.Writer, bool) {
						s.ev("RunNil", "", id, 0, "")
						return nil, true
					})
				} else {
					q.Add(func() (netpoll.Writer, bool) {
						s.ev("Run", "", id, 0, "")
						return netpoll.NewLinkBuffer(), false
					})
				}
				s.ev("AddRet", "", id, 0, "")
			}
		})
	}
	if sc.Close {
		s.Go("closer", func() {
			s.ev("CloseCall", "", 0, 0, "")
			err := q.Close()
			e := "nil"
			if err != nil {
				e = "err"
			}
			s.ev("CloseRet", "", 0, 0, e)
			atomic.StoreInt32(&closeRet, 1)
		})
		if sc.LateAdd {
			// an Add made after Close has returned must be ignored
			s.Go("late", func() {
				s.mu.Lock()
				me := s.actors[mGID()]
				s.mu.Unlock()
				me.cond = func() bool { return atomic.LoadInt32(&closeRet) == 1 }
				s.park(me, mGate{pt: 1001})
				s.ev("AddCall", "", 999, 0, "")
				q.Add(func() (netpoll.Writer, bool) {
					s.ev("Run", "", 999, 0, "")
					return netpoll.NewLinkBuffer(), false
				})
				s.ev("AddRet", "", 999, 0, "")
			})
		}
	}
	s.Run()
	blocked := 0
	s.mu.Lock()
	for _, a := range s.list {
		if !a.done {
			blocked++
		}
	}
	s.mu.Unlock()
	s.ev("Quiescent", "", blocked, 0, s.stuck)
	// every goroutine of this scenario (released by Run) ends before the next scenario starts
	atomic.StoreInt32(&ended, 1)
	for i := 0; i < 2000; i++ {
		left := 0
		s.mu.Lock()
		for _, a := range s.list {
			if !a.done {
				left++
			}
		}
		s.mu.Unlock()
		if left == 0 {
			break
		}
		time.Sleep(time.Millisecond)
	}
	wdone := make(chan struct{})
	go func() { mStragglers.Wait(); close(wdone) }()
	select {
	case <-wdone:
	case <-time.After(2 * time.Second):
	}
	return s.evs, map[string]interface{}{"id": sc.ID, "taken": s.taken, "steps": len(s.taken), "drift": s.drift, "stuck": s.stuck, "proj": s.proj}
}

func TestVerifShardQueue(t *testing.T) {
	in, outp := os.Getenv("VERIF_IN"), os.Getenv("VERIF_OUT")
	if in == "" || outp == "" {
		t.Skip("VERIF_IN/VERIF_OUT not set")
	}
	raw, err := os.ReadFile(in)
	if err != nil {
		t.Fatal(err)
	}
	var wo struct {
		Scenarios []mScenario `json:"scenarios"`
	}
	if err := json.Unmarshal(raw, &wo); err != nil {
		t.Fatal(err)
	}
	f, err := os.Create(outp)
	if err != nil {
		t.Fatal(err)
	}
	defer f.Close()
	enc := json.NewEncoder(f)
	for i := range wo.Scenarios {
		evs, info := mRun(&wo.Scenarios[i])
		enc.Encode(map[string]interface{}{"scenario": wo.Scenarios[i].ID, "info": info, "events": evs})
	}
}

// free-running ShardQueue runs for the race detector (C19): concurrent adders and a closer on real threads
type mFreeWriter struct {
	netpoll.Writer
	mu sync.Mutex
	n  int
}

func (w *mFreeWriter) Append(b netpoll.Writer) error { w.mu.Lock(); w.n++; w.mu.Unlock(); return nil }
func (w *mFreeWriter) Flush() error                  { return nil }

type mFreeConn struct {
	netpoll.Connection
	w *mFreeWriter
}

func (c *mFreeConn) IsActive() bool         { return true }
func (c *mFreeConn) Writer() netpoll.Writer { return c.w }
func (c *mFreeConn) Close() error           { return nil }

func TestVerifShardQueueFree(t *testing.T) {
	if os.Getenv("VERIF_OUT") == "" {
		t.Skip("VERIF_OUT not set")
	}
	rounds := 300
	for r := 0; r < rounds; r++ {
		q := NewShardQueue(1+r%4, &mFreeConn{w: &mFreeWriter{}})
		var wg sync.WaitGroup
		for a := 0; a < 4; a++ {
			wg.Add(1)
			go func() {
				defer wg.Done()
				for k := 0; k < 5; k++ {
					q.Add(func() (netpoll.Writer, bool) { return netpoll.NewLinkBuffer(), false })
				}
			}()
		}
		wg.Add(1)
		go func() { defer wg.Done(); time.Sleep(time.Duration(r%50) * time.Microsecond); q.Close() }()
		wg.Wait()
	}
	os.WriteFile(os.Getenv("VERIF_OUT"), []byte(fmt.Sprintf("{\"rounds\": %d}\n", rounds)), 0644)
}
