//go:build verif
// +build verif

package netpoll

// The poller pool under the controlled scheduler (C18): concurrent Pick calls (incl. the lazily
// initialising first ones) on a private manager with real pollers; SetNumLoops / SetLoadBalance are
// applied between phases.  Schedules come from TLC behaviours of PollManager.tla or are random.

import (
	"encoding/json"
	"fmt"
	"os"
	"sync"
	"sync/atomic"
	"testing"
	"time"
	"unsafe"
)

type vPmPhase struct {
	NumLoops int      `json:"numloops"`
	LB       string   `json:"lb"` // "" (unchanged) | "rr" | "random"
	Plan     []string `json:"plan"`
}

type vPmScenario struct {
	ID       string     `json:"id"`
	Seed     int64      `json:"seed"`
	Strategy string     `json:"strategy"`
	Pickers  int        `json:"pickers"`
	PicksPer int        `json:"picksper"`
	Phases   []vPmPhase `json:"phases"`
}

func vRunPmScenario(sc *vPmScenario) ([]vOutEvent, map[string]interface{}) {
	var mu sync.Mutex
	var out []vOutEvent
	ev := func(e, k string, n, m int, err string) {
		mu.Lock()
		out = append(out, vOutEvent{E: e, K: k, N: n, M: m, Err: err})
		mu.Unlock()
	}
	var opened, exited int32
	exitedSet := sync.Map{}
	mine := sync.Map{}
	ids := map[Poll]int{}
	idOf := func(p Poll) int {
		mu.Lock()
		defer mu.Unlock()
		if _, ok := ids[p]; !ok {
			ids[p] = len(ids) + 1
		}
		return ids[p]
	}
	m := new(manager)
	m.SetLoadBalance(RoundRobin)
	m.SetNumLoops(sc.Phases[0].NumLoops)
	var taken []string
	var projAll [][]int32
	drift := 0
	stuck := ""
	ev("Init", "", sc.Pickers, sc.PicksPer, "")
	rrByPhase := "rr"
	for pi, ph := range sc.Phases {
		if pi > 0 {
			m.SetNumLoops(ph.NumLoops)
		}
		switch ph.LB {
		case "rr":
			m.SetLoadBalance(RoundRobin)
			rrByPhase = "rr"
		case "random":
			m.SetLoadBalance(Random)
			rrByPhase = "random"
		}
		s := vNewSched(sc.Seed + int64(pi))
		if sc.Strategy == "pct" {
			s.UsePCT(3, 40)
		}
		s.plan = ph.Plan
		base := s.hook
		hook := func(pt int32, obj unsafe.Pointer, a, b int64) {
			switch pt {
			case vpFdOpen:
				if b == 7 {
					atomic.AddInt32(&opened, 1)
				}
				return
			case vpPollExit:
				// only loops of this scenario's manager count (a loop of an earlier scenario may exit late)
				if _, ok := mine.Load((*defaultPoll)(obj)); ok {
					atomic.AddInt32(&exited, 1)
					exitedSet.Store((*defaultPoll)(obj), true)
				}
				return
			case vpPollStart:
				mine.Store((*defaultPoll)(obj), true)
				return
			case vpFdClose:
				return
			}
			// only the pool's own schedule points are scheduling points here (opening a poller passes operator points too)
			if pt != vpPmStatus && pt != vpPmRun && pt < 1000 {
				return
			}
			base(pt, obj, a, b)
		}
		counts := map[int]int{}
		for k := 1; k <= sc.Pickers && sc.Strategy != "free"; k++ {
			name := fmt.Sprintf("p%d", k)
			s.Go(name, func() {
				defer func() {
					if x := recover(); x != nil {
						ev("Panic", name, 0, 0, fmt.Sprint(x))
					}
				}()
				for j := 0; j < sc.PicksPer; j++ {
					p := m.Pick()
					alive := 1
					if dp, ok := p.(*defaultPoll); ok {
						if _, gone := exitedSet.Load(dp); gone {
							alive = 0
						}
					}
					id := idOf(p)
					mu.Lock()
					counts[id]++
					mu.Unlock()
					ev("PickRet", name, id, alive, "")
				}
			})
		}
		if sc.Strategy == "free" {
			// free-running: the Picks race on real threads (no scheduler); the hook only counts loops
			verifHook = hook
			var wg sync.WaitGroup
			start := make(chan struct{})
			var ready int32 // spin barrier: the racing Picks start within nanoseconds of each other
			for k := 1; k <= sc.Pickers; k++ {
				name := fmt.Sprintf("p%d", k)
				wg.Add(1)
				go func() {
					defer wg.Done()
					defer func() {
						if x := recover(); x != nil {
							ev("Panic", name, 0, 0, fmt.Sprint(x))
						}
					}()
					<-start
					atomic.AddInt32(&ready, 1)
					for spin := 0; atomic.LoadInt32(&ready) < int32(sc.Pickers) && spin < 5000000; spin++ {
					}
					for j := 0; j < sc.PicksPer; j++ {
						p := m.Pick()
						alive := 1
						if dp, ok := p.(*defaultPoll); ok {
							if _, gone := exitedSet.Load(dp); gone {
								alive = 0
							}
						}
						id := idOf(p)
						mu.Lock()
						counts[id]++
						mu.Unlock()
						ev("PickRet", name, id, alive, "")
					}
				}()
			}
			close(start)
			wg.Wait()
			s.list = nil
		} else {
			// Run with our hook wrapper: vSched.Run installs s.hook itself, so wrap after it starts
			s.wrapHook = hook
			s.projFn = func() []int32 {
				return []int32{atomic.LoadInt32(&m.status), int32(len(m.polls)), atomic.LoadInt32(&m.numLoops)}
			}
			s.Run()
		}
		verifHook = hook // keep counting loop exits while we wait for the pool to settle
		taken = append(taken, s.taken...)
		taken = append(taken, "|")
		projAll = append(projAll, s.projLog...)
		projAll = append(projAll, []int32{-1})
		drift += s.drift
		if s.stuck != "" || s.deadlock {
			stuck = s.stuck + fmt.Sprint(s.deadlock)
		}
		for _, p := range m.polls {
			if dp, ok := p.(*defaultPoll); ok {
				mine.Store(dp, true)
			}
		}
		// settle: surplus loops exit asynchronously
		want := ph.NumLoops
		running := 0
		for i := 0; i < 500; i++ {
			running = int(atomic.LoadInt32(&opened) - atomic.LoadInt32(&exited))
			if running == want {
				break
			}
			time.Sleep(2 * time.Millisecond)
		}
		max, min := 0, 1<<30
		for _, p := range m.polls {
			c := counts[idOf(p)]
			if c > max {
				max = c
			}
			if c < min {
				min = c
			}
		}
		if len(m.polls) == 0 {
			min = 0
		}
		spread := max - min
		if rrByPhase != "rr" {
			spread = 0
		}
		ev("PhaseEnd", "", running, len(m.polls), fmt.Sprintf("%d", spread))
		ev("PhaseCfg", "", want, 0, "")
	}
	m.Close()
	for i := 0; i < 500 && atomic.LoadInt32(&exited) < atomic.LoadInt32(&opened); i++ {
		time.Sleep(2 * time.Millisecond)
	}
	verifHook = nil
	ev("Quiescent", "", 0, 0, stuck)
	return out, map[string]interface{}{"id": sc.ID, "taken": taken, "drift": drift, "stuck": stuck, "proj": projAll}
}

func TestVerifPollManager(t *testing.T) {
	in, outp := os.Getenv("VERIF_IN"), os.Getenv("VERIF_OUT")
	if in == "" || outp == "" {
		t.Skip("VERIF_IN/VERIF_OUT not set")
	}
	raw, err := os.ReadFile(in)
	if err != nil {
		t.Fatal(err)
	}
	var wo struct {
		Scenarios []vPmScenario `json:"scenarios"`
	}
	if err := json.Unmarshal(raw, &wo); err != nil {
		t.Fatal(err)
	}
	f, err := os.Create(outp)
	if err != nil {
		t.Fatal(err)
	}
	defer f.Close()
	enc := json.NewEncoder(f)
	for i := range wo.Scenarios {
		evs, info := vRunPmScenario(&wo.Scenarios[i])
		enc.Encode(map[string]interface{}{"scenario": wo.Scenarios[i].ID, "info": info, "events": evs})
	}
}
