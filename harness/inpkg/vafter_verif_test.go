//go:build verif
// +build verif

package netpoll

// Executes the cells of AfterClose.tla on real connections (socketpair, manual poller pumped by the
// test goroutine, no controlled scheduler): close the connection in the cell's mode, wait until the
// close has completed, call the method under recover and a watchdog, record the outcome.

import (
	"context"
	"encoding/json"
	"errors"
	"fmt"
	"os"
	"syscall"
	"testing"
	"time"
)

type vCell struct {
	T      int    `json:"t"`
	Method string `json:"method"`
	Mode   string `json:"mode"`
	InBuf  int    `json:"inbuf"`
	Need   string `json:"need"`
	Rep    string `json:"rep"`
	Hist   string `json:"hist"`
	// results
	Have      int    `json:"have"`
	N         int    `json:"n"`
	Out       string `json:"out"`
	Bystander string `json:"bystander"`
	CbRuns    int    `json:"cbruns"`
	Detail    string `json:"detail"`
}

func vOutcome(err error) string {
	switch {
	case err == nil:
		return "ok"
	case errors.Is(err, ErrEOF) && errors.Is(err, ErrConnClosed):
		return "eof_closed"
	case errors.Is(err, ErrConnClosed):
		return "closed"
	}
	return "other:" + err.Error()
}

type vAfterEnv struct {
	mp    *vManualPoll
	extra []vCell // records of the earlier repetitions of the current cell
}

func (e *vAfterEnv) pump() {
	for i := 0; i < 50; i++ {
		if !e.mp.ready() {
			return
		}
		e.mp.step()
	}
}

func (e *vAfterEnv) pumpUntil(cond func() bool) bool {
	for i := 0; i < 4000; i++ {
		e.pump()
		if cond() {
			return true
		}
		time.Sleep(100 * time.Microsecond)
	}
	return false
}

func vNewPairConn(opts *options) (*connection, int, error) {
	fds, err := syscall.Socketpair(syscall.AF_UNIX, syscall.SOCK_STREAM, 0)
	if err != nil {
		return nil, 0, err
	}
	c := &connection{}
	nfd := &netFD{fd: fds[0], network: "unix", localAddr: &UnixAddr{}, remoteAddr: &UnixAddr{}}
	if err := c.init(nfd, opts); err != nil {
		syscall.Close(fds[1])
		return nil, 0, err
	}
	c.onConnect()
	return c, fds[1], nil
}

func (e *vAfterEnv) runCell(cell *vCell) {
	cbRuns := 0
	withCb := cell.Mode == "user_cb" || cell.Mode == "peer_cb"
	opts := &options{}
	connected := make(chan struct{}, 1)
	if withCb {
		// an OnConnect callback is enough to make netpoll own the teardown; it leaves the input unread
		opts.onConnect = func(ctx context.Context, c Connection) context.Context {
			connected <- struct{}{}
			return ctx
		}
	}
	opts.onPrepare = func(c Connection) context.Context {
		c.AddCloseCallback(func(Connection) error { cbRuns++; return nil })
		return context.Background()
	}
	c, peer, err := vNewPairConn(opts)
	if err != nil {
		cell.Out, cell.Detail = "setup", err.Error()
		return
	}
	peerOpen := true
	defer func() {
		if peerOpen {
			syscall.Close(peer)
		}
	}()
	if withCb {
		select {
		case <-connected:
		case <-time.After(2 * time.Second):
			cell.Out, cell.Detail = "setup", "OnConnect did not run"
			return
		}
	}
	if cell.InBuf > 0 {
		buf := make([]byte, cell.InBuf)
		for i := range buf {
			buf[i] = byte('a' + i)
		}
		syscall.Write(peer, buf)
		if !e.pumpUntil(func() bool { return c.inputBuffer.Len() == cell.InBuf }) {
			cell.Out, cell.Detail = "setup", "input did not arrive"
			return
		}
	}
	if cell.Hist == "timedout" {
		// a read timeout is configured and one read has already timed out before the close
		c.SetReadTimeout(2 * time.Millisecond)
		if _, err := c.Next(cell.InBuf + 1); !errors.Is(err, ErrReadTimeout) {
			cell.Out, cell.Detail = "setup", fmt.Sprintf("expected a read timeout, got %v", err)
			return
		}
	}
	// close in the cell's mode and wait until the close has completed
	switch cell.Mode {
	case "user", "user_cb":
		c.Close()
	case "detach":
		c.Detach()
		defer syscall.Close(c.fd)
	case "peer", "peer_cb", "peer_user":
		syscall.Close(peer)
		peerOpen = false
		if !e.pumpUntil(func() bool { return !c.IsActive() }) {
			cell.Out, cell.Detail = "setup", "hang-up not seen"
			return
		}
		if cell.Mode == "peer_cb" {
			if !e.pumpUntil(func() bool { return cbRuns > 0 }) {
				cell.Out, cell.Detail = "setup", "teardown did not run"
				return
			}
		} else {
			time.Sleep(2 * time.Millisecond) // let the hang-up goroutine finish
		}
		if cell.Mode == "peer_user" {
			c.Close()
		}
	}
	if cell.Mode != "peer" && cbRuns != 1 {
		cell.Out, cell.Detail = "setup", fmt.Sprintf("close callbacks ran %d times during the close", cbRuns)
		return
	}
	// a bystander connection that takes over the poller slot
	var by *connection
	var byPeer int
	byGot := make(chan int, 8)
	if cell.Rep == "reuse" {
		e.mp.p.Trigger()
		e.pump() // end of a poller batch: freed slots become allocatable
		bo := &options{onRequest: func(ctx context.Context, conn Connection) error {
			n := conn.Reader().Len()
			conn.Reader().Skip(n)
			conn.Reader().Release()
			byGot <- n
			return nil
		}}
		by, byPeer, err = vNewPairConn(bo)
		if err != nil {
			cell.Out, cell.Detail = "setup", "bystander: "+err.Error()
			return
		}
		defer syscall.Close(byPeer)
	}
	have := 0
	func() {
		defer func() { recover() }()
		have = c.Reader().Len()
	}()
	cell.Have = have
	n := have
	if cell.Need == "gt" {
		n = have + 1
	}
	if cell.Need == "le" && n > 2 {
		n = 2
	}
	if cell.Method == "ReadByte" {
		n = 1
	}
	if cell.Method == "Until" {
		n = have + 1
	}
	if n == 0 && (cell.Method == "Read" || cell.Method == "Slice") {
		n = 0
	}
	cell.N = n
	reps := 1
	if cell.Rep == "thrice" {
		reps = 3
	}
	for i := 0; i < reps; i++ {
		if i > 0 {
			// every repetition is judged on its own: what is buffered now, what it needs now
			e.extra = append(e.extra, *cell)
			func() {
				defer func() { recover() }()
				have = c.Reader().Len()
			}()
			cell.Have = have
			if cell.Need == "gt" || cell.Method == "Until" {
				n = have + 1
			} else if n > have {
				n = have
			}
			if cell.Method == "ReadByte" {
				n = 1
			}
			cell.N = n
		}
		res := make(chan string, 1)
		go func() {
			defer func() {
				if x := recover(); x != nil {
					cell.Detail = fmt.Sprint(x)
					res <- "panic"
				}
			}()
			res <- vCallMethod(c, cell.Method, n)
		}()
		select {
		case cell.Out = <-res:
		case <-time.After(2 * time.Second):
			cell.Out = "blocked"
		}
		if cell.Out == "panic" || cell.Out == "blocked" {
			break
		}
	}
	cell.CbRuns = cbRuns
	if cell.Mode == "peer" {
		cell.CbRuns = 0
	}
	cell.Bystander = "none"
	if by != nil {
		// the bystander must still get its data and close cleanly
		syscall.Write(byPeer, []byte("xyz"))
		ok := e.pumpUntil(func() bool {
			select {
			case n := <-byGot:
				return n > 0
			default:
				return false
			}
		})
		cell.Bystander = "ok"
		if !ok {
			cell.Bystander = "starved"
		}
		done := make(chan error, 1)
		go func() {
			defer func() {
				if x := recover(); x != nil {
					done <- fmt.Errorf("panic %v", x)
				}
			}()
			done <- by.Close()
		}()
		select {
		case err := <-done:
			if err != nil {
				cell.Bystander = "closefail"
			}
		case <-time.After(2 * time.Second):
			cell.Bystander = "closeblocked"
		}
	}
	if cell.Mode == "peer" {
		c.Close()
	}
}

func vCallMethod(c *connection, m string, n int) string {
	switch m {
	case "Next":
		p, err := c.Next(n)
		return vReadOutcome(p, n, err)
	case "Peek":
		p, err := c.Peek(n)
		return vReadOutcome(p, n, err)
	case "Skip":
		return vOutcome(c.Skip(n))
	case "ReadString":
		s, err := c.ReadString(n)
		return vReadOutcome([]byte(s), n, err)
	case "ReadBinary":
		p, err := c.ReadBinary(n)
		return vReadOutcome(p, n, err)
	case "ReadByte":
		_, err := c.ReadByte()
		return vOutcome(err)
	case "Slice":
		r, err := c.Slice(n)
		if err == nil && r.Len() != n {
			return "other:slice length"
		}
		return vOutcome(err)
	case "Until":
		_, err := c.Until('\n')
		return vOutcome(err)
	case "Read":
		if n == 0 {
			n = 1
		}
		p := make([]byte, n)
		k, err := c.Read(p)
		if err == nil && k == 0 {
			return "other:read returned 0, nil"
		}
		return vOutcome(err)
	case "Release":
		return vOutcome(c.Release())
	case "Len":
		_ = c.Len()
		return "ok"
	case "Malloc":
		_, err := c.Malloc(8)
		return vOutcome(err)
	case "MallocAck":
		return vOutcome(c.MallocAck(0))
	case "MallocLen":
		_ = c.MallocLen()
		return "ok"
	case "Flush":
		return vOutcome(c.Flush())
	case "WriteString":
		_, err := c.WriteString("abc")
		return vOutcome(err)
	case "WriteBinary":
		_, err := c.WriteBinary([]byte("abc"))
		return vOutcome(err)
	case "WriteByte":
		return vOutcome(c.WriteByte('x'))
	case "WriteDirect":
		return vOutcome(c.WriteDirect([]byte("abc"), 0))
	case "Append":
		lb := NewLinkBuffer()
		lb.WriteString("abc")
		return vOutcome(c.Append(lb))
	case "Write":
		_, err := c.Write([]byte("abc"))
		return vOutcome(err)
	case "Close":
		return vOutcome(c.Close())
	case "Detach":
		return vOutcome(c.Detach())
	case "IsActive":
		if c.IsActive() {
			return "true"
		}
		return "false"
	case "AddCloseCallback":
		return vOutcome(c.AddCloseCallback(func(Connection) error { return nil }))
	case "SetReadTimeout":
		return vOutcome(c.SetReadTimeout(time.Millisecond))
	case "RemoteAddr":
		_ = c.RemoteAddr()
		_ = c.LocalAddr()
		return "ok"
	}
	return "other:unknown method"
}

func vReadOutcome(p []byte, n int, err error) string {
	if err != nil {
		return vOutcome(err)
	}
	if len(p) != n {
		return fmt.Sprintf("other:got %d bytes want %d", len(p), n)
	}
	for i := range p {
		if p[i] < 'a' || p[i] > 'e' {
			return "other:wrong bytes"
		}
	}
	return "ok"
}

func TestVerifAfterClose(t *testing.T) {
	in, outp := os.Getenv("VERIF_IN"), os.Getenv("VERIF_OUT")
	if in == "" || outp == "" {
		t.Skip("VERIF_IN/VERIF_OUT not set")
	}
	raw, err := os.ReadFile(in)
	if err != nil {
		t.Fatal(err)
	}
	var wo struct {
		Cells []vCell `json:"cells"`
	}
	if err := json.Unmarshal(raw, &wo); err != nil {
		t.Fatal(err)
	}
	f, err := os.Create(outp)
	if err != nil {
		t.Fatal(err)
	}
	defer f.Close()
	enc := json.NewEncoder(f)
	s := vNewSched(1) // not run: only provides the manual poller's plumbing
	mp := vNewManualPoll(s, "poller")
	restore := vInstallPolls(mp)
	defer restore()
	e := &vAfterEnv{mp: mp}
	for i := range wo.Cells {
		e.extra = nil
		e.runCell(&wo.Cells[i])
		for k := range e.extra {
			e.extra[k].Bystander, e.extra[k].CbRuns = "none", wo.Cells[i].CbRuns
			enc.Encode(&e.extra[k])
		}
		enc.Encode(&wo.Cells[i])
	}
	mp.close()
}
