//go:build verif
// +build verif

package netpoll

// The server (C13) under the controlled scheduler: a real TCP listener registered on one manual
// poller, accepted connections on a second one, clients that connect / send / close at any moment,
// handlers of any duration, Shutdown with a deadline at any moment.  Judged by ServerObs.tla.

import (
	"context"
	"encoding/json"
	"fmt"
	"net"
	"os"
	"strings"
	"sync"
	"sync/atomic"
	"syscall"
	"testing"
	"time"

	"github.com/cloudwego/netpoll/internal/runner"
)

type vSrvScenario struct {
	StallName string            `json:"stallname"`
	StallPt   int               `json:"stallpt"`
	StallOcc  int               `json:"stallocc"`
	UntilName string            `json:"untilname"`
	UntilPt   int               `json:"untilpt"`
	UntilOcc  int               `json:"untilocc"`
	ID        string            `json:"id"`
	Seed      int64             `json:"seed"`
	Strategy  string            `json:"strategy"`
	Plan      []string          `json:"plan"`
	Clients   [][][]interface{} `json:"clients"` // per client: ["send",n] ["close"]  (the connect is implicit and first)
	OnConnect bool              `json:"onconnect"`
	Handler   string            `json:"handler"` // "quick" | "yield" | "block" (blocks until its client closes or Shutdown returned)
	Shutdown  bool              `json:"shutdown"`
	Deadline  int               `json:"deadline"` // ms
	Pollers   int               `json:"pollers"`
	HoldSetup bool              `json:"holdsetup"` // the plan starts when every poller and the shutdown actor stand in front of their first real step; projections are logged
	ShutAfter int               `json:"shutafter"` // Shutdown is called once this many connections are tracked and idle (0: at any time)
	Pusher    bool              `json:"pusher"`    // a server-side goroutine (outside any handler) pushes a payload far above the socket buffer to the first connection
}

func vRunSrvScenario(sc *vSrvScenario) ([]vOutEvent, map[string]interface{}) {
	s := vNewSched(sc.Seed)
	s.maxSteps = 6000
	if sc.Strategy == "pct" {
		s.UsePCT(3, 120)
	}
	s.plan = sc.Plan
	s.stallName, s.stallPt, s.stallOcc = sc.StallName, int32(sc.StallPt), sc.StallOcc
	s.untilName, s.untilPt, s.untilOcc = sc.UntilName, int32(sc.UntilPt), sc.UntilOcc
	var mu sync.Mutex
	var out []vOutEvent
	ev := func(e, k string, n, m int, err string) {
		g := "env"
		if a := s.lookup(vGID()); a != nil {
			g = a.name
		}
		if g != "env" && s.dead() {
			return // released after the scheduler stopped: not part of the recorded execution
		}
		mu.Lock()
		out = append(out, vOutEvent{E: e, G: g, K: k, N: n, M: m, Err: err})
		mu.Unlock()
	}
	s.emit = ev
	np := sc.Pollers
	if np < 1 {
		np = 2
	}
	var mps []*vManualPoll
	for i := 0; i < np; i++ {
		mps = append(mps, vNewManualPoll(s, fmt.Sprintf("poller%d", i+1)))
	}
	restore := vInstallPolls(mps...)
	defer restore()
	oldRunner := runner.RunTask
	defer func() { runner.RunTask = oldRunner }()
	taskN := 0
	runner.RunTask = func(ctx context.Context, f func()) {
		taskN++
		name := fmt.Sprintf("task%d", taskN)
		s.Go(name, func() {
			defer func() {
				if x := recover(); x != nil {
					ev("Panic", name, 0, 0, fmt.Sprint(x))
				}
			}()
			f()
		})
	}
	vCur = s
	verifHook = s.hook
	defer func() { verifHook = nil }()

	ln, err := CreateListener("tcp", "127.0.0.1:0")
	if err != nil {
		return out, map[string]interface{}{"stuck": "setup: " + err.Error()}
	}
	shutdownDone := false
	clientClosed := map[int]bool{} // by server-side fd, set by the handler's wait
	opts := &options{}
	var first *connection
	opts.onPrepare = func(c Connection) context.Context {
		fd := c.(*connection).fd
		if first == nil {
			first = c.(*connection)
			if sc.Pusher {
				syscall.SetsockoptInt(fd, syscall.SOL_SOCKET, syscall.SO_SNDBUF, 4096)
			}
		}
		c.AddCloseCallback(func(Connection) error {
			ev("ConnClosed", "", fd, 0, "")
			return nil
		})
		return context.Background()
	}
	if sc.OnConnect {
		opts.onConnect = func(ctx context.Context, c Connection) context.Context {
			ev("CbStart", "connect", c.(*connection).fd, 0, "")
			ev("CbEnd", "connect", c.(*connection).fd, 0, "")
			return ctx
		}
	}
	opts.onRequest = func(ctx context.Context, c Connection) error {
		cc := c.(*connection)
		ev("CbStart", "request", cc.fd, 0, "")
		n := c.Reader().Len()
		c.Reader().Skip(n)
		c.Reader().Release()
		switch sc.Handler {
		case "yield":
			s.Yield()
			s.Yield()
		case "block":
			// a long handler: until the peer went away or the server has shut down
			s.BlockUntil(func() bool { return !cc.IsActiveRaw() || shutdownDone })
		}
		ev("CbEnd", "request", cc.fd, 0, "")
		return nil
	}
	var quitErr error
	svr := newServer(ln, opts, func(err error) { quitErr = err })
	ev("Init", "", len(sc.Clients), 0, "")
	if err := svr.Run(); err != nil {
		return out, map[string]interface{}{"stuck": "setup: " + err.Error()}
	}
	for _, mp := range mps {
		mp.start()
	}
	addr := ln.Addr().String()
	conns := make([]net.Conn, len(sc.Clients))
	for ci := range sc.Clients {
		ci := ci
		pos := -1
		s.AddEnv(fmt.Sprintf("client%d", ci+1), len(sc.Clients[ci])+1, func() bool { return pos < len(sc.Clients[ci]) }, func() {
			if pos == -1 {
				c, err := net.DialTimeout("tcp", addr, time.Second)
				if err != nil {
					ev("ClientErr", "", ci+1, 0, err.Error())
					pos = len(sc.Clients[ci])
					return
				}
				conns[ci] = c
				ev("ClientConnect", "", ci+1, 0, "")
				pos = 0
				time.Sleep(300 * time.Microsecond) // loopback: let the SYN/ACK land in the accept queue
				return
			}
			op := sc.Clients[ci][pos]
			pos++
			if conns[ci] == nil {
				return
			}
			switch op[0].(string) {
			case "send":
				conns[ci].Write(make([]byte, int(op[1].(float64))))
				ev("ClientSend", "", ci+1, int(op[1].(float64)), "")
			case "close":
				conns[ci].Close()
				conns[ci] = nil
				ev("ClientClose", "", ci+1, 0, "")
			}
			time.Sleep(300 * time.Microsecond)
		})
	}
	if sc.Pusher {
		s.Go("pusher", func() {
			defer func() {
				if x := recover(); x != nil {
					ev("Panic", "pusher", 0, 0, fmt.Sprint(x))
				}
			}()
			s.BlockUntil(func() bool {
				if first == nil {
					return false
				}
				_, ok := svr.connections.Load(first.fd)
				return ok
			})
			if first == nil || !s.active {
				return // the scenario ended before any connection was tracked
			}
			ev("PushStart", "", first.fd, 0, "")
			_, err := first.Write(make([]byte, 600000)) // the client never reads: the flush stays blocked
			ev("PushEnd", "", first.fd, 0, vErrClass(err))
		})
	}
	if sc.Shutdown {
		s.Go("shutdown", func() {
			s.Yield()
			if sc.ShutAfter > 0 {
				s.BlockUntil(func() bool {
					n := 0
					svr.connections.Range(func(key, value interface{}) bool {
						if c, ok := value.(*connection); ok && c.isIdle() {
							n++
						}
						return true
					})
					return n >= sc.ShutAfter
				})
				if !s.active {
					return
				}
			}
			ctx, cancel := context.WithTimeout(context.Background(), time.Duration(sc.Deadline)*time.Millisecond)
			defer cancel()
			ev("ShutdownCall", "", sc.Deadline, 0, "")
			t0 := time.Now()
			err := svr.Close(ctx)
			shutdownDone = true
			e := "nil"
			if err == context.DeadlineExceeded {
				e = "deadline"
			} else if err != nil {
				e = "other:" + err.Error()
			}
			ev("ShutdownRet", "", int(time.Since(t0)/time.Millisecond), 0, e)
		})
	}
	if sc.HoldSetup {
		s.holdUntil = func() bool {
			s.mu.Lock()
			defer s.mu.Unlock()
			for _, a := range s.list {
				if a.state == vStParked && (a.gate.pt == vpxStart || a.gate.pt == vpxUser) && !strings.HasPrefix(a.name, "task") && !strings.HasPrefix(a.name, "hup") {
					return false
				}
			}
			return true
		}
		s.projFn = func() []int32 {
			out := make([]int32, 10)
			c := first
			if c != nil {
				out[0], out[1], out[2] = vLoad32(&c.keychain[closing]), vLoad32(&c.keychain[connecting]), vLoad32(&c.keychain[processing])
				out[3] = atomic.LoadInt32(&c.state)
				if c.inputBuffer != nil {
					out[4] = int32(atomic.LoadInt64(&c.inputBuffer.length))
				}
				if c.operator != nil {
					out[5], out[6] = atomic.LoadInt32(&c.operator.state), atomic.LoadInt32(&c.operator.detached)
				}
				if _, ok := svr.connections.Load(c.fd); ok {
					out[7] = 1
				}
				out[9] = atomic.LoadInt32(&c.closeCallbackRun)
			}
			out[8] = atomic.LoadInt32(&svr.accepting)
			return out
		}
	}
	s.Run()
	_ = clientClosed
	_ = quitErr
	// what the server still tracks (only a run that reached a quiescent point is judged at its end: after a scheduler that gave up,
	// the released goroutines are still tearing things down)
	svr.connections.Range(func(key, value interface{}) bool {
		if s.stuck != "" {
			return false
		}
		c := value.(*connection)
		act := 0
		if c.IsActiveRaw() {
			act = 1
		}
		ev("Tracked", "", key.(int), act, "")
		return true
	})
	lnOpen := 0
	if vFdIsOpen(ln.Fd()) {
		lnOpen = 1
	}
	st := s.stuck
	ev("Quiescent", "", lnOpen, 0, st)
	info := map[string]interface{}{"id": sc.ID, "hold": s.holdSteps, "proj": s.projLog, "taken": s.taken, "gates": s.gateLog, "stalled": s.stalled, "steps": len(s.taken), "stuck": st, "deadlock": s.deadlock, "drift": s.drift}
	// cleanup outside the scheduler
	for _, c := range conns {
		if c != nil {
			c.Close()
		}
	}
	if !sc.Shutdown {
		svr.operator.Control(PollDetach)
		ln.Close()
	}
	svr.connections.Range(func(key, value interface{}) bool {
		func() { defer func() { recover() }(); value.(*connection).Close() }()
		return true
	})
	for _, mp := range mps {
		mp.close()
	}
	return out, info
}

// IsActiveRaw reads the closing word without passing a schedule point
func (c *connection) IsActiveRaw() bool { return vLoad32(&c.keychain[closing]) == 0 }

func TestVerifServerScenarios(t *testing.T) {
	in, outp := os.Getenv("VERIF_IN"), os.Getenv("VERIF_OUT")
	if in == "" || outp == "" {
		t.Skip("VERIF_IN/VERIF_OUT not set")
	}
	raw, err := os.ReadFile(in)
	if err != nil {
		t.Fatal(err)
	}
	var wo struct {
		Scenarios []vSrvScenario `json:"scenarios"`
	}
	if err := json.Unmarshal(raw, &wo); err != nil {
		t.Fatal(err)
	}
	f, err := os.Create(outp)
	if err != nil {
		t.Fatal(err)
	}
	defer f.Close()
	enc := json.NewEncoder(f)
	for i := range wo.Scenarios {
		evs, info := vRunSrvScenario(&wo.Scenarios[i])
		enc.Encode(map[string]interface{}{"scenario": wo.Scenarios[i].ID, "info": info, "events": evs})
	}
	_ = syscall.EBADF
}

// TestVerifServerEMFILE: descriptor exhaustion while a client waits in the accept queue (C13: "under descriptor
// exhaustion accepting resumes once descriptors are available again").  Runs in a process of its own (it lowers
// RLIMIT_NOFILE).  VERIF_OUT receives the events for ServerObs: Exhausted(ms), ResumeCheck(ok queued client, ok new client).
func TestVerifServerEMFILE(t *testing.T) {
	outp := os.Getenv("VERIF_OUT")
	if outp == "" || os.Getenv("VERIF_EMFILE") == "" {
		t.Skip("VERIF_OUT/VERIF_EMFILE not set")
	}
	hold := 2600 * time.Millisecond
	if v := os.Getenv("VERIF_EMFILE"); v == "short" {
		hold = 300 * time.Millisecond
	}
	var evs []vOutEvent
	emit := func(e string, n, m int, err string) {
		evs = append(evs, vOutEvent{E: e, G: "env", N: n, M: m, Err: err})
	}
	defer func() {
		f, _ := os.Create(outp)
		json.NewEncoder(f).Encode(map[string]interface{}{"scenario": "emfile-" + os.Getenv("VERIF_EMFILE"), "info": map[string]interface{}{"stuck": ""}, "events": evs})
		f.Close()
	}()
	ln, err := CreateListener("tcp", "127.0.0.1:0")
	if err != nil {
		emit("SetupErr", 0, 0, err.Error())
		return
	}
	evl, _ := NewEventLoop(func(ctx context.Context, c Connection) error {
		n := c.Reader().Len()
		p, _ := c.Reader().Next(n)
		c.Writer().WriteBinary(append([]byte(nil), p...))
		c.Reader().Release()
		return c.Writer().Flush()
	})
	go evl.Serve(ln)
	defer func() {
		ctx, cancel := context.WithTimeout(context.Background(), 500*time.Millisecond)
		evl.Shutdown(ctx)
		cancel()
	}()
	time.Sleep(20 * time.Millisecond)
	addr := ln.Addr().(*net.TCPAddr)
	// the client socket exists before the descriptors run out
	cfd, err := syscall.Socket(syscall.AF_INET, syscall.SOCK_STREAM, 0)
	if err != nil {
		emit("SetupErr", 0, 0, err.Error())
		return
	}
	defer syscall.Close(cfd)
	var lim syscall.Rlimit
	syscall.Getrlimit(syscall.RLIMIT_NOFILE, &lim)
	old := lim
	lim.Cur = 160
	syscall.Setrlimit(syscall.RLIMIT_NOFILE, &lim)
	defer syscall.Setrlimit(syscall.RLIMIT_NOFILE, &old)
	var fill []int
	for {
		fd, err := syscall.Open("/dev/null", syscall.O_RDONLY, 0)
		if err != nil {
			break
		}
		fill = append(fill, fd)
	}
	emit("Init", 1, 0, "")
	sa := &syscall.SockaddrInet4{Port: addr.Port, Addr: [4]byte{127, 0, 0, 1}}
	if err := syscall.Connect(cfd, sa); err != nil {
		emit("SetupErr", 0, 0, "connect: "+err.Error())
		return
	}
	syscall.Write(cfd, []byte("ping"))
	time.Sleep(hold)
	emit("Exhausted", int(hold/time.Millisecond), len(fill), "")
	for _, fd := range fill {
		syscall.Close(fd)
	}
	// the queued client is served
	ok1 := 0
	syscall.SetsockoptTimeval(cfd, syscall.SOL_SOCKET, syscall.SO_RCVTIMEO, &syscall.Timeval{Sec: 4})
	buf := make([]byte, 8)
	if n, _ := syscall.Read(cfd, buf); n == 4 && string(buf[:4]) == "ping" {
		ok1 = 1
	}
	// and so is a new one
	ok2 := 0
	if c2, err := net.DialTimeout("tcp", ln.Addr().String(), 2*time.Second); err == nil {
		c2.SetDeadline(time.Now().Add(3 * time.Second))
		c2.Write([]byte("pong"))
		if n, _ := c2.Read(buf); n == 4 && string(buf[:4]) == "pong" {
			ok2 = 1
		}
		c2.Close()
	}
	emit("ResumeCheck", ok1, ok2, "")
}
