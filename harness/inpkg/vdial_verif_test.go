//go:build verif
// +build verif

package netpoll

// Dials (C14). Controlled: one DialTCP as an actor against a listening / closed / never-accepting
// port, manual poller, the context's expiry is a scheduler choice ("the connect completing at any
// point relative to the timeout").  Free-running: many concurrent DialConnection calls with timeouts
// from far below to far above the connect latency, echo round trip on success, descriptor and
// poller-slot census before/after.  Judged by DialObs.tla.

import (
	"context"
	"encoding/json"
	"fmt"
	"net"
	"os"
	"os/exec"
	"strings"
	"sync"
	"sync/atomic"
	"syscall"
	"testing"
	"time"
	"unsafe"

	"github.com/cloudwego/netpoll/internal/runner"
)

type vDialScenario struct {
	ID        string   `json:"id"`
	Seed      int64    `json:"seed"`
	Strategy  string   `json:"strategy"`
	Plan      []string `json:"plan"`
	StallName string   `json:"stallname"`
	StallPt   int      `json:"stallpt"`
	StallOcc  int      `json:"stallocc"`
	UntilName string   `json:"untilname"`
	UntilPt   int      `json:"untilpt"`
	UntilOcc  int      `json:"untilocc"`
	Peer      string   `json:"peer"`   // listen | refuse | drop
	Expire    bool     `json:"expire"` // the context may expire (scheduler choice)
	Free      bool     `json:"free"`   // free-running batch instead
	Dials     int      `json:"dials"`  // free: concurrent dials
	TimeoutUs int      `json:"timeoutus"`
	Network   string   `json:"network"` // free: tcp | tcp6 | unix
	ExecChild bool     `json:"execchild"` // free: a child process is started while the dials are in flight
	Second    string   `json:"second"`  // peer multi: what the second address of the host name does: drop | listen
	Addrs     []string `json:"addrs"`   // controlled: the peers behind the addresses of the host name (1 or 2), in dial order
}

// a resolver that answers every A query with the given addresses (AAAA: none), for host names with several addresses
func vFakeResolver(ips [][4]byte) (restore func()) {
	pc, err := net.ListenPacket("udp", "127.0.0.1:0")
	if err != nil {
		return nil
	}
	go func() {
		buf := make([]byte, 1500)
		for {
			n, from, err := pc.ReadFrom(buf)
			if err != nil {
				return
			}
			q := buf[:n]
			if n < 12 {
				continue
			}
			i := 12
			for i < n && q[i] != 0 {
				i += int(q[i]) + 1
			}
			i++
			if i+4 > n {
				continue
			}
			isA := q[i] == 0 && q[i+1] == 1
			i += 4
			r := []byte{q[0], q[1], 0x81, 0x80, 0, 1, 0, 0, 0, 0, 0, 0}
			if isA {
				r[7] = byte(len(ips))
			}
			r = append(r, q[12:i]...)
			if isA {
				for _, ip := range ips {
					r = append(r, 0xc0, 0x0c, 0, 1, 0, 1, 0, 0, 0, 60, 0, 4)
					r = append(r, ip[:]...)
				}
			}
			pc.WriteTo(r, from)
		}
	}()
	old := net.DefaultResolver
	dns := pc.LocalAddr().String()
	net.DefaultResolver = &net.Resolver{PreferGo: true, Dial: func(ctx context.Context, network, _ string) (net.Conn, error) {
		var d net.Dialer
		return d.DialContext(ctx, "udp", dns)
	}}
	return func() { net.DefaultResolver = old; pc.Close() }
}

// a listener that never accepts and whose queue is full: SYNs are dropped
func vDropListener() (addr string, cleanup func()) {
	return vDropListenerAt([4]byte{127, 0, 0, 1})
}

func vDropListenerAt(ip [4]byte) (addr string, cleanup func()) {
	return vDropListenerAtPort(ip, 0)
}

func vDropListenerAtPort(ip [4]byte, port int) (addr string, cleanup func()) {
	fd, _ := syscall.Socket(syscall.AF_INET, syscall.SOCK_STREAM|syscall.SOCK_CLOEXEC, 0)
	syscall.SetsockoptInt(fd, syscall.SOL_SOCKET, syscall.SO_REUSEADDR, 1)
	if err := syscall.Bind(fd, &syscall.SockaddrInet4{Addr: ip, Port: port}); err != nil {
		syscall.Close(fd)
		return "", func() {}
	}
	syscall.Listen(fd, 0)
	sa, _ := syscall.Getsockname(fd)
	addr = fmt.Sprintf("%d.%d.%d.%d:%d", ip[0], ip[1], ip[2], ip[3], sa.(*syscall.SockaddrInet4).Port)
	var held []net.Conn
	for i := 0; i < 3; i++ {
		if c, err := net.DialTimeout("tcp", addr, 30*time.Millisecond); err == nil {
			held = append(held, c)
		}
	}
	return addr, func() {
		for _, h := range held {
			h.Close()
		}
		syscall.Close(fd)
	}
}

func vErrTimeout(err error) int {
	if ne, ok := err.(net.Error); ok && ne.Timeout() {
		return 1
	}
	return 0
}

func vRunDialControlled(sc *vDialScenario) ([]vOutEvent, map[string]interface{}) {
	s := vNewSched(sc.Seed)
	s.maxSteps = 2000
	if sc.Strategy == "pct" {
		s.UsePCT(3, 60)
	}
	s.plan = sc.Plan
	s.stallName, s.stallPt, s.stallOcc = sc.StallName, int32(sc.StallPt), sc.StallOcc
	s.untilName, s.untilPt, s.untilOcc = sc.UntilName, int32(sc.UntilPt), sc.UntilOcc
	var mu sync.Mutex
	var out []vOutEvent
	ev := func(e, k string, n, m int, err string) {
		g := "env"
		if a := s.lookup(vGID()); a != nil {
			g = a.name
		}
		if g != "env" && s.dead() {
			return // released after the scheduler stopped: not part of the recorded execution
		}
		mu.Lock()
		out = append(out, vOutEvent{E: e, G: g, K: k, N: n, M: m, Err: err})
		mu.Unlock()
	}
	s.emit = ev
	mp := vNewManualPoll(s, "poller")
	restore := vInstallPolls(mp)
	defer restore()
	oldRunner := runner.RunTask
	defer func() { runner.RunTask = oldRunner }()
	runner.RunTask = func(ctx context.Context, f func()) { s.Go("task", f) }
	vCur = s

	// the peers: one per address of the target (a literal address, or a host name with two addresses)
	kinds := sc.Addrs
	if len(kinds) == 0 {
		kinds = []string{sc.Peer}
	}
	ips := [][4]byte{{127, 0, 0, 1}}
	target := ""
	var cleanups []func()
	defer func() {
		for _, c := range cleanups {
			c()
		}
	}()
	fail := func(msg string) ([]vOutEvent, map[string]interface{}) {
		ev("SetupErr", "", 0, 0, msg)
		return out, map[string]interface{}{"id": sc.ID, "taken": []string{}}
	}
	if len(kinds) == 2 {
		rr := vFakeResolver([][4]byte{{127, 0, 0, 1}, {127, 0, 0, 2}})
		if rr == nil {
			return fail("no resolver")
		}
		cleanups = append(cleanups, rr)
		host := fmt.Sprintf("verif-two-homes-c%d.test.", sc.Seed)
		lctx, lcancel := context.WithTimeout(context.Background(), 5*time.Second)
		got, err := net.DefaultResolver.LookupIPAddr(lctx, host)
		lcancel()
		if err != nil || len(got) != 2 || got[0].IP.To4() == nil || got[1].IP.To4() == nil {
			return fail(fmt.Sprint("resolver: ", got, err))
		}
		ips = [][4]byte{{}, {}}
		copy(ips[0][:], got[0].IP.To4())
		copy(ips[1][:], got[1].IP.To4())
		target = host
	}
	port := 0
	var rstLns []*net.TCPListener
	for i, kind := range kinds {
		ip := ips[i]
		ipS := fmt.Sprintf("%d.%d.%d.%d", ip[0], ip[1], ip[2], ip[3])
		switch kind {
		case "listen", "rst":
			ln, err := net.Listen("tcp", fmt.Sprintf("%s:%d", ipS, port))
			if err != nil {
				return fail(err.Error())
			}
			port = ln.Addr().(*net.TCPAddr).Port
			cleanups = append(cleanups, func() { ln.Close() })
			if kind == "rst" {
				rstLns = append(rstLns, ln.(*net.TCPListener))
			}
		case "refuse":
			if port == 0 {
				l, err := net.Listen("tcp", ipS+":0")
				if err != nil {
					return fail(err.Error())
				}
				port = l.Addr().(*net.TCPAddr).Port
				l.Close()
			}
		default:
			a, c := vDropListenerAtPort(ip, port)
			if a == "" {
				return fail("drop listener")
			}
			_, ps, _ := net.SplitHostPort(a)
			fmt.Sscan(ps, &port)
			cleanups = append(cleanups, c)
		}
	}
	if target == "" {
		target = "127.0.0.1"
	}
	target = fmt.Sprintf("%s:%d", target, port)

	// projection of the shared words for conformance with Dial.tla
	var allocs, frees, fdOpen, expired, rstDone, ret, pdWaits int32
	var curPd *pollDesc
	var curOp unsafe.Pointer
	var pdFreed bool
	ownFd := -1
	s.wrapHook = func(pt int32, obj unsafe.Pointer, a, b int64) {
		if vTraceOnly(pt) || pt == vpPdWait {
			if g := vGID(); g == s.mainGID || s.lookup(g) != nil {
				switch pt {
				case vpCacheAlloc:
					atomic.AddInt32(&allocs, 1)
				case vpCacheFreeable:
					atomic.AddInt32(&frees, 1)
					if obj == curOp {
						pdFreed = true
					}
				case vpFdOpen:
					if b == 5 {
						ownFd, curPd, curOp, pdFreed = int(a), nil, nil, false
						atomic.StoreInt32(&fdOpen, 1)
						atomic.StoreInt32(&pdWaits, 0)
					}
				case vpFdClose:
					if int(a) == ownFd {
						ownFd = -1
						atomic.StoreInt32(&fdOpen, 0)
					}
				case vpPdWait:
					curPd = (*pollDesc)(obj)
					curOp = unsafe.Pointer(curPd.operator)
					atomic.AddInt32(&pdWaits, 1)
				}
			}
		}
		s.hook(pt, obj, a, b)
	}
	closed := func(c chan struct{}) int32 {
		select {
		case <-c:
			return 1
		default:
			return 0
		}
	}
	s.projFn = func() []int32 {
		var wt, ct, opst int32
		if curPd != nil {
			wt, ct = closed(curPd.writeTrigger), closed(curPd.closeTrigger)
			if !pdFreed {
				opst = atomic.LoadInt32(&curPd.operator.state)
			}
		}
		return []int32{atomic.LoadInt32(&allocs) - atomic.LoadInt32(&frees), atomic.LoadInt32(&fdOpen), wt, ct, opst,
			atomic.LoadInt32(&expired), atomic.LoadInt32(&rstDone), atomic.LoadInt32(&ret)}
	}
	defer func() { verifHook = nil; vPdCtxDone = nil }()

	ev("Init", sc.Peer, map[bool]int{true: 1, false: 0}[vHasKind(kinds, "drop")], 0, "")
	ctx, cancel := context.WithCancel(context.Background())
	defer cancel()
	vPdCtxDone = func() bool { return atomic.LoadInt32(&expired) == 1 }
	var conn *TCPConnection
	var derr error
	returned := false
	mp.start()
	s.Go("dialer", func() {
		defer func() {
			if x := recover(); x != nil {
				ev("Panic", "dialer", 0, 0, fmt.Sprint(x))
			}
		}()
		conn, derr = (&dialer{}).dialTCP(&vDeadlineCtx{Context: ctx, exp: &expired}, "tcp", target)
		returned = true
		has := 0
		if conn != nil {
			has = 1
		}
		e := "nil"
		to := 0
		if derr != nil {
			e = "err"
			to = vErrTimeout(derr)
		}
		switch {
		case derr == nil:
			atomic.StoreInt32(&ret, 1)
		case to == 1:
			atomic.StoreInt32(&ret, 3)
		default:
			atomic.StoreInt32(&ret, 2)
		}
		// the last attempt was still in progress against a peer that never answers: only the expiry can have ended it
		waited := ""
		if derr != nil && kinds[len(kinds)-1] == "drop" && atomic.LoadInt32(&pdWaits) > 0 && vLastAttempt(out) == len(kinds) {
			waited = "waited"
		}
		if !s.dead() {
			mu.Lock()
			out = append(out, vOutEvent{E: "DialRet", G: "dialer", K: e, N: has, M: to, Err: waited})
			mu.Unlock()
		}
		if conn != nil {
			conn.Close()
		}
	})
	if len(rstLns) > 0 {
		// the listener resets the connection: before, between or after the poller's write-ready callback and the dialer reading SO_ERROR
		tries := 0
		s.AddEnv("peerrst", 8, func() bool { return !returned && atomic.LoadInt32(&rstDone) == 0 && tries < 8 }, func() {
			tries++
			for _, ln := range rstLns {
				ln.SetDeadline(time.Now().Add(10 * time.Millisecond))
				c, err := ln.Accept()
				if err != nil {
					continue
				}
				c.(*net.TCPConn).SetLinger(0)
				c.Close()
				time.Sleep(200 * time.Microsecond) // the reset reaches the dialing socket (loopback: synchronously with close)
				atomic.StoreInt32(&rstDone, 1)
				ev("PeerRst", "", 0, 0, "")
				return
			}
		})
	}
	if sc.Expire {
		s.AddEnv("expire", 1, func() bool { return !returned }, func() {
			atomic.StoreInt32(&expired, 1)
			cancel()
			ev("CtxExpired", "", 0, 0, "")
		})
		s.envs[len(s.envs)-1].lazy = !vHasKind(kinds, "drop")
	}
	s.Run()
	blocked := 0
	for _, b := range s.blockedAtEnd {
		if b.name == "dialer" {
			blocked = 1
		}
	}
	ev("Quiescent", "", blocked, 0, s.stuck)
	info := map[string]interface{}{"id": sc.ID, "taken": s.taken, "gates": s.gateLog, "stalled": s.stalled, "stuck": s.stuck, "drift": s.drift, "proj": s.projLog, "kinds": kinds}
	cancel()
	atomic.StoreInt32(&expired, 1)
	mp.close()
	return out, info
}

func vHasKind(ks []string, k string) bool {
	for _, x := range ks {
		if x == k {
			return true
		}
	}
	return false
}

// the number of connect attempts (descriptors opened by socket()) so far
func vLastAttempt(out []vOutEvent) (n int) {
	for _, e := range out {
		if e.E == "FdOpen" && e.K == "5" {
			n++
		}
	}
	return n
}

// vDeadlineCtx reports DeadlineExceeded (like a context with a timeout) once the scenario expired it
type vDeadlineCtx struct {
	context.Context
	exp *int32
}

func (c *vDeadlineCtx) Err() error {
	if atomic.LoadInt32(c.exp) == 1 {
		return context.DeadlineExceeded
	}
	return c.Context.Err()
}

// free-running batch: concurrent DialConnection calls, echo on success, census of descriptors and slots
func vRunDialFree(sc *vDialScenario) ([]vOutEvent, map[string]interface{}) {
	var mu sync.Mutex
	var out []vOutEvent
	ev := func(e, k string, n, m int, err string) {
		mu.Lock()
		out = append(out, vOutEvent{E: e, K: k, N: n, M: m, Err: err})
		mu.Unlock()
	}
	Initialize()
	if l, err := net.Listen("tcp", "127.0.0.1:0"); err == nil {
		if c, err := net.Dial("tcp", l.Addr().String()); err == nil {
			c.Close()
		}
		l.Close()
	}
	time.Sleep(2 * time.Millisecond)
	var allocs, frees, pdWaits int32
	verifHook = func(pt int32, obj unsafe.Pointer, a, b int64) {
		switch pt {
		case vpPdWait:
			atomic.AddInt32(&pdWaits, 1)
		case vpCacheAlloc:
			atomic.AddInt32(&allocs, 1)
		case vpCacheFreeable:
			atomic.AddInt32(&frees, 1)
		}
	}
	defer func() { verifHook = nil }()
	before := vOpenFds()
	ev("Init", sc.Peer, 0, 0, "")
	var addr string
	cleanup := func() {}
	network := sc.Network
	if network == "" {
		network = "tcp"
	}
	sock := fmt.Sprintf("/tmp/verif-dial-%d-%d.sock", os.Getpid(), sc.Seed)
	restoreRange := func() {}
	switch sc.Peer {
	case "selfconnect":
		// a dial to a port in the (narrowed) ephemeral range with no listener: the kernel picks the destination port as
		// source port and the socket connects to itself; netpoll closes it and retries. Needs a private network namespace.
		const ctl = "/proc/sys/net/ipv4/ip_local_port_range"
		old, err := os.ReadFile(ctl)
		if err != nil {
			ev("SetupErr", "", 0, 0, err.Error())
			return out, map[string]interface{}{"taken": []string{}}
		}
		l, _ := net.Listen("tcp", "127.0.0.1:0")
		port := l.Addr().(*net.TCPAddr).Port
		l.Close()
		if err := os.WriteFile(ctl, []byte(fmt.Sprintf("%d %d", port, port)), 0644); err != nil {
			ev("SetupErr", "", 0, 0, err.Error())
			return out, map[string]interface{}{"taken": []string{}}
		}
		restoreRange = func() { os.WriteFile(ctl, old, 0644) }
		addr = fmt.Sprintf("127.0.0.1:%d", port)
	case "listen":
		ln, err := net.Listen(network, map[bool]string{true: sock, false: map[bool]string{true: "[::1]:0", false: "127.0.0.1:0"}[network == "tcp6"]}[network == "unix"])
		if err != nil {
			ev("SetupErr", "", 0, 0, err.Error())
			return out, map[string]interface{}{"taken": []string{}}
		}
		addr = ln.Addr().String()
		go func() {
			for {
				c, err := ln.Accept()
				if err != nil {
					return
				}
				go func() {
					buf := make([]byte, 16)
					n, _ := c.Read(buf)
					if n > 0 {
						c.Write(buf[:n])
					}
					time.Sleep(time.Millisecond)
					c.Close()
				}()
			}
		}()
		cleanup = func() { ln.Close(); os.Remove(sock) }
	case "refuse":
		l, _ := net.Listen("tcp", "127.0.0.1:0")
		addr = l.Addr().String()
		l.Close()
	case "rst":
		// accepts and resets at once: the reset lands before, with or after the dialer's write-ready event
		ln, err := net.Listen("tcp", "127.0.0.1:0")
		if err != nil {
			ev("SetupErr", "", 0, 0, err.Error())
			return out, map[string]interface{}{"taken": []string{}}
		}
		addr = ln.Addr().String()
		go func() {
			for {
				c, err := ln.Accept()
				if err != nil {
					return
				}
				c.(*net.TCPConn).SetLinger(0)
				c.Close()
			}
		}()
		cleanup = func() { ln.Close() }
	case "multi":
		// a host name with two addresses: nothing listens at the one tried first; the second drops SYNs or accepts
		restore := vFakeResolver([][4]byte{{127, 0, 0, 1}, {127, 0, 0, 2}})
		if restore == nil {
			ev("SetupErr", "", 0, 0, "no resolver")
			return out, map[string]interface{}{"taken": []string{}}
		}
		host := fmt.Sprintf("verif-two-homes-%d.test.", sc.Seed)
		ctx, cancel := context.WithTimeout(context.Background(), 5*time.Second)
		ips, err := net.DefaultResolver.LookupIPAddr(ctx, host)
		cancel()
		if err != nil || len(ips) != 2 || ips[1].IP.To4() == nil {
			restore()
			ev("SetupErr", "", 0, 0, fmt.Sprint("resolver: ", ips, err))
			return out, map[string]interface{}{"taken": []string{}}
		}
		var second [4]byte
		copy(second[:], ips[1].IP.To4())
		var a2 string
		var c2 func()
		if sc.Second == "listen" {
			ln, err := net.Listen("tcp", fmt.Sprintf("%s:0", ips[1].IP))
			if err != nil {
				restore()
				ev("SetupErr", "", 0, 0, err.Error())
				return out, map[string]interface{}{"taken": []string{}}
			}
			a2 = ln.Addr().String()
			go func() {
				for {
					c, err := ln.Accept()
					if err != nil {
						return
					}
					go func() {
						buf := make([]byte, 16)
						n, _ := c.Read(buf)
						if n > 0 {
							c.Write(buf[:n])
						}
						time.Sleep(time.Millisecond)
						c.Close()
					}()
				}
			}()
			c2 = func() { ln.Close() }
		} else {
			a2, c2 = vDropListenerAt(second)
		}
		_, port, _ := net.SplitHostPort(a2)
		addr = host + ":" + port
		cleanup = func() { c2(); restore() }
	default:
		addr, cleanup = vDropListener()
	}
	var wg sync.WaitGroup
	if sc.ExecChild {
		// a child process started while the dials are in flight must not inherit their sockets
		wg.Add(1)
		go func() {
			defer wg.Done()
			time.Sleep(time.Duration(sc.TimeoutUs/3) * time.Microsecond)
			outb, err := exec.Command("/bin/ls", "-l", "/proc/self/fd").CombinedOutput()
			if err != nil {
				return
			}
			ev("ChildFds", "", strings.Count(string(outb), "socket:"), 0, "")
		}()
	}
	for i := 0; i < sc.Dials; i++ {
		wg.Add(1)
		go func(i int) {
			defer wg.Done()
			defer func() {
				if x := recover(); x != nil {
					ev("Panic", "dialer", 0, 0, fmt.Sprint(x))
				}
			}()
			to := time.Duration(sc.TimeoutUs) * time.Microsecond
			t0 := time.Now()
			c, err := DialConnection(network, addr, to)
			el := time.Since(t0)
			has := 0
			if c != nil && !vIsNilConn(c) {
				has = 1
			}
			e, tf := "nil", 0
			if err != nil {
				e, tf = "err", vErrTimeout(err)
			}
			late := 0
			if to > 0 && el > to+5*time.Second { // (scheduling slack: the machine may be heavily loaded)
				late = 1
			}
			mu.Lock()
			// (a connect that was still in progress against a peer that never answers can only have ended by the expiry)
			waited := ""
			if sc.Dials == 1 && atomic.LoadInt32(&pdWaits) > 0 && (sc.Peer == "drop" || sc.Peer == "multi" && sc.Second != "listen") {
				waited = "waited"
			}
			out = append(out, vOutEvent{E: "DialRet", G: waited, K: e, N: has, M: tf, Err: fmt.Sprint(late)})
			mu.Unlock()
			if has == 1 && err == nil && sc.Peer != "rst" {
				// usable in both directions
				ok := 0
				c.SetReadTimeout(time.Second)
				if _, werr := c.Writer().WriteString("ping"); werr == nil && c.Writer().Flush() == nil {
					if p, rerr := c.Reader().Next(4); rerr == nil && string(p) == "ping" {
						ok = 1
					}
				}
				ev("Echo", "", ok, 0, "")
				c.Close()
			} else if has == 1 && err == nil {
				c.Close()
			}
		}(i)
	}
	wg.Wait()
	cleanup()
	restoreRange()
	leaked := 0
	for i := 0; i < 300; i++ {
		time.Sleep(2 * time.Millisecond)
		leaked = 0
		for fd := range vOpenFds() {
			if _, was := before[fd]; !was {
				leaked++
			}
		}
		if leaked == 0 && atomic.LoadInt32(&allocs) == atomic.LoadInt32(&frees) {
			break
		}
	}
	ev("Census", "", leaked, int(atomic.LoadInt32(&allocs)-atomic.LoadInt32(&frees)), "")
	return out, map[string]interface{}{"id": sc.ID, "taken": []string{}}
}

func vIsNilConn(c Connection) bool {
	switch v := c.(type) {
	case *TCPConnection:
		return v == nil
	case *UnixConnection:
		return v == nil
	}
	return false
}

func TestVerifDialScenarios(t *testing.T) {
	in, outp := os.Getenv("VERIF_IN"), os.Getenv("VERIF_OUT")
	if in == "" || outp == "" {
		t.Skip("VERIF_IN/VERIF_OUT not set")
	}
	raw, err := os.ReadFile(in)
	if err != nil {
		t.Fatal(err)
	}
	var wo struct {
		Scenarios []vDialScenario `json:"scenarios"`
	}
	if err := json.Unmarshal(raw, &wo); err != nil {
		t.Fatal(err)
	}
	f, err := os.Create(outp)
	if err != nil {
		t.Fatal(err)
	}
	defer f.Close()
	enc := json.NewEncoder(f)
	for i := range wo.Scenarios {
		var evs []vOutEvent
		var info map[string]interface{}
		if wo.Scenarios[i].Free {
			evs, info = vRunDialFree(&wo.Scenarios[i])
		} else {
			evs, info = vRunDialControlled(&wo.Scenarios[i])
		}
		enc.Encode(map[string]interface{}{"scenario": wo.Scenarios[i].ID, "info": info, "events": evs})
	}
}
