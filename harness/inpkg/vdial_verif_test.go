//go:build verif
// +build verif

package netpoll

// Dials (C14). Controlled: one DialTCP as an actor against a listening / closed / never-accepting
// port, manual poller, the context's expiry is a scheduler choice ("the connect completing at any
// point relative to the timeout").  Free-running: many concurrent DialConnection calls with timeouts
// from far below to far above the connect latency, echo round trip on success, descriptor and
// poller-slot census before/after.  Judged by DialObs.tla.

import (
	"context"
	"encoding/json"
	"fmt"
	"net"
	"os"
	"sync"
	"sync/atomic"
	"syscall"
	"testing"
	"time"
	"unsafe"

	"github.com/cloudwego/netpoll/internal/runner"
)

type vDialScenario struct {
	ID        string   `json:"id"`
	Seed      int64    `json:"seed"`
	Strategy  string   `json:"strategy"`
	Plan      []string `json:"plan"`
	StallName string   `json:"stallname"`
	StallPt   int      `json:"stallpt"`
	StallOcc  int      `json:"stallocc"`
	Peer      string   `json:"peer"`   // listen | refuse | drop
	Expire    bool     `json:"expire"` // the context may expire (scheduler choice)
	Free      bool     `json:"free"`   // free-running batch instead
	Dials     int      `json:"dials"`  // free: concurrent dials
	TimeoutUs int      `json:"timeoutus"`
	Network   string   `json:"network"` // free: tcp | tcp6 | unix
}

// a listener that never accepts and whose queue is full: SYNs are dropped
func vDropListener() (addr string, cleanup func()) {
	fd, _ := syscall.Socket(syscall.AF_INET, syscall.SOCK_STREAM, 0)
	syscall.Bind(fd, &syscall.SockaddrInet4{Addr: [4]byte{127, 0, 0, 1}})
	syscall.Listen(fd, 0)
	sa, _ := syscall.Getsockname(fd)
	addr = fmt.Sprintf("127.0.0.1:%d", sa.(*syscall.SockaddrInet4).Port)
	var held []net.Conn
	for i := 0; i < 3; i++ {
		if c, err := net.DialTimeout("tcp", addr, 30*time.Millisecond); err == nil {
			held = append(held, c)
		}
	}
	return addr, func() {
		for _, h := range held {
			h.Close()
		}
		syscall.Close(fd)
	}
}

func vErrTimeout(err error) int {
	if ne, ok := err.(net.Error); ok && ne.Timeout() {
		return 1
	}
	return 0
}

func vRunDialControlled(sc *vDialScenario) ([]vOutEvent, map[string]interface{}) {
	s := vNewSched(sc.Seed)
	s.maxSteps = 2000
	if sc.Strategy == "pct" {
		s.UsePCT(3, 60)
	}
	s.plan = sc.Plan
	s.stallName, s.stallPt, s.stallOcc = sc.StallName, int32(sc.StallPt), sc.StallOcc
	var mu sync.Mutex
	var out []vOutEvent
	ev := func(e, k string, n, m int, err string) {
		g := "env"
		if a := s.lookup(vGID()); a != nil {
			g = a.name
		}
		mu.Lock()
		out = append(out, vOutEvent{E: e, G: g, K: k, N: n, M: m, Err: err})
		mu.Unlock()
	}
	s.emit = ev
	mp := vNewManualPoll(s, "poller")
	restore := vInstallPolls(mp)
	defer restore()
	oldRunner := runner.RunTask
	defer func() { runner.RunTask = oldRunner }()
	runner.RunTask = func(ctx context.Context, f func()) { s.Go("task", f) }
	vCur = s
	verifHook = s.hook
	defer func() { verifHook = nil; vPdCtxDone = nil }()

	var addr string
	var cleanup func()
	var ln net.Listener
	switch sc.Peer {
	case "listen":
		ln, _ = net.Listen("tcp", "127.0.0.1:0")
		addr = ln.Addr().String()
		cleanup = func() { ln.Close() }
	case "refuse":
		l, _ := net.Listen("tcp", "127.0.0.1:0")
		addr = l.Addr().String()
		l.Close()
		cleanup = func() {}
	default:
		addr, cleanup = vDropListener()
	}
	defer cleanup()
	ev("Init", sc.Peer, 0, 0, "")
	ctx, cancel := context.WithCancel(context.Background())
	defer cancel()
	var expired int32
	vPdCtxDone = func() bool { return atomic.LoadInt32(&expired) == 1 }
	ta, _ := net.ResolveTCPAddr("tcp", addr)
	var conn *TCPConnection
	var derr error
	returned := false
	mp.start()
	s.Go("dialer", func() {
		defer func() {
			if x := recover(); x != nil {
				ev("Panic", "dialer", 0, 0, fmt.Sprint(x))
			}
		}()
		conn, derr = DialTCP(&vDeadlineCtx{Context: ctx, exp: &expired}, "tcp", nil, &TCPAddr{TCPAddr: *ta})
		returned = true
		has := 0
		if conn != nil {
			has = 1
		}
		e := "nil"
		to := 0
		if derr != nil {
			e = "err"
			to = vErrTimeout(derr)
		}
		ev("DialRet", e, has, to, "")
		if conn != nil {
			conn.Close()
		}
	})
	if sc.Expire {
		s.AddEnv("expire", 1, func() bool { return !returned }, func() {
			atomic.StoreInt32(&expired, 1)
			cancel()
			ev("CtxExpired", "", 0, 0, "")
		})
		s.envs[len(s.envs)-1].lazy = sc.Peer != "drop"
	}
	s.Run()
	blocked := 0
	for _, b := range s.blockedAtEnd {
		if b.name == "dialer" {
			blocked = 1
		}
	}
	ev("Quiescent", "", blocked, 0, s.stuck)
	info := map[string]interface{}{"id": sc.ID, "taken": s.taken, "gates": s.gateLog, "stalled": s.stalled, "stuck": s.stuck, "drift": s.drift}
	cancel()
	atomic.StoreInt32(&expired, 1)
	mp.close()
	return out, info
}

// vDeadlineCtx reports DeadlineExceeded (like a context with a timeout) once the scenario expired it
type vDeadlineCtx struct {
	context.Context
	exp *int32
}

func (c *vDeadlineCtx) Err() error {
	if atomic.LoadInt32(c.exp) == 1 {
		return context.DeadlineExceeded
	}
	return c.Context.Err()
}

// free-running batch: concurrent DialConnection calls, echo on success, census of descriptors and slots
func vRunDialFree(sc *vDialScenario) ([]vOutEvent, map[string]interface{}) {
	var mu sync.Mutex
	var out []vOutEvent
	ev := func(e, k string, n, m int, err string) {
		mu.Lock()
		out = append(out, vOutEvent{E: e, K: k, N: n, M: m, Err: err})
		mu.Unlock()
	}
	Initialize()
	if l, err := net.Listen("tcp", "127.0.0.1:0"); err == nil {
		if c, err := net.Dial("tcp", l.Addr().String()); err == nil {
			c.Close()
		}
		l.Close()
	}
	time.Sleep(2 * time.Millisecond)
	var allocs, frees int32
	verifHook = func(pt int32, obj unsafe.Pointer, a, b int64) {
		switch pt {
		case vpCacheAlloc:
			atomic.AddInt32(&allocs, 1)
		case vpCacheFreeable:
			atomic.AddInt32(&frees, 1)
		}
	}
	defer func() { verifHook = nil }()
	before := vOpenFds()
	ev("Init", sc.Peer, 0, 0, "")
	var addr string
	cleanup := func() {}
	network := sc.Network
	if network == "" {
		network = "tcp"
	}
	sock := fmt.Sprintf("/tmp/verif-dial-%d-%d.sock", os.Getpid(), sc.Seed)
	restoreRange := func() {}
	switch sc.Peer {
	case "selfconnect":
		// a dial to a port in the (narrowed) ephemeral range with no listener: the kernel picks the destination port as
		// source port and the socket connects to itself; netpoll closes it and retries. Needs a private network namespace.
		const ctl = "/proc/sys/net/ipv4/ip_local_port_range"
		old, err := os.ReadFile(ctl)
		if err != nil {
			ev("SetupErr", "", 0, 0, err.Error())
			return out, map[string]interface{}{"taken": []string{}}
		}
		l, _ := net.Listen("tcp", "127.0.0.1:0")
		port := l.Addr().(*net.TCPAddr).Port
		l.Close()
		if err := os.WriteFile(ctl, []byte(fmt.Sprintf("%d %d", port, port)), 0644); err != nil {
			ev("SetupErr", "", 0, 0, err.Error())
			return out, map[string]interface{}{"taken": []string{}}
		}
		restoreRange = func() { os.WriteFile(ctl, old, 0644) }
		addr = fmt.Sprintf("127.0.0.1:%d", port)
	case "listen":
		ln, err := net.Listen(network, map[bool]string{true: sock, false: map[bool]string{true: "[::1]:0", false: "127.0.0.1:0"}[network == "tcp6"]}[network == "unix"])
		if err != nil {
			ev("SetupErr", "", 0, 0, err.Error())
			return out, map[string]interface{}{"taken": []string{}}
		}
		addr = ln.Addr().String()
		go func() {
			for {
				c, err := ln.Accept()
				if err != nil {
					return
				}
				go func() {
					buf := make([]byte, 16)
					n, _ := c.Read(buf)
					if n > 0 {
						c.Write(buf[:n])
					}
					time.Sleep(time.Millisecond)
					c.Close()
				}()
			}
		}()
		cleanup = func() { ln.Close(); os.Remove(sock) }
	case "refuse":
		l, _ := net.Listen("tcp", "127.0.0.1:0")
		addr = l.Addr().String()
		l.Close()
	default:
		addr, cleanup = vDropListener()
	}
	var wg sync.WaitGroup
	for i := 0; i < sc.Dials; i++ {
		wg.Add(1)
		go func(i int) {
			defer wg.Done()
			defer func() {
				if x := recover(); x != nil {
					ev("Panic", "dialer", 0, 0, fmt.Sprint(x))
				}
			}()
			to := time.Duration(sc.TimeoutUs) * time.Microsecond
			t0 := time.Now()
			c, err := DialConnection(network, addr, to)
			el := time.Since(t0)
			has := 0
			if c != nil && !vIsNilConn(c) {
				has = 1
			}
			e, tf := "nil", 0
			if err != nil {
				e, tf = "err", vErrTimeout(err)
			}
			late := 0
			if to > 0 && el > to+time.Second {
				late = 1
			}
			ev("DialRet", e, has, tf, fmt.Sprint(late))
			if has == 1 && err == nil {
				// usable in both directions
				ok := 0
				c.SetReadTimeout(time.Second)
				if _, werr := c.Writer().WriteString("ping"); werr == nil && c.Writer().Flush() == nil {
					if p, rerr := c.Reader().Next(4); rerr == nil && string(p) == "ping" {
						ok = 1
					}
				}
				ev("Echo", "", ok, 0, "")
				c.Close()
			}
		}(i)
	}
	wg.Wait()
	cleanup()
	restoreRange()
	leaked := 0
	for i := 0; i < 300; i++ {
		time.Sleep(2 * time.Millisecond)
		leaked = 0
		for fd := range vOpenFds() {
			if _, was := before[fd]; !was {
				leaked++
			}
		}
		if leaked == 0 && atomic.LoadInt32(&allocs) == atomic.LoadInt32(&frees) {
			break
		}
	}
	ev("Census", "", leaked, int(atomic.LoadInt32(&allocs)-atomic.LoadInt32(&frees)), "")
	return out, map[string]interface{}{"id": sc.ID, "taken": []string{}}
}

func vIsNilConn(c Connection) bool {
	switch v := c.(type) {
	case *TCPConnection:
		return v == nil
	case *UnixConnection:
		return v == nil
	}
	return false
}

func TestVerifDialScenarios(t *testing.T) {
	in, outp := os.Getenv("VERIF_IN"), os.Getenv("VERIF_OUT")
	if in == "" || outp == "" {
		t.Skip("VERIF_IN/VERIF_OUT not set")
	}
	raw, err := os.ReadFile(in)
	if err != nil {
		t.Fatal(err)
	}
	var wo struct {
		Scenarios []vDialScenario `json:"scenarios"`
	}
	if err := json.Unmarshal(raw, &wo); err != nil {
		t.Fatal(err)
	}
	f, err := os.Create(outp)
	if err != nil {
		t.Fatal(err)
	}
	defer f.Close()
	enc := json.NewEncoder(f)
	for i := range wo.Scenarios {
		var evs []vOutEvent
		var info map[string]interface{}
		if wo.Scenarios[i].Free {
			evs, info = vRunDialFree(&wo.Scenarios[i])
		} else {
			evs, info = vRunDialControlled(&wo.Scenarios[i])
		}
		enc.Encode(map[string]interface{}{"scenario": wo.Scenarios[i].ID, "info": info, "events": evs})
	}
}
