//go:build verif
// +build verif

package netpoll

// Replay of LinkBuffer.tla behaviours (node-level transcription, sizes in units of 2048 bytes) on the real
// LinkBuffer.  After every call the harness reports
//   - the projection of the node chains (per node: cap, len, off, malloc, refer, unmanaged, exposed, has origin;
//     the positions of read / flush / write; the two length words; caches and the Peek cache) for conformance,
//   - what is observable: bytes come out in the order they went in (C01), what a zero-copy read handed out stays
//     intact until its reader's Release (C02), the pool ledger reports no double / foreign / interior / early
//     free (C03), no panic.
// Input : $VERIF_IN  = {"behaviours":[{"id":..,"init":s,"steps":[{"op","b","n","m"}...]}]}
// Output: $VERIF_OUT = NDJSON, one record per behaviour.

import (
	"encoding/json"
	"fmt"
	"os"
	"sync"
	"testing"
	"time"

	"github.com/bytedance/gopkg/lang/mcache"
)

const vlbUnit = 2048

type vlbStep struct {
	Op string `json:"op"`
	B  int    `json:"b"`
	N  int    `json:"n"`
	M  int    `json:"m"`
}

type vlbBehaviour struct {
	ID    string    `json:"id"`
	Init  int       `json:"init"`
	Steps []vlbStep `json:"steps"`
}

type vlbNode struct {
	Cap, Len, Off, Mal, Refer int
	Unm, Exp, Origin          bool
}

type vlbBuf struct {
	Nodes              []vlbNode
	Read, Flush, Write int // position in the chain from head, -1: nil
	Length, Msize      int
	Caches             int
	CpLen, CpCap       int
}

type vlbOut struct {
	Step   int               `json:"step"`
	Bufs   map[string]vlbBuf `json:"bufs"`
	Frees  int               `json:"frees"`
	Bad    []string          `json:"bad"` // observable violations in this step: "class: detail"
	Failed bool              `json:"failed"`
}

func vlbProject(b *LinkBuffer) vlbBuf {
	out := vlbBuf{Read: -1, Flush: -1, Write: -1}
	if b == nil {
		return out
	}
	i := 0
	for n := b.head; n != nil && i < 64; n = n.next {
		if n == b.read {
			out.Read = i
		}
		if n == b.flush {
			out.Flush = i
		}
		if n == b.write {
			out.Write = i
		}
		out.Nodes = append(out.Nodes, vlbNode{Cap: cap(n.buf), Len: len(n.buf), Off: n.off, Mal: n.malloc, Refer: int(n.refer),
			Unm: n.getFlag(flagUnmanaged), Exp: n.getFlag(flagReadExposed), Origin: n.origin != nil})
		i++
	}
	out.Length, out.Msize = int(b.length), b.mallocSize
	out.Caches = len(b.caches)
	out.CpLen, out.CpCap = len(b.cachePeek), cap(b.cachePeek)
	return out
}

type vlbResult struct {
	owner int
	data  []byte // the slice handed out
	want  []byte // private copy taken at that time
	prot  int
}

func vlbRun(bh *vlbBehaviour) (outs []vlbOut) {
	mcache.LedgerOn()
	defer mcache.LedgerOff()
	bufs := map[int]*LinkBuffer{}
	rdr := map[int]Reader{}
	var wpos, rpos int // stream positions (FIFO): bytes written / bytes read from buffer 1 and the readers cut from it, in order
	spos := map[int]int{}
	var results []vlbResult
	protN := 0
	order := true // content order is judged until a WriteDirect (it inserts before already malloc'ed bytes)
	bufs[1] = NewLinkBuffer(bh.Init * vlbUnit)
	rdr[1] = bufs[1]
	fill := func(p []byte, from int) {
		for i := range p {
			p[i] = vStreamByte(from + i)
		}
	}
	pendingFill := [][]byte{} // Malloc'ed and not yet flushed
	for si, st := range bh.Steps {
		o := vlbOut{Step: si, Bufs: map[string]vlbBuf{}}
		func() {
			defer func() {
				if x := recover(); x != nil {
					o.Bad = append(o.Bad, "panic: "+fmt.Sprint(x))
					o.Failed = true
				}
			}()
			b := bufs[st.B]
			n := st.N * vlbUnit
			expect := func(p []byte, owner int, zc bool) {
				from := rpos
				if owner != 1 {
					from = spos[owner]
				}
				if order {
					for i := range p {
						if p[i] != vStreamByte(from+i) {
							o.Bad = append(o.Bad, fmt.Sprintf("result: %s byte %d is %#x, want %#x", st.Op, i, p[i], vStreamByte(from+i)))
							break
						}
					}
				}
				if zc && len(p) > 0 {
					protN++
					cp := append([]byte(nil), p...)
					mcache.LedgerProtect(protN, p)
					results = append(results, vlbResult{owner: owner, data: p, want: cp, prot: protN})
				}
			}
			advance := func(owner, k int) {
				if owner == 1 {
					rpos += k
				} else {
					spos[owner] += k
				}
			}
			dropResults := func(owner int) {
				keep := results[:0]
				for _, r := range results {
					if r.owner == owner {
						mcache.LedgerUnprotect(r.prot)
					} else {
						keep = append(keep, r)
					}
				}
				results = keep
			}
			if st.B != 1 && (st.Op == "Malloc" || st.Op == "WriteBinary" || st.Op == "MallocAck" || st.Op == "Flush") {
				order = false // content order is judged for the single-buffer behaviours (appends: the ByteQueue replays)
			}
			switch st.Op {
			case "Book":
				order = false
				p := b.book(st.N*vlbUnit, st.M*vlbUnit)
				for i := range p {
					p[i] = 0xB0 // the kernel fills the reservation
				}
			case "BookAck":
				order = false
				b.bookAck(st.N * vlbUnit)
			case "NewBuf":
				order = false
				bufs[st.B] = NewLinkBuffer(st.N * vlbUnit)
				rdr[st.B] = bufs[st.B]
			case "WriteBuffer":
				order = false
				mcache.LedgerUnprotect(1000 + st.M) // the donor's unread data now belongs to the receiving buffer
				if err := b.WriteBuffer(bufs[st.M]); err != nil {
					o.Bad = append(o.Bad, "result: WriteBuffer failed: "+err.Error())
				}
				delete(bufs, st.M)
				delete(rdr, st.M)
			case "Malloc":
				p, _ := b.Malloc(n)
				fill(p, wpos)
				wpos += n
				pendingFill = append(pendingFill, p)
			case "Flush":
				b.Flush()
				pendingFill = nil
			case "MallocAck":
				b.MallocAck(st.N * vlbUnit)
				// what was discarded leaves the stream: recompute the write position from what stays malloc'ed
				order = order && st.N*vlbUnit == b.MallocLen()
				if b.MallocLen() != 0 || len(pendingFill) > 0 {
					// positions of the kept prefix stay valid; the discarded tail is re-used by later writes
					wpos = wpos - (vlbPending(pendingFill) - st.N*vlbUnit)
				}
				pendingFill = vlbKeep(pendingFill, st.N*vlbUnit)
			case "WriteBinary":
				p := make([]byte, n)
				fill(p, wpos)
				wpos += n
				b.WriteBinary(p)
				pendingFill = append(pendingFill, p)
			case "WriteDirect":
				p := make([]byte, n)
				b.WriteDirect(p, st.M*vlbUnit)
				order = false
			case "Next":
				p, err := rdr[st.B].Next(n)
				if err != nil {
					o.Bad = append(o.Bad, "result: Next failed: "+err.Error())
				}
				expect(p, st.B, true)
				advance(st.B, n)
			case "Peek":
				p, err := rdr[st.B].Peek(n)
				if err != nil {
					o.Bad = append(o.Bad, "result: Peek failed: "+err.Error())
				}
				expect(p, st.B, true)
			case "Skip":
				if err := rdr[st.B].Skip(n); err != nil {
					o.Bad = append(o.Bad, "result: Skip failed: "+err.Error())
				}
				advance(st.B, n)
			case "ReadBinary":
				p, err := rdr[st.B].ReadBinary(n)
				if err != nil {
					o.Bad = append(o.Bad, "result: ReadBinary failed: "+err.Error())
				}
				expect(p, st.B, false)
				advance(st.B, n)
			case "Release":
				dropResults(st.B)
				rdr[st.B].Release()
			case "Slice":
				// documented: Slice = Next + a new reader + Release of this reader; what was read from the parent before ends here
				dropResults(st.B)
				from := rpos
				if st.B != 1 {
					from = spos[st.B]
				}
				r, err := rdr[st.B].Slice(n)
				if err != nil {
					o.Bad = append(o.Bad, "result: Slice failed: "+err.Error())
					break
				}
				if len(bufs[st.B].caches) == 0 && false {
					_ = r
				}
				// the multi-node path ends with a Release of the parent (the model says which: m is the new buffer id)
				advance(st.B, n)
				spos[st.M] = from
				rdr[st.M] = r
				if lb, ok := r.(*LinkBuffer); ok {
					bufs[st.M] = lb
				}
			case "Close":
				dropResults(st.B)
				mcache.LedgerUnprotect(1000 + st.B) // the owner discards its own unread data
				b.Close()
				delete(bufs, st.B)
				delete(rdr, st.B)
			}
			if st.Op == "Slice" && st.B >= 1 {
				// Slice released the parent when it crossed nodes: the parent's earlier results are gone by contract
				if pb := bufs[st.B]; pb != nil && pb.head == pb.read && false {
					_ = pb
				}
			}
		}()
		// observable: results still owed must be intact
		for _, r := range results {
			for i := range r.data {
				if r.data[i] != r.want[i] {
					o.Bad = append(o.Bad, fmt.Sprintf("stability: a result of buffer %d changed at byte %d (%#x, was %#x) before its Release", r.owner, i, r.data[i], r.want[i]))
					break
				}
			}
		}
		for _, e := range mcache.LedgerDrain() {
			switch e.Kind {
			case "free":
				o.Frees++
			case "malloc", "ignored_free":
			default:
				what := "unread"
				if e.Prot > 0 && e.Prot < 1000 {
					what = "result"
				}
				if e.Kind != "early_free" {
					what = ""
				}
				o.Bad = append(o.Bad, fmt.Sprintf("ledger: %s %s (block #%d cap %d)", e.Kind, what, e.Serial, e.Cap))
			}
		}
		for id, b := range bufs {
			o.Bufs[fmt.Sprint(id)] = vlbProject(b)
			// what is still unread in a live buffer must not go back to the pool: protect it until the next call
			mcache.LedgerUnprotect(1000 + id)
			for n := b.read; n != nil; n = n.next {
				if n.off < len(n.buf) {
					mcache.LedgerProtect(1000+id, n.buf[n.off:len(n.buf)])
				}
				if n == b.flush {
					break
				}
			}
		}
		for id := 1; id <= 8; id++ {
			if bufs[id] == nil {
				mcache.LedgerUnprotect(1000 + id)
			}
		}
		outs = append(outs, o)
		vlbMu.Lock()
		vlbCur = append([]vlbOut(nil), outs...)
		vlbMu.Unlock()
		if o.Failed {
			break
		}
	}
	return outs
}

var (
	vlbMu  sync.Mutex
	vlbCur []vlbOut
)

func vlbPending(ps [][]byte) (n int) {
	for _, p := range ps {
		n += len(p)
	}
	return n
}

func vlbKeep(ps [][]byte, keep int) [][]byte {
	var out [][]byte
	for _, p := range ps {
		if keep <= 0 {
			break
		}
		if len(p) > keep {
			p = p[:keep]
		}
		out = append(out, p)
		keep -= len(p)
	}
	return out
}

func TestVerifLinkBufferModel(t *testing.T) {
	in, outp := os.Getenv("VERIF_IN"), os.Getenv("VERIF_OUT")
	if in == "" || outp == "" {
		t.Skip("VERIF_IN/VERIF_OUT not set")
	}
	raw, err := os.ReadFile(in)
	if err != nil {
		t.Fatal(err)
	}
	var wo struct {
		Behaviours []vlbBehaviour `json:"behaviours"`
	}
	if err := json.Unmarshal(raw, &wo); err != nil {
		t.Fatal(err)
	}
	f, err := os.Create(outp)
	if err != nil {
		t.Fatal(err)
	}
	defer f.Close()
	enc := json.NewEncoder(f)
	for i := range wo.Behaviours {
		bh := &wo.Behaviours[i]
		vlbMu.Lock()
		vlbCur = nil
		vlbMu.Unlock()
		done := make(chan []vlbOut, 1)
		go func() { done <- vlbRun(bh) }()
		select {
		case outs := <-done:
			enc.Encode(map[string]interface{}{"id": bh.ID, "steps": outs})
		case <-time.After(60 * time.Second):
			// a call that does not return (a cycle in the chain): report it for this behaviour and give up on this process
			vlbMu.Lock()
			outs := append([]vlbOut(nil), vlbCur...)
			vlbMu.Unlock()
			outs = append(outs, vlbOut{Step: len(outs), Bufs: map[string]vlbBuf{}, Bad: []string{"hang: the call did not return within 60s"}, Failed: true})
			enc.Encode(map[string]interface{}{"id": bh.ID, "steps": outs, "hang": true})
			f.Sync()
			os.Exit(3)
		}
	}
}
