//go:build verif
// +build verif

package netpoll

// Connection scenarios under the controlled scheduler.
// Input : $VERIF_IN  = JSON {"scenarios":[...]}      Output: $VERIF_OUT = NDJSON of events (uniform fields)
// One real connection on a real socketpair, registered with a manual poller; user callbacks, user
// goroutines (closers, reader, flusher) and the peer are driven by the scenario; the schedule is
// either a plan (from TLC) or seeded random / PCT.

import (
	"context"
	"encoding/json"
	"errors"
	"fmt"
	"os"
	"runtime/debug"
	"strings"
	"sync"
	"sync/atomic"
	"syscall"
	"testing"
	"time"

	"github.com/cloudwego/netpoll/internal/runner"
)

type vHandlerStep struct {
	Consume int    `json:"consume"` // -1: everything buffered; k: Next(k) (blocks if fewer)
	Need    int    `json:"need"`    // > 0: a framing handler: returns WITHOUT consuming while fewer than Need bytes are buffered, else consumes Need
	Then    string `json:"then"`    // return | close | panic | yield
}

type vActorSpec struct {
	Name string          `json:"name"`
	Ops  [][]interface{} `json:"ops"` // ["Close"] ["Detach"] ["Next",n] ["NextT",n] ["Release"] ["Write",n] ["WriteT",n] ["IsActive"] ["SetOnRequest"] ...
}

type vScenario struct {
	StallName string          `json:"stallname"`
	StallPt   int             `json:"stallpt"`
	StallOcc  int             `json:"stallocc"`
	UntilName string          `json:"untilname"`
	UntilPt   int             `json:"untilpt"`
	UntilOcc  int             `json:"untilocc"`
	ID        string          `json:"id"`
	Seed      int64           `json:"seed"`
	Strategy  string          `json:"strategy"` // random | pct | plan
	Plan      []string        `json:"plan"`
	Kind      string          `json:"kind"` // server | client | fd
	OnConn    bool            `json:"onconnect"`
	OnDisc    bool            `json:"ondisconnect"`
	OnReq     bool            `json:"onrequest"`
	OnPrep    bool            `json:"onprepare"`
	NCloseCb  int             `json:"nclosecb"`
	ConnBody  string          `json:"connbody"` // return | close | yield
	PrepBody  string          `json:"prepbody"` // return | close
	DiscBody  string          `json:"discbody"` // return | waitwriters (OnDisconnect waits until every writing actor has finished)
	Handler   []vHandlerStep  `json:"handler"`
	Actors    []vActorSpec    `json:"actors"`
	Peer      [][]interface{} `json:"peer"` // ["send",n] ["close"] ["rst"] ["drain",n] ["shutwr"]
	SndBuf    int             `json:"sndbuf"`
	LateReq   bool            `json:"latereq"` // client: SetOnRequest is an actor op instead of an option
	// the plan starts once the connection is accepted and every actor stands in front of its first operation (set-up is driven
	// deterministically); the projection of the output hand-off is logged after every step (conformance with FlushProto.tla)
	HoldSetup bool `json:"holdsetup"`
	// timers fire as readily as any other step (default: rarely while anything else can move - a timeout is normally far away)
	EagerTimers bool `json:"eagertimers"`
	// a thief empties the connection's socket between the poller's fetch and its read, at most this many times (spurious readiness)
	Steals int `json:"steals"`
}

type vOutEvent struct {
	T   int    `json:"t"`
	E   string `json:"e"`
	G   string `json:"g"`
	K   string `json:"k"`
	N   int    `json:"n"`
	M   int    `json:"m"`
	Err string `json:"err"`
}

func vErrClass(err error) string {
	switch {
	case err == nil:
		return "nil"
	case errors.Is(err, ErrReadTimeout):
		return "rtimeout"
	case errors.Is(err, ErrWriteTimeout):
		return "wtimeout"
	case errors.Is(err, ErrEOF):
		return "eof"
	case errors.Is(err, ErrConcurrentAccess):
		return "concurrent"
	case errors.Is(err, ErrConnClosed):
		return "closed"
	}
	return "other:" + err.Error()
}

// position-coded payload: byte at stream position p
// (every 7th byte is the line delimiter, everything else is a position hash that is never '\n')
func vStreamByte(p int) byte {
	if p%7 == 6 {
		return '\n'
	}
	x := uint32(p)*2654435761 + 40503
	x ^= x >> 15
	x *= 2246822519
	x ^= x >> 13
	b := byte(x >> 8)
	if b == '\n' {
		b = 0x0B
	}
	return b
}

type vConnRun struct {
	sc           *vScenario
	s            *vSched
	mp           *vManualPoll
	c            *connection
	peer         int
	out          []vOutEvent
	sent         int // bytes the peer wrote
	rdpos        int // bytes consumed by reads so far (expected stream position)
	wrpos        int // bytes submitted by writes
	prd          int // bytes the peer read
	reqN         int
	panicked     string
	userClosed   bool
	skips        [][2]int // ranges of the peer's stream that a thief took from the socket before netpoll could read them
	emptyRuns    int      // framing handler: invocations that returned without consuming
	writersLeft  int32    // writing actors that have not finished their script
	readersLeft  int32    // reading actors that have not finished their script
	pastDeadline bool     // the current read has a deadline in the past (its expiry is recorded right after the call)
	inUntil      bool
	mu           sync.Mutex
}

func vIsWriter(a vActorSpec) bool {
	for _, op := range a.Ops {
		if len(op) > 0 {
			if k, _ := op[0].(string); k == "Write" || k == "WriteT" || k == "WriteV" || k == "AppendV" {
				return true
			}
		}
	}
	return false
}

// writers: number of actors of the scenario that submit output
func vIsReader(a vActorSpec) bool {
	for _, op := range a.Ops {
		if len(op) > 0 {
			if k, _ := op[0].(string); k == "Next" || k == "NextT" || k == "NextD" || k == "Until" {
				return true
			}
		}
	}
	return false
}

func (r *vConnRun) writers() int {
	n := 0
	for _, a := range r.sc.Actors {
		for _, op := range a.Ops {
			if len(op) > 0 {
				if k, _ := op[0].(string); k == "Write" || k == "WriteT" || k == "WriteV" || k == "AppendV" {
					n++
					break
				}
			}
		}
	}
	return n
}

func (r *vConnRun) ev(e, k string, n, m int, err string) {
	g := "env"
	if a := r.s.lookup(vGID()); a != nil {
		g = a.name
	}
	if g != "env" && r.s.dead() {
		return // released after the scheduler stopped: not part of the recorded execution
	}
	r.mu.Lock()
	r.out = append(r.out, vOutEvent{E: e, G: g, K: k, N: n, M: m, Err: err})
	r.mu.Unlock()
}

// spos maps the i-th byte netpoll can deliver to its position in the peer's stream (bytes a thief stole are skipped)
func (r *vConnRun) stolen() (n int) {
	for _, sk := range r.skips {
		n += sk[1]
	}
	return n
}

func (r *vConnRun) spos(i int) int {
	for _, sk := range r.skips {
		if sk[0] <= i {
			i += sk[1]
		}
	}
	return i
}

// consume n bytes through the Reader API (blocking if needed) and check them against the stream
func (r *vConnRun) consume(n int, timed bool) error {
	if n < 0 {
		n = r.c.Reader().Len()
		if n == 0 {
			return nil
		}
	}
	r.ev("Call", "Next", n, r.inLen(), map[bool]string{true: "pastdl", false: ""}[r.pastDeadline])
	if r.pastDeadline {
		r.ev("TimerFire", "read", 0, 0, "")
	}
	p, err := r.c.Reader().Next(n)
	ok := 1
	if err == nil {
		if len(p) != n {
			ok = 0
		}
		for i := range p {
			if p[i] != vStreamByte(r.spos(r.rdpos+i)) {
				ok = 0
				break
			}
		}
		r.rdpos += len(p)
	}
	if err != nil {
		ok = r.inLen()
	}
	r.ev("Ret", "Next", n, ok, vErrClass(err))
	if err == nil {
		r.c.Reader().Release()
	}
	return err
}

// until reads one line; ok means: exactly the bytes up to and including the next delimiter of the stream
func (r *vConnRun) until() error {
	r.inUntil = true
	r.ev("Call", "Until", 0, r.inLen(), "")
	p, err := r.c.Reader().Until('\n')
	r.inUntil = false
	ok := 1
	want := 7 - r.rdpos%7
	if err == nil && len(p) != want {
		ok = 0
	}
	for i := range p {
		if p[i] != vStreamByte(r.spos(r.rdpos+i)) {
			ok = 0
			break
		}
	}
	r.rdpos += len(p)
	r.ev("Ret", "Until", len(p), ok, vErrClass(err))
	if err == nil {
		r.c.Reader().Release()
	}
	return err
}

func (r *vConnRun) write(n int) error {
	r.ev("Call", "Write", n, 0, "")
	buf := make([]byte, n)
	for i := range buf {
		buf[i] = vStreamByte(r.wrpos + i)
	}
	w, err := r.c.Write(buf)
	if err == nil {
		r.wrpos += n
	}
	r.ev("Ret", "Write", w, r.peerPending(), vErrClass(err))
	return err
}

// bytes the kernel holds for the peer that the peer has not read yet (what was really accepted)
func (r *vConnRun) peerPending() int {
	n, err := vIoctlInt(r.peer, syscall.TIOCINQ)
	if err != nil {
		return -1
	}
	return n
}

func (r *vConnRun) handler(ctx context.Context, conn Connection) error {
	idx := r.reqN
	r.reqN++
	r.ev("CbStart", "request", r.inLen(), 0, "")
	if r.userClosed {
		// this user closed the connection from a callback: it has satisfied the handler contract
		// ("read everything or close") and does not touch the connection again
		r.ev("CbEnd", "request", 0, 0, "")
		return nil
	}
	st := vHandlerStep{Consume: -1, Then: "return"}
	if len(r.sc.Handler) > 0 {
		if idx < len(r.sc.Handler) {
			st = r.sc.Handler[idx]
		} else {
			st = r.sc.Handler[len(r.sc.Handler)-1]
		}
	}
	defer func() {
		if x := recover(); x != nil {
			r.ev("CbEnd", "request", 0, 1, "")
			panic(x)
		}
		r.ev("CbEnd", "request", 0, 0, "")
	}()
	if st.Need > 0 {
		if r.inLen() < st.Need {
			// incomplete request: leave it in the buffer and return (netpoll calls the handler again while input is buffered)
			r.emptyRuns++
			if r.emptyRuns%2 == 0 {
				// (every other time the handler has taken so long that the rest may have arrived meanwhile)
				need := st.Need
				r.s.BlockUntil(func() bool { return r.inLen() >= need || !r.c.IsActiveRaw() || r.emptyRuns > 40 })
			} else {
				r.s.Yield()
			}
			return nil
		}
		st.Consume = st.Need
	}
	if err := r.consume(st.Consume, false); err != nil {
		// a handler that cannot read what it needs gives up on the connection (the documented
		// contract: consume everything or close), whatever the script says
		r.apiClose("Close")
		return nil
	}
	switch st.Then {
	case "close":
		r.apiClose("Close")
	case "panic":
		panic("verif: handler panic")
	case "yield":
		r.s.Yield()
	}
	return nil
}

func (r *vConnRun) apiClose(which string) {
	if a := r.s.lookup(vGID()); a != nil && (strings.HasPrefix(a.name, "task") || a.name == "acceptor") {
		r.userClosed = true
	}
	r.ev("Call", which, 0, 0, "")
	var err error
	if which == "Detach" {
		err = r.c.Detach()
	} else {
		err = r.c.Close()
	}
	r.ev("Ret", which, 0, 0, vErrClass(err))
}

func (r *vConnRun) options() *options {
	sc := r.sc
	o := &options{}
	if sc.OnConn {
		o.onConnect = func(ctx context.Context, conn Connection) context.Context {
			r.ev("CbStart", "connect", 0, 0, "")
			switch sc.ConnBody {
			case "close":
				r.apiClose("Close")
			case "yield":
				r.s.Yield()
			case "readclose":
				// OnConnect waits for the first byte and closes the connection if the peer went away
				if _, err := r.c.Reader().Peek(1); err != nil {
					r.ev("Ret", "Peek", 1, r.inLen(), vErrClass(err))
					r.apiClose("Close")
				}
			}
			r.ev("CbEnd", "connect", 0, 0, "")
			return ctx
		}
	}
	if sc.OnDisc {
		o.onDisconnect = func(ctx context.Context, conn Connection) {
			r.ev("CbStart", "disconnect", 0, 0, "")
			if sc.DiscBody == "waitwriters" {
				// an application that joins its writer goroutines in OnDisconnect: they must have been woken by then
				r.s.BlockUntil(func() bool { return atomic.LoadInt32(&r.writersLeft) == 0 })
			}
			if sc.DiscBody == "waitreaders" {
				// ... or its reader goroutines: a reader blocked when the peer closed must be woken before (not by) the callback's return
				r.s.BlockUntil(func() bool { return atomic.LoadInt32(&r.readersLeft) == 0 })
			}
			r.ev("CbEnd", "disconnect", 0, 0, "")
		}
	}
	if sc.OnReq && !sc.LateReq {
		o.onRequest = r.handler
	}
	if sc.OnPrep {
		o.onPrepare = func(conn Connection) context.Context {
			r.ev("CbStart", "prepare", 0, 0, "")
			for i := 1; i <= sc.NCloseCb; i++ {
				k := fmt.Sprintf("close%d", i)
				conn.AddCloseCallback(func(Connection) error {
					r.ev("CbStart", k, r.inLen(), 0, "")
					r.ev("CbEnd", k, 0, 0, "")
					return nil
				})
			}
			if sc.PrepBody == "close" {
				r.apiClose("Close")
			}
			r.ev("CbEnd", "prepare", 0, 0, "")
			return context.Background()
		}
	}
	return o
}

func (r *vConnRun) runActor(a vActorSpec) {
	for _, op := range a.Ops {
		name := op[0].(string)
		arg := 0
		if len(op) > 1 {
			arg = int(op[1].(float64))
		}
		switch name {
		case "Close", "Detach":
			r.apiClose(name)
		case "Next":
			r.c.SetReadTimeout(0)
			r.consume(arg, false)
		case "NextT":
			r.c.SetReadTimeout(time.Hour) // fired by the scheduler only
			r.consume(arg, true)
		case "NextD":
			// a read whose absolute deadline has already passed: it succeeds if the bytes are buffered, else it times out at once
			r.c.SetReadTimeout(0)
			r.c.SetReadDeadline(time.Now().Add(-time.Millisecond))
			r.pastDeadline = true
			r.consume(arg, true)
			r.pastDeadline = false
			r.c.SetReadDeadline(time.Time{})
		case "Until":
			r.c.SetReadTimeout(0)
			r.until()
		case "WaitOut":
			// wait until the poller has sent everything an earlier (timed-out) flush left in the output buffer
			r.s.BlockUntil(func() bool { return r.outLen() == 0 || !r.c.IsActiveRaw() })
		case "Write":
			r.c.SetWriteTimeout(0)
			r.write(arg)
		case "WriteT":
			r.c.SetWriteTimeout(time.Hour)
			r.write(arg)
		case "AppendV":
			// k small separately-built buffers appended (the mux pattern: one node each) and one Flush
			k, size := arg, int(op[2].(float64))
			r.c.SetWriteTimeout(0)
			r.ev("Call", "Write", k*size, 0, "")
			var err error
			for i := 0; i < k && err == nil; i++ {
				lb := NewLinkBuffer()
				buf, _ := lb.Malloc(size)
				for j := range buf {
					buf[j] = vStreamByte(r.wrpos + i*size + j)
				}
				err = r.c.Writer().Append(lb)
			}
			if err == nil {
				err = r.c.Writer().Flush()
			}
			if err == nil {
				r.wrpos += k * size
			}
			r.ev("Ret", "Write", k*size, r.peerPending(), vErrClass(err))
		case "WriteV":
			// k caller-memory payloads (> 4 KiB each, so each becomes its own node) and one Flush
			k, size := arg, int(op[2].(float64))
			r.c.SetWriteTimeout(0)
			r.ev("Call", "Write", k*size, 0, "")
			var err error
			for i := 0; i < k && err == nil; i++ {
				buf := make([]byte, size)
				for j := range buf {
					buf[j] = vStreamByte(r.wrpos + i*size + j)
				}
				_, err = r.c.Writer().WriteBinary(buf)
			}
			if err == nil {
				err = r.c.Writer().Flush()
			}
			if err == nil {
				r.wrpos += k * size
			}
			r.ev("Ret", "Write", k*size, r.peerPending(), vErrClass(err))
		case "Release":
			r.ev("Call", "Release", 0, 0, "")
			err := r.c.Release()
			r.ev("Ret", "Release", 0, 0, vErrClass(err))
		case "IsActive":
			v := 0
			if r.c.IsActive() {
				v = 1
			}
			r.ev("IsActive", "", v, 0, "")
		case "SetOnRequest":
			r.ev("Call", "SetOnRequest", 0, 0, "")
			r.c.SetOnRequest(r.handler)
			r.ev("Ret", "SetOnRequest", 0, 0, "nil")
		case "Yield":
			r.s.Yield()
		}
	}
}

func vIoctlInt(fd int, req uint) (int, error) {
	var v int32
	_, _, e := syscall.Syscall(syscall.SYS_IOCTL, uintptr(fd), uintptr(req), uintptr(vPtr(&v)))
	if e != 0 {
		return 0, e
	}
	return int(v), nil
}

func vRunConnScenario(sc *vScenario) (out []vOutEvent, info map[string]interface{}) {
	info = map[string]interface{}{"id": sc.ID}
	s := vNewSched(sc.Seed)
	s.maxSteps = 2500
	if sc.Strategy == "pct" {
		s.UsePCT(3, 60)
	}
	s.plan = sc.Plan
	s.stallName, s.stallPt, s.stallOcc = sc.StallName, int32(sc.StallPt), sc.StallOcc
	s.untilName, s.untilPt, s.untilOcc = sc.UntilName, int32(sc.UntilPt), sc.UntilOcc
	r := &vConnRun{sc: sc, s: s}
	s.emit = r.ev
	mp := vNewManualPoll(s, "poller")
	r.mp = mp
	restore := vInstallPolls(mp)
	defer restore()
	oldRunner := runner.RunTask
	defer func() { runner.RunTask = oldRunner }()
	taskN := 0
	runner.RunTask = func(ctx context.Context, f func()) {
		taskN++
		name := fmt.Sprintf("task%d", (taskN-1)%20+1) // (the observable spec knows twenty task names; tasks are short-lived)
		s.Go(name, func() {
			defer func() {
				if x := recover(); x != nil {
					// the library lets a handler panic propagate (to the goroutine pool, which logs it)
					r.panicked = fmt.Sprint(x)
					if !strings.HasPrefix(r.panicked, "verif: handler panic") {
						r.ev("Panic", name, 0, 0, r.panicked+" | "+vShortStack())
					}
				}
			}()
			f()
		})
	}

	fds, err := syscall.Socketpair(syscall.AF_UNIX, syscall.SOCK_STREAM, 0)
	if err != nil {
		panic(err)
	}
	r.peer = fds[1]
	syscall.SetNonblock(r.peer, true)
	if sc.SndBuf > 0 {
		syscall.SetsockoptInt(fds[0], syscall.SOL_SOCKET, syscall.SO_SNDBUF, sc.SndBuf)
		syscall.SetsockoptInt(fds[1], syscall.SOL_SOCKET, syscall.SO_RCVBUF, sc.SndBuf)
	}
	peerOpen := true
	defer func() {
		if peerOpen {
			syscall.Close(r.peer)
		}
	}()

	// hooks must be live during init so that FdOpen/SlotAlloc events are seen; init runs on this
	// (non-actor) goroutine and therefore never parks
	vCur = s
	verifHook = s.hook
	defer func() { verifHook = nil }()

	c := &connection{}
	r.c = c
	nfd := &netFD{fd: fds[0], network: "unix"}
	if sc.Kind != "fd" {
		nfd.localAddr, nfd.remoteAddr = &UnixAddr{}, &UnixAddr{}
	}
	cfg := 0
	if sc.OnConn {
		cfg |= 1
	}
	if sc.OnDisc {
		cfg |= 2
	}
	if sc.OnReq && !sc.LateReq {
		cfg |= 4
	}
	if sc.OnPrep {
		cfg |= 8
	}
	r.ev("Init", sc.Kind, cfg, sc.NCloseCb, "")
	r.ev("FdOpen", "1", fds[0], 0, "")

	// the acceptor/dialer actor performs init (OnPrepare, register) and onConnect() like server.onAccept / dial do
	s.Go("acceptor", func() {
		if err := c.init(nfd, r.options()); err != nil {
			r.ev("InitErr", "", 0, 0, vErrClass(err))
			return
		}
		if !sc.OnPrep {
			for i := 1; i <= sc.NCloseCb; i++ {
				k := fmt.Sprintf("close%d", i)
				c.AddCloseCallback(func(Connection) error {
					r.ev("CbStart", k, r.inLen(), 0, "")
					r.ev("CbEnd", k, 0, 0, "")
					return nil
				})
			}
		}
		r.ev("Registered", "", 0, 0, "")
		if sc.Kind == "server" {
			if !c.IsActive() {
				r.ev("Dropped", "", 0, 0, "")
				return
			}
			c.onConnect()
		} else {
			// dialed connections: NewConnection... runs OnConnect the same way when configured
			c.onConnect()
		}
		r.ev("Accepted", "", 0, 0, "")
	})
	mp.start()
	r.writersLeft = int32(r.writers())
	for _, a := range sc.Actors {
		if vIsReader(a) {
			r.readersLeft++
		}
	}
	for _, a := range sc.Actors {
		a := a
		s.Go(a.Name, func() {
			if vIsReader(a) {
				defer atomic.AddInt32(&r.readersLeft, -1)
			}
			// user goroutines only touch the connection once it has been handed out
			defer func() {
				if x := recover(); x != nil {
					r.ev("Panic", a.Name, 0, 0, fmt.Sprint(x)+" | "+vShortStack())
				}
			}()
			s.BlockUntil(func() bool { return r.accepted() })
			r.runActor(a)
			if vIsWriter(a) {
				atomic.AddInt32(&r.writersLeft, -1)
			}
		})
	}
	// the peer script is an ordered environment action
	pi := 0
	s.AddEnv("peer", len(sc.Peer), func() bool {
		if pi >= len(sc.Peer) || !r.registered() {
			return false
		}
		// a draining peer reads when there is something to read
		if sc.Peer[pi][0].(string) == "drain" && r.peerPending() <= 0 {
			return false
		}
		// a peer that sends its next message only once the previous one has been taken off the socket
		if sc.Peer[pi][0].(string) == "sendsync" {
			if n, err := vIoctlInt(c.fd, syscall.TIOCINQ); err != nil || n > 0 {
				return false
			}
		}
		return true
	}, func() {
		op := sc.Peer[pi]
		pi++
		switch op[0].(string) {
		case "send", "sendsync":
			n := int(op[1].(float64))
			buf := make([]byte, n)
			for i := range buf {
				buf[i] = vStreamByte(r.sent + i)
			}
			w, _ := syscall.Write(r.peer, buf)
			if w < 0 {
				w = 0
			}
			r.sent += w
			r.ev("PeerSend", "", w, 0, "")
		case "close":
			syscall.Close(r.peer)
			peerOpen = false
			r.ev("PeerClose", "", 0, 0, "")
		case "shutwr":
			syscall.Shutdown(r.peer, syscall.SHUT_WR)
			r.ev("PeerClose", "shutwr", 0, 0, "")
		case "rst":
			syscall.SetsockoptLinger(r.peer, syscall.SOL_SOCKET, syscall.SO_LINGER, &syscall.Linger{Onoff: 1, Linger: 0})
			syscall.Close(r.peer)
			peerOpen = false
			r.ev("PeerClose", "rst", 0, 0, "")
		case "drain":
			n := int(op[1].(float64))
			buf := make([]byte, n)
			got, _ := syscall.Read(r.peer, buf)
			ok := 1
			if got < 0 {
				got = 0
			}
			for i := 0; i < got; i++ {
				if buf[i] != vStreamByte(r.prd+i) {
					ok = 0
				}
			}
			if r.writers() > 1 {
				// two writing actors: each builds its payload from the stream position it saw when it started; which of the
				// two Writes is first on the wire is not determined by that, so the content is not judged (amounts still are)
				ok = 1
			}
			r.prd += got
			r.ev("PeerDrain", "", got, ok, "")
		}
	})
	if sc.HoldSetup {
		s.holdPrefer = []string{"acceptor"}
		s.holdUntil = func() bool {
			if !r.accepted() {
				return false
			}
			s.mu.Lock()
			defer s.mu.Unlock()
			for _, a := range s.list {
				if a.state == vStParked && (a.gate.pt == vpxStart || a.gate.pt == vpxBlockUntil) && !strings.HasPrefix(a.name, "task") && !strings.HasPrefix(a.name, "hup") {
					return false
				}
			}
			return true
		}
		s.projFn = func() []int32 {
			tick, rtick := 0, 0
			if c.writeTimer != nil {
				tick = len(c.writeTimer.C)
			}
			if c.readTimer != nil {
				rtick = len(c.readTimer.C)
			}
			fdPend := -1
			if vLoad32(&c.keychain[closing]) == 0 {
				if n, err := vIoctlInt(c.fd, syscall.TIOCINQ); err == nil {
					fdPend = n
				}
			}
			opst, det := int32(1), int32(0)
			if c.operator != nil {
				opst = atomic.LoadInt32(&c.operator.state)
				det = atomic.LoadInt32(&c.operator.detached)
			}
			return []int32{vLoad32(&c.keychain[flushing]), int32(len(c.writeTrigger)), int32(r.outLen()), int32(r.peerPending()), int32(tick),
				int32(len(c.readTrigger)), int32(r.inLen()), int32(atomic.LoadInt64(&c.waitReadSize)), vLoad32(&c.keychain[closing]), opst, int32(rtick), int32(fdPend),
				vLoad32(&c.keychain[connecting]), vLoad32(&c.keychain[processing]), atomic.LoadInt32(&c.state), det}
		}
	}
	if sc.Steals > 0 {
		s.AddEnv("steal", sc.Steals, func() bool {
			if !r.registered() || !peerOpen {
				return false
			}
			mid := false
			s.mu.Lock()
			for _, a := range s.list {
				if a.name == "poller" && a.state == vStParked && (a.gate.pt == vpHandlerEvent || a.gate.pt == vpOpDo) {
					mid = true
				}
			}
			s.mu.Unlock()
			if !mid {
				return false
			}
			// only when the node being filled has room beyond one booking (that is when a lost booking matters):
			// a backlog larger than bookSize has been buffered in reads that never filled a whole booking
			if w := c.inputBuffer.write; w == nil || cap(w.buf)-w.malloc <= c.bookSize {
				return false
			}
			n, err := vIoctlInt(c.fd, syscall.TIOCINQ)
			return err == nil && n > 0
		}, func() {
			unread, _ := vIoctlInt(c.fd, syscall.TIOCINQ)
			buf := make([]byte, unread)
			got, _ := syscall.Read(c.fd, buf)
			if got > 0 {
				r.skips = append(r.skips, [2]int{r.sent - unread, got})
				r.ev("PeerSteal", "", got, 0, "")
			}
		})
	}
	s.AddTimerEnv("rtimer", c, false, 2)
	s.AddTimerEnv("wtimer", c, true, 2)
	if sc.EagerTimers {
		for _, e := range s.envs {
			e.lazy = false
		}
	}

	s.Run()

	// quiescent point: nothing is enabled any more
	for _, a := range s.blockedAtEnd {
		kind, need := "other", 0
		switch a.gate.pt {
		case vpWaitRead, vpWaitReadT:
			kind, need = "read", int(a.gate.a)
			if r.inUntil && a.name == "reader" {
				// a line reader waits for more input: legitimate only if no delimiter is buffered
				kind, need = "until", 0
				for _, b := range vReadable(c.inputBuffer) {
					if b == '\n' {
						need = 1
					}
				}
			}
		case vpWaitWrite, vpWaitWriteT:
			kind, need = "write", r.outLen()
		case vpStopSpin, vpOpInuseSpin, vpOpUnusedSpin:
			kind = "spin"
		case vpTimerDrainR, vpTimerDrainW:
			kind = "timerdrain"
		case vpxBlockUntil:
			kind = "harness"
		}
		incb := 0
		if strings.HasPrefix(a.name, "task") || strings.HasPrefix(a.name, "hup") {
			incb = 1
		}
		r.out = append(r.out, vOutEvent{E: "Blocked", G: a.name, K: kind, N: need, M: incb})
	}
	blocked := ""
	for _, a := range s.blockedAtEnd {
		blocked += fmt.Sprintf("%s@%d ", a.name, a.gate.pt)
	}
	inlen := r.inLen()
	dl := 0
	if s.deadlock {
		dl = 1
	}
	pp := -1
	if peerOpen {
		pp = r.peerPending()
	}
	r.out = append(r.out, vOutEvent{E: "SockState", G: "env", N: pp, M: r.outLen()})
	r.out = append(r.out, vOutEvent{E: "Quiescent", G: "env", K: strings.TrimSpace(blocked), N: inlen, M: dl, Err: s.stuck})
	info["steps"] = len(s.taken)
	info["drift"] = s.drift
	info["taken"] = s.taken
	info["gates"] = s.gateLog
	info["stalled"] = s.stalled
	info["stuck"] = s.stuck
	info["deadlock"] = s.deadlock
	if sc.HoldSetup {
		info["hold"] = s.holdSteps
		info["proj"] = s.projLog
	}
	mp.close()
	return r.out, info
}

// inLen reads the published input length without passing a schedule point (Len() is one)
func (r *vConnRun) inLen() int {
	if r.c.inputBuffer == nil {
		return 0
	}
	return int(atomic.LoadInt64(&r.c.inputBuffer.length))
}

func (r *vConnRun) outLen() int {
	if r.c.outputBuffer == nil {
		return 0
	}
	return int(atomic.LoadInt64(&r.c.outputBuffer.length))
}

func (r *vConnRun) has(e string) bool {
	r.mu.Lock()
	defer r.mu.Unlock()
	for i := range r.out {
		if r.out[i].E == e {
			return true
		}
	}
	return false
}
func (r *vConnRun) registered() bool { return r.has("Registered") || r.has("InitErr") }
func (r *vConnRun) accepted() bool {
	return r.has("Accepted") || r.has("Dropped") || r.has("InitErr")
}

func vShortStack() string {
	st := string(debug.Stack())
	lines := strings.Split(st, "\n")
	var keep []string
	for _, l := range lines {
		if strings.Contains(l, "netpoll.") && !strings.Contains(l, "verif") {
			keep = append(keep, strings.TrimSpace(l))
		}
		if len(keep) >= 4 {
			break
		}
	}
	return strings.Join(keep, " < ")
}

func TestVerifConnScenarios(t *testing.T) {
	in, outp := os.Getenv("VERIF_IN"), os.Getenv("VERIF_OUT")
	if in == "" || outp == "" {
		t.Skip("VERIF_IN/VERIF_OUT not set")
	}
	if !vWaitMirrorOK() {
		t.Fatal("defaultPoll.Wait no longer has the loop body the manual poller mirrors")
	}
	raw, err := os.ReadFile(in)
	if err != nil {
		t.Fatal(err)
	}
	var wo struct {
		Scenarios []vScenario `json:"scenarios"`
	}
	if err := json.Unmarshal(raw, &wo); err != nil {
		t.Fatal(err)
	}
	f, err := os.Create(outp)
	if err != nil {
		t.Fatal(err)
	}
	defer f.Close()
	enc := json.NewEncoder(f)
	for i := range wo.Scenarios {
		evs, info := vRunConnScenario(&wo.Scenarios[i])
		enc.Encode(map[string]interface{}{"scenario": wo.Scenarios[i].ID, "info": info, "events": evs})
	}
}
