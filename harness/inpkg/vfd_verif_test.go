//go:build verif
// +build verif

package netpoll

// Descriptor lifecycles (C15), free-running with the stock pollers: listeners (created and
// converted), event loops with clients, dials that succeed / are refused / time out, NewFDConnection,
// detach, pollers opened and closed - several lifecycles at once plus a foreign goroutine that
// churns its own descriptors (so a freed number is re-issued at once) and checks by inode that none
// of them was closed under it.  The audit points (vpFdOpen/vpFdClose) are recorded in emission order
// and validated by TLC against FdTable.tla; /proc/self/fd is compared before and after.

import (
	"context"
	"encoding/json"
	"fmt"
	"math/rand"
	"net"
	"os"
	"sync"
	"sync/atomic"
	"syscall"
	"testing"
	"time"
	"unsafe"
)

type vFdProgram struct {
	ID    string   `json:"id"`
	Seed  int64    `json:"seed"`
	Kinds []string `json:"kinds"` // lifecycles run concurrently
}

type vFdRec struct {
	mu  sync.Mutex
	evs []vOutEvent
}

func (r *vFdRec) ev(e, k string, n, m int, err string) {
	r.mu.Lock()
	r.evs = append(r.evs, vOutEvent{E: e, K: k, N: n, M: m, Err: err})
	r.mu.Unlock()
}

func vOpenFds() map[int]string {
	out := map[int]string{}
	ents, _ := os.ReadDir("/proc/self/fd")
	for _, e := range ents {
		var n int
		fmt.Sscan(e.Name(), &n)
		l, err := os.Readlink("/proc/self/fd/" + e.Name())
		if err == nil {
			out[n] = l
		}
	}
	return out
}

func vInode(fd int) (uint64, bool) {
	var st syscall.Stat_t
	if err := syscall.Fstat(fd, &st); err != nil {
		return 0, false
	}
	return st.Ino, true
}

func vFdLifecycle(kind string, rnd *rand.Rand, rec *vFdRec) {
	defer func() {
		if x := recover(); x != nil {
			rec.ev("Panic", kind, 0, 0, fmt.Sprint(x))
		}
	}()
	sock := fmt.Sprintf("/tmp/verif-fd-%d-%d.sock", os.Getpid(), rnd.Int63())
	defer os.Remove(sock)
	switch kind {
	case "listener":
		netw, addr := "tcp", "127.0.0.1:0"
		if rnd.Intn(2) == 0 {
			netw, addr = "unix", sock
		}
		ln, err := CreateListener(netw, addr)
		if err != nil {
			return
		}
		if rnd.Intn(3) == 0 {
			ln.Close()
		}
		ln.Close()
	case "convert":
		l, err := net.Listen("tcp", "127.0.0.1:0")
		if err != nil {
			return
		}
		ln, err := ConvertListener(l)
		if err != nil {
			l.Close()
			return
		}
		switch rnd.Intn(3) {
		case 0: // the application closes its own listener first (e.g. a deferred Close running before Shutdown): the duplicate is still netpoll's
			l.Close()
			ln.Close()
		case 1:
			ln.Close()
			l.Close()
		default:
			ln.Close()
		}
	case "serve":
		ln, err := CreateListener("tcp", "127.0.0.1:0")
		if err != nil {
			return
		}
		el, _ := NewEventLoop(func(ctx context.Context, c Connection) error {
			n := c.Reader().Len()
			c.Reader().Skip(n)
			c.Reader().Release()
			if rnd.Intn(3) == 0 {
				c.Close()
			}
			return nil
		})
		go el.Serve(ln)
		time.Sleep(time.Millisecond)
		var conns []Connection
		for i := 0; i < 1+rnd.Intn(4); i++ {
			c, err := DialConnection("tcp", ln.Addr().String(), time.Second)
			if err != nil {
				continue
			}
			c.Writer().WriteString("ping")
			c.Writer().Flush()
			conns = append(conns, c)
		}
		time.Sleep(2 * time.Millisecond)
		for i, c := range conns {
			if i%2 == 0 {
				c.Close()
			}
		}
		ctx, cancel := context.WithTimeout(context.Background(), 300*time.Millisecond)
		el.Shutdown(ctx)
		cancel()
		for _, c := range conns {
			c.Close()
		}
		time.Sleep(2 * time.Millisecond)
	case "dialrefused":
		l, _ := net.Listen("tcp", "127.0.0.1:0")
		addr := l.Addr().String()
		l.Close()
		c, err := DialConnection("tcp", addr, 200*time.Millisecond)
		if err == nil && c != nil {
			c.Close()
		}
	case "dialtimeout":
		// a listener whose accept queue is full never completes the handshake
		fd, _ := syscall.Socket(syscall.AF_INET, syscall.SOCK_STREAM, 0)
		defer syscall.Close(fd)
		syscall.Bind(fd, &syscall.SockaddrInet4{Addr: [4]byte{127, 0, 0, 1}})
		syscall.Listen(fd, 0)
		sa, _ := syscall.Getsockname(fd)
		port := sa.(*syscall.SockaddrInet4).Port
		addr := fmt.Sprintf("127.0.0.1:%d", port)
		var held []net.Conn
		for i := 0; i < 3; i++ {
			if c, err := net.DialTimeout("tcp", addr, 20*time.Millisecond); err == nil {
				held = append(held, c)
			}
		}
		c, err := DialConnection("tcp", addr, time.Duration(1+rnd.Intn(20))*time.Millisecond)
		if err == nil && c != nil {
			c.Close()
		}
		for _, h := range held {
			h.Close()
		}
	case "dialunix":
		l, err := net.Listen("unix", sock)
		if err != nil {
			return
		}
		go func() {
			c, err := l.Accept()
			if err == nil {
				time.Sleep(2 * time.Millisecond)
				c.Close()
			}
		}()
		c, err := DialConnection("unix", sock, time.Second)
		if err == nil && c != nil {
			c.Close()
		}
		l.Close()
	case "fdconn":
		fds, err := syscall.Socketpair(syscall.AF_UNIX, syscall.SOCK_STREAM, 0)
		if err != nil {
			return
		}
		rec.ev("FdOpen", "adopt", fds[0], 0, "")
		c, err := NewFDConnection(fds[0])
		if err != nil {
			syscall.Close(fds[1])
			return
		}
		if rnd.Intn(3) == 0 {
			// peer closes first: the connection is only marked closed (no callbacks set); the user still closes it
			syscall.Close(fds[1])
			time.Sleep(2 * time.Millisecond)
			c.Close()
		} else {
			c.Close()
			if rnd.Intn(2) == 0 {
				c.Close()
			}
			syscall.Close(fds[1])
		}
	case "detach":
		fds, err := syscall.Socketpair(syscall.AF_UNIX, syscall.SOCK_STREAM, 0)
		if err != nil {
			return
		}
		rec.ev("FdOpen", "adopt", fds[0], 0, "")
		c, err := NewFDConnection(fds[0])
		if err != nil {
			syscall.Close(fds[1])
			return
		}
		c.(*connection).Detach()
		rec.ev("FdRelease", "", fds[0], 0, "")
		c.Close()
		syscall.Close(fds[0])
		syscall.Close(fds[1])
	case "fdconn_badfd":
		// registration fails (epoll refuses a regular file): the error path must close the descriptor exactly once
		f, err := os.CreateTemp("", "verif-fd")
		if err != nil {
			return
		}
		defer os.Remove(f.Name())
		nfd, err := syscall.Dup(int(f.Fd()))
		f.Close()
		if err != nil {
			return
		}
		rec.ev("FdOpen", "adopt", nfd, 0, "")
		c, err := NewFDConnection(nfd)
		if err == nil && c != nil {
			c.Close()
		}
	case "poller_nofile":
		// one descriptor short: epoll_create succeeds, eventfd fails; the epoll descriptor must not be left behind
		var lim syscall.Rlimit
		if syscall.Getrlimit(syscall.RLIMIT_NOFILE, &lim) != nil {
			return
		}
		var hold []int
		defer func() {
			for _, h := range hold {
				syscall.Close(h)
			}
		}()
		max := 0
		for fd := range vOpenFds() {
			if fd > max {
				max = fd
			}
		}
		// fill every free number below the cap except one
		newLim := lim
		newLim.Cur = uint64(max + 40)
		if syscall.Setrlimit(syscall.RLIMIT_NOFILE, &newLim) != nil {
			return
		}
		for {
			h, err := syscall.Open("/dev/null", syscall.O_RDONLY, 0)
			if err != nil {
				break
			}
			hold = append(hold, h)
		}
		if len(hold) > 0 {
			syscall.Close(hold[len(hold)-1])
			hold = hold[:len(hold)-1]
		}
		p, err := openDefaultPoll()
		syscall.Setrlimit(syscall.RLIMIT_NOFILE, &lim)
		if err == nil {
			// not short after all (another goroutine freed a number): close it properly
			done := make(chan struct{})
			go func() { p.Wait(); close(done) }()
			p.Close()
			<-done
		}
	case "poller":
		p, err := openDefaultPoll()
		if err != nil {
			return
		}
		done := make(chan struct{})
		// the close message may meet wake-up messages that are still in the eventfd (written before the loop has drained them)
		pre := rnd.Intn(3)
		for i := 0; i < pre; i++ {
			p.Trigger()
		}
		if rnd.Intn(2) == 0 {
			p.Close() // before the loop even starts
			go func() { p.Wait(); close(done) }()
		} else {
			go func() { p.Wait(); close(done) }()
			time.Sleep(time.Duration(rnd.Intn(1000)) * time.Microsecond)
			p.Trigger()
			p.Close()
		}
		select {
		case <-done:
		case <-time.After(2 * time.Second):
			rec.ev("Panic", "poller loop did not stop", 0, 0, "")
		}
	}
}

func vRunFdProgram(pg *vFdProgram) []vOutEvent {
	rec := &vFdRec{}
	rnd := rand.New(rand.NewSource(pg.Seed))
	// make sure the global pollers exist before the baseline is taken
	Initialize()
	// ... and the Go runtime's own poller descriptors (created on first use of net / os.File polling)
	if l, err := net.Listen("tcp", "127.0.0.1:0"); err == nil {
		if c, err := net.Dial("tcp", l.Addr().String()); err == nil {
			c.Close()
		}
		l.Close()
	}
	if pr, pw, err := os.Pipe(); err == nil {
		pr.Close()
		pw.Close()
	}
	time.Sleep(2 * time.Millisecond)
	before := vOpenFds()
	rec.ev("Init", "", 0, 0, "")
	verifHook = func(pt int32, obj unsafe.Pointer, a, b int64) {
		switch pt {
		case vpFdOpen:
			rec.ev("FdOpen", fmt.Sprint(b), int(a), 0, "")
		case vpFdClose:
			if b == 3 && obj != nil {
				// closing through an os.File is idempotent: a File that is already closed closes nothing
				if f := (*os.File)(obj); f.Fd() == ^uintptr(0) {
					return
				}
			}
			o := 0
			if vFdIsOpen(int(a)) {
				o = 1
			}
			rec.ev("FdClose", fmt.Sprint(b), int(a), o, "")
		}
	}
	// foreign churn
	var stop int32
	var destroyed int32
	var fwg sync.WaitGroup
	for g := 0; g < 3; g++ {
		fwg.Add(1)
		go func(g int) {
			defer fwg.Done()
			for atomic.LoadInt32(&stop) == 0 {
				var p [2]int
				if err := syscall.Pipe(p[:]); err != nil {
					continue
				}
				i0, _ := vInode(p[0])
				i1, _ := vInode(p[1])
				time.Sleep(time.Duration(50+g*37) * time.Microsecond)
				if j0, ok := vInode(p[0]); !ok || j0 != i0 {
					atomic.AddInt32(&destroyed, 1)
				}
				if j1, ok := vInode(p[1]); !ok || j1 != i1 {
					atomic.AddInt32(&destroyed, 1)
				}
				syscall.Close(p[0])
				syscall.Close(p[1])
			}
		}(g)
	}
	var wg sync.WaitGroup
	for i, k := range pg.Kinds {
		wg.Add(1)
		r := rand.New(rand.NewSource(pg.Seed*31 + int64(i)))
		go func(k string) {
			defer wg.Done()
			vFdLifecycle(k, r, rec)
		}(k)
	}
	wg.Wait()
	atomic.StoreInt32(&stop, 1)
	fwg.Wait()
	_ = rnd
	// give asynchronous teardown (hang-up goroutines, poller exits) time to finish
	leaked := 0
	for i := 0; i < 200; i++ {
		time.Sleep(2 * time.Millisecond)
		after := vOpenFds()
		leaked = 0
		for fd, l := range after {
			if _, was := before[fd]; !was {
				leaked++
				_ = l
			}
		}
		if leaked == 0 {
			break
		}
	}
	verifHook = nil
	rec.ev("Final", "", leaked, int(atomic.LoadInt32(&destroyed)), "")
	return rec.evs
}

func TestVerifFdPrograms(t *testing.T) {
	in, outp := os.Getenv("VERIF_IN"), os.Getenv("VERIF_OUT")
	if in == "" || outp == "" {
		t.Skip("VERIF_IN/VERIF_OUT not set")
	}
	raw, err := os.ReadFile(in)
	if err != nil {
		t.Fatal(err)
	}
	var wo struct {
		Programs []vFdProgram `json:"scenarios"`
	}
	if err := json.Unmarshal(raw, &wo); err != nil {
		t.Fatal(err)
	}
	f, err := os.Create(outp)
	if err != nil {
		t.Fatal(err)
	}
	defer f.Close()
	enc := json.NewEncoder(f)
	for i := range wo.Programs {
		evs := vRunFdProgram(&wo.Programs[i])
		enc.Encode(map[string]interface{}{"scenario": wo.Programs[i].ID, "info": map[string]interface{}{"taken": []string{}}, "events": evs})
	}
}
