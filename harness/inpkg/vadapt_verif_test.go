//go:build verif
// +build verif

package netpoll

// Replay of Adapters.tla behaviours (C16) against NewReader / NewWriter / NewIOReader / NewIOWriter with
// scripted io.Reader / io.Writer doubles.  Streams are position-coded (vStreamByte).

import (
	"encoding/json"
	"errors"
	"fmt"
	"io"
	"os"
	"testing"
)

type vAStep struct {
	Op     string        `json:"op"`
	N      int           `json:"n"`
	Start  int           `json:"start"`
	Len    int           `json:"len"`
	Err    string        `json:"err"`
	SStart int           `json:"sstart"`
	SLen   int           `json:"slen"`
	Src    []interface{} `json:"src"`
	Snk    []interface{} `json:"snk"`
}

type vABehaviour struct {
	ID    string   `json:"id"`
	Steps []vAStep `json:"steps"`
}

type vAOut struct {
	ID     string `json:"id"`
	OK     bool   `json:"ok"`
	Step   int    `json:"step"`
	Op     string `json:"op"`
	Class  string `json:"class"`
	Detail string `json:"detail"`
	Steps  int    `json:"steps"`
}

var vErrOther = errors.New("verif: scripted source/sink error")

type vScriptSrc struct {
	script [][2]interface{}
	pos    int
	calls  int
}

func (s *vScriptSrc) Read(p []byte) (int, error) {
	s.calls++
	if len(s.script) == 0 {
		return 0, io.EOF
	}
	h := s.script[0]
	s.script = s.script[1:]
	n := h[0].(int)
	if n > len(p) {
		n = len(p) // the spec's chunk sizes never exceed one 4 KiB booking
	}
	for i := 0; i < n; i++ {
		p[i] = vStreamByte(s.pos + i)
	}
	s.pos += n
	switch h[1].(string) {
	case "eof":
		return n, io.EOF
	case "other":
		return n, vErrOther
	}
	return n, nil
}

type vScriptSnk struct {
	script [][2]interface{}
	got    []byte
	last   []byte
	calls  int
}

func (s *vScriptSnk) Write(p []byte) (int, error) {
	if len(p) == 0 {
		return 0, nil
	}
	s.calls++
	s.last = append([]byte(nil), p...)
	if len(s.script) == 0 {
		s.got = append(s.got, p...)
		return len(p), nil
	}
	h := s.script[0]
	s.script = s.script[1:]
	a := h[0].(int)
	if a < 0 || a > len(p) {
		a = len(p)
	}
	s.got = append(s.got, p[:a]...)
	switch h[1].(string) {
	case "short":
		return a, io.ErrShortWrite
	case "other":
		return a, vErrOther
	}
	return a, nil
}

func vAErr(err error) string {
	switch {
	case err == nil:
		return "nil"
	case errors.Is(err, ErrEOF):
		return "eof"
	case err == io.EOF:
		return "ioeof"
	case errors.Is(err, io.ErrShortWrite):
		return "short"
	case errors.Is(err, vErrOther):
		return "other"
	}
	return "unexpected:" + err.Error()
}

func vRunAdapters(bh *vABehaviour) (out vAOut) {
	out = vAOut{ID: bh.ID, OK: true, Steps: len(bh.Steps)}
	src := &vScriptSrc{}
	snk := &vScriptSnk{}
	rd := NewReader(src)
	wr := NewWriter(snk)
	iow := NewIOWriter(wr)
	lb := NewLinkBuffer()
	ior := NewIOReader(lb)
	wpos, ipos := 0, 0 // next stream position written to the writer / filled into lb
	fail := func(i int, op, class, detail string) {
		out.OK, out.Step, out.Op, out.Class, out.Detail = false, i, op, class, detail
	}
	for i := range bh.Steps {
		st := &bh.Steps[i]
		var f string
		func() {
			defer func() {
				if x := recover(); x != nil {
					f = "panic: " + fmt.Sprint(x)
				}
			}()
			checkRead := func(p []byte, err error) {
				if e := vAErr(err); e != st.Err {
					f = fmt.Sprintf("error class %s, the spec says %s", e, st.Err)
					return
				}
				if err == nil {
					if len(p) != st.Len {
						f = fmt.Sprintf("got %d bytes, want %d", len(p), st.Len)
						return
					}
					for k := range p {
						if p[k] != vStreamByte(st.Start+k) {
							f = fmt.Sprintf("byte %d differs from stream position %d", k, st.Start+k)
							return
						}
					}
				}
			}
			switch st.Op {
			case "SrcPlan":
				src.script = append(src.script, [2]interface{}{int(st.Src[0].(float64)), st.Src[1].(string)})
			case "SnkPlan":
				snk.script = append(snk.script, [2]interface{}{int(st.Snk[0].(float64)), st.Snk[1].(string)})
			case "BurstNext":
				// the source hands out SStart pieces of SLen bytes; one Next needs (nearly) all of them
				for k := 0; k < st.SStart; k++ {
					src.script = append(src.script, [2]interface{}{st.SLen, "nil"})
				}
				p, err := rd.Next(st.N)
				checkRead(p, err)
			case "Next":
				p, err := rd.Next(st.N)
				checkRead(p, err)
			case "Peek":
				p, err := rd.Peek(st.N)
				checkRead(p, err)
			case "Skip":
				err := rd.Skip(st.N)
				if e := vAErr(err); e != st.Err {
					f = fmt.Sprintf("error class %s, the spec says %s", e, st.Err)
				}
			case "ReadBinary":
				p, err := rd.ReadBinary(st.N)
				checkRead(p, err)
			case "ReadString":
				s, err := rd.ReadString(st.N)
				checkRead([]byte(s), err)
			case "ReadByte":
				b, err := rd.ReadByte()
				if err != nil {
					checkRead(nil, err)
				} else {
					checkRead([]byte{b}, nil)
				}
			case "Slice":
				sl, err := rd.Slice(st.N)
				if err != nil {
					checkRead(nil, err)
				} else {
					p, e2 := sl.Next(st.N)
					checkRead(append([]byte(nil), p...), e2)
					sl.Release()
				}
			case "Release":
				rd.Release()
			case "Malloc":
				p, err := wr.Malloc(st.N)
				if err != nil || len(p) != st.N {
					f = fmt.Sprintf("Malloc(%d) = %d bytes, %v", st.N, len(p), err)
					return
				}
				for k := range p {
					p[k] = vStreamByte(wpos + k)
				}
				wpos += st.N
			case "WriteBinary", "WriteString":
				p := make([]byte, st.N)
				for k := range p {
					p[k] = vStreamByte(wpos + k)
				}
				var err error
				if st.Op == "WriteBinary" {
					_, err = wr.WriteBinary(p)
				} else {
					_, err = wr.WriteString(string(p))
				}
				if err != nil {
					f = st.Op + ": " + err.Error()
				}
				wpos += st.N
			case "WriteByte":
				if err := wr.WriteByte(vStreamByte(wpos)); err != nil {
					f = "WriteByte: " + err.Error()
				}
				wpos++
			case "MallocAck":
				drop := wr.MallocLen() - st.N
				if err := wr.MallocAck(st.N); err != nil {
					f = "MallocAck: " + err.Error()
				}
				wpos -= drop
			case "Flush", "IOWrite":
				calls := snk.calls
				var err error
				if st.Op == "IOWrite" {
					p := make([]byte, st.N)
					for k := range p {
						p[k] = vStreamByte(wpos + k)
					}
					wpos += st.N
					var n int
					n, err = iow.Write(p)
					// io.Writer: "Write must not retain p" - the caller reuses its buffer right away
					for k := range p {
						p[k] = 0xEE
					}
					if err == nil && n != st.N {
						f = fmt.Sprintf("io.Writer returned %d, nil for %d bytes", n, st.N)
						return
					}
				} else {
					err = wr.Flush()
				}
				if e := vAErr(err); e != st.Err {
					f = fmt.Sprintf("error class %s, the spec says %s", e, st.Err)
					return
				}
				if st.SLen > 0 {
					if snk.calls != calls+1 {
						f = fmt.Sprintf("sink was called %d times, want once", snk.calls-calls)
						return
					}
					if len(snk.last) != st.SLen {
						f = fmt.Sprintf("sink was handed %d bytes, want %d (everything it has not accepted yet)", len(snk.last), st.SLen)
						return
					}
					for k := range snk.last {
						if snk.last[k] != vStreamByte(st.SStart+k) {
							f = fmt.Sprintf("sink byte %d differs from stream position %d", k, st.SStart+k)
							return
						}
					}
				} else if snk.calls != calls {
					f = "sink was called though nothing was pending"
				}
			case "IOFill":
				p := make([]byte, st.N)
				for k := range p {
					p[k] = vStreamByte(ipos + k)
				}
				lb.WriteBinary(p)
				lb.Flush()
				ipos += st.N
			case "IORead":
				p := make([]byte, st.N)
				n, err := ior.Read(p)
				if st.N == 0 {
					if n != 0 || err != nil {
						f = fmt.Sprintf("Read(empty) = %d, %v", n, err)
					}
					return
				}
				checkRead(p[:n], err)
			}
		}()
		if f != "" {
			fail(i, st.Op, "result", f)
			return
		}
		// the accepted bytes at the sink are always a prefix of the stream
		for k := range snk.got {
			if snk.got[k] != vStreamByte(k) {
				fail(i, st.Op, "sink", fmt.Sprintf("sink content differs from the stream at offset %d", k))
				return
			}
		}
	}
	return out
}

func TestVerifAdapters(t *testing.T) {
	in, outp := os.Getenv("VERIF_IN"), os.Getenv("VERIF_OUT")
	if in == "" || outp == "" {
		t.Skip("VERIF_IN/VERIF_OUT not set")
	}
	raw, err := os.ReadFile(in)
	if err != nil {
		t.Fatal(err)
	}
	var wo struct {
		Behaviours []vABehaviour `json:"behaviours"`
	}
	if err := json.Unmarshal(raw, &wo); err != nil {
		t.Fatal(err)
	}
	f, err := os.Create(outp)
	if err != nil {
		t.Fatal(err)
	}
	defer f.Close()
	enc := json.NewEncoder(f)
	for i := range wo.Behaviours {
		enc.Encode(vRunAdapters(&wo.Behaviours[i]))
	}
}
