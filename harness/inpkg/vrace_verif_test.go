//go:build verif
// +build verif

package netpoll

// Free-running concurrency scenarios for the race detector (C19).  No controlled scheduler, no
// verifHook (the schedule points would add happens-before edges): the public API is used within its
// concurrency contract - one reader, one writer, any number of closers per connection - with the
// stock pollers.  The scenario list is enumerated by TLC from RaceScenarios.tla.

import (
	"context"
	"encoding/json"
	"fmt"
	"os"
	"runtime"
	"sync"
	"syscall"
	"testing"
	"time"
)

type vRaceScenario struct {
	ID      string `json:"id"`
	Kind    string `json:"kind"`
	Cb      string `json:"cb"`      // none | onrequest | onconnect (slow OnConnect that returns a new context)
	Closers int    `json:"closers"` // concurrent closers
	Timed   bool   `json:"timed"`   // read/write timeouts set
	Rounds  int    `json:"rounds"`
}

func vRacePair(opts *options) (*connection, int, error) {
	fds, err := syscall.Socketpair(syscall.AF_UNIX, syscall.SOCK_STREAM, 0)
	if err != nil {
		return nil, 0, err
	}
	syscall.SetsockoptInt(fds[0], syscall.SOL_SOCKET, syscall.SO_SNDBUF, 8192)
	c := &connection{}
	nfd := &netFD{fd: fds[0], network: "unix", localAddr: &UnixAddr{}, remoteAddr: &UnixAddr{}}
	if err := c.init(nfd, opts); err != nil {
		syscall.Close(fds[1])
		return nil, 0, err
	}
	c.onConnect()
	return c, fds[1], nil
}

type vCtxKey struct{}

func vRaceOpts(sc *vRaceScenario) *options {
	o := &options{}
	if sc.Cb == "onrequest" || sc.Cb == "onconnect" {
		o.onRequest = func(ctx context.Context, conn Connection) error {
			_ = ctx.Value(vCtxKey{})
			n := conn.Reader().Len()
			conn.Reader().Skip(n)
			conn.Reader().Release()
			return nil
		}
	}
	if sc.Cb == "onconnect" {
		o.onConnect = func(ctx context.Context, conn Connection) context.Context {
			time.Sleep(300 * time.Microsecond)
			return context.WithValue(ctx, vCtxKey{}, 1)
		}
		o.onDisconnect = func(ctx context.Context, conn Connection) {}
	}
	return o
}

func vSpin(us int) {
	t0 := time.Now()
	for time.Since(t0) < time.Duration(us)*time.Microsecond {
	}
}

func vRunRaceScenario(sc *vRaceScenario) (runs int, note string) {
	for round := 0; round < sc.Rounds; round++ {
		runs++
		c, peer, err := vRacePair(vRaceOpts(sc))
		if err != nil {
			return runs, "setup: " + err.Error()
		}
		if sc.Timed {
			c.SetReadTimeout(5 * time.Millisecond)
			c.SetWriteTimeout(5 * time.Millisecond)
		}
		var wg sync.WaitGroup
		delay := (round * 13) % 150
		closeAll := func() {
			for k := 0; k < sc.Closers; k++ {
				wg.Add(1)
				go func(k int) {
					defer wg.Done()
					vSpin(delay + k*7)
					c.Close()
				}(k)
			}
		}
		switch sc.Kind {
		case "closeflush":
			// the single writer flushes a payload far above the socket buffer while closers close
			wg.Add(1)
			go func() {
				defer wg.Done()
				defer func() { recover() }()
				buf, err := c.Writer().Malloc(1 << 20)
				if err == nil {
					buf[0] = 1
					c.Writer().Flush()
				}
			}()
			closeAll()
			go func() {
				time.Sleep(3 * time.Millisecond)
				tmp := make([]byte, 1<<16)
				for {
					if n, _ := syscall.Read(peer, tmp); n <= 0 {
						return
					}
				}
			}()
		case "closeread":
			// the single reader waits for more than will arrive while closers close and the peer sends a little
			wg.Add(1)
			go func() {
				defer wg.Done()
				defer func() { recover() }()
				c.Reader().Next(64)
				c.Reader().Release()
			}()
			wg.Add(1)
			go func() {
				defer wg.Done()
				vSpin(delay / 2)
				syscall.Write(peer, []byte("hello"))
			}()
			closeAll()
		case "peerclose":
			// the peer sends and closes while the handler / a reader is active; the user closes as well
			wg.Add(1)
			go func() {
				defer wg.Done()
				syscall.Write(peer, []byte("request"))
				vSpin(delay)
				syscall.Close(peer)
				peer = -1
			}()
			if sc.Cb == "none" {
				wg.Add(1)
				go func() {
					defer wg.Done()
					defer func() { recover() }()
					c.Reader().Next(7)
					c.Reader().Release()
					c.Reader().Next(1)
				}()
			}
			wg.Add(1)
			go func() {
				defer wg.Done()
				time.Sleep(time.Millisecond)
				c.Close()
			}()
		case "firstdata":
			// request bytes reach the poller while OnConnect is still running (server-style hand-off)
			syscall.Write(peer, []byte("request"))
			wg.Add(1)
			go func() {
				defer wg.Done()
				vSpin(delay)
				syscall.Write(peer, []byte("more"))
			}()
			wg.Add(1)
			go func() {
				defer wg.Done()
				time.Sleep(2 * time.Millisecond)
				c.Close()
			}()
		case "lateonrequest":
			// data is buffered on a client connection, then the handler is installed while more arrives
			syscall.Write(peer, []byte("first"))
			time.Sleep(200 * time.Microsecond)
			wg.Add(1)
			go func() {
				defer wg.Done()
				c.SetOnRequest(func(ctx context.Context, conn Connection) error {
					n := conn.Reader().Len()
					conn.Reader().Skip(n)
					return conn.Reader().Release()
				})
			}()
			wg.Add(1)
			go func() {
				defer wg.Done()
				vSpin(delay)
				syscall.Write(peer, []byte("second"))
			}()
			wg.Add(1)
			go func() {
				defer wg.Done()
				time.Sleep(2 * time.Millisecond)
				c.Close()
			}()
		}
		done := make(chan struct{})
		go func() { wg.Wait(); close(done) }()
		select {
		case <-done:
		case <-time.After(5 * time.Second):
			note = "round did not finish"
		}
		c.Close()
		if peer >= 0 {
			syscall.Close(peer)
		}
		time.Sleep(200 * time.Microsecond)
	}
	runtime.Gosched()
	return runs, note
}

func TestVerifRaceScenarios(t *testing.T) {
	in, outp := os.Getenv("VERIF_IN"), os.Getenv("VERIF_OUT")
	if in == "" || outp == "" {
		t.Skip("VERIF_IN/VERIF_OUT not set")
	}
	raw, err := os.ReadFile(in)
	if err != nil {
		t.Fatal(err)
	}
	var wo struct {
		Scenarios []vRaceScenario `json:"scenarios"`
	}
	if err := json.Unmarshal(raw, &wo); err != nil {
		t.Fatal(err)
	}
	f, err := os.Create(outp)
	if err != nil {
		t.Fatal(err)
	}
	defer f.Close()
	enc := json.NewEncoder(f)
	for i := range wo.Scenarios {
		fmt.Fprintf(os.Stderr, "SCENARIO-BEGIN %s\n", wo.Scenarios[i].ID)
		n, note := vRunRaceScenario(&wo.Scenarios[i])
		fmt.Fprintf(os.Stderr, "SCENARIO-END %s\n", wo.Scenarios[i].ID)
		enc.Encode(map[string]interface{}{"scenario": wo.Scenarios[i].ID, "runs": n, "note": note})
	}
}
