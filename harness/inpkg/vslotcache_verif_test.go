//go:build verif
// +build verif

package netpoll

// Operator slots at the grain of SlotCache.tla (C10): up to three users each open one descriptor on a real
// defaultPoll (manual poller) through the real operatorCache / FDOperator - Alloc, set the fields, register
// level-triggered, idle, Control(PollDetach), Free, close(2) - while their peers send and close and the poller
// fetches and dispatches, all under the controlled scheduler.  The callbacks are recorders: OnRead reads the
// descriptor of the slot's *current* fields, OnHup reports the teardown.  Every execution is judged by
// SlotObs.tla (single owner, no reassignment while fetched events are pending, nobody gets another's event or is
// torn down by it, nobody starves) and replayed step by step in SlotCache.tla (projection: state word, owner
// and detach mark of every named slot, the freeable queue, the returned part of the free list).

import (
	"encoding/json"
	"fmt"
	"os"
	"sync"
	"sync/atomic"
	"syscall"
	"testing"
	"time"
	"unsafe"
)

type vSCScenario struct {
	StallName string   `json:"stallname"`
	StallPt   int      `json:"stallpt"`
	StallOcc  int      `json:"stallocc"`
	UntilName string   `json:"untilname"`
	UntilPt   int      `json:"untilpt"`
	UntilOcc  int      `json:"untilocc"`
	ID        string   `json:"id"`
	Seed      int64    `json:"seed"`
	Strategy  string   `json:"strategy"`
	Plan      []string `json:"plan"`
	Conns     []string `json:"conns"`   // subset of A B G
	Supply    int      `json:"supply"`  // never-used slots left in the cache's first block when the scenario starts
	MaxSend   int      `json:"maxsend"` // messages a peer may send
}

type vSCConn struct {
	name     string
	fd, peer int
	open     bool // the user's descriptor is open
	peerOpen bool
	sent     int
	got      int
	slot     int // model name of the slot it allocated
}

func vRunSlotCache(sc *vSCScenario) ([]vOutEvent, map[string]interface{}) {
	s := vNewSched(sc.Seed)
	s.maxSteps = 1500
	if sc.Strategy == "pct" {
		s.UsePCT(3, 80)
	}
	s.plan = sc.Plan
	s.stallName, s.stallPt, s.stallOcc = sc.StallName, int32(sc.StallPt), sc.StallOcc
	s.untilName, s.untilPt, s.untilOcc = sc.UntilName, int32(sc.UntilPt), sc.UntilOcc
	var mu sync.Mutex
	var out []vOutEvent
	ev := func(e, k string, n, m int, err string) {
		g := "env"
		if a := s.lookup(vGID()); a != nil {
			g = a.name
		}
		if g != "env" && s.dead() {
			return // released after the scheduler stopped: not part of the recorded execution
		}
		mu.Lock()
		out = append(out, vOutEvent{E: e, G: g, K: k, N: n, M: m, Err: err})
		mu.Unlock()
	}
	p, err := openDefaultPoll()
	if err != nil {
		return nil, map[string]interface{}{"id": sc.ID, "stuck": "setup: " + err.Error(), "taken": []string{}}
	}
	s.gateFetched = true // the real Wait loop runs as the poller actor; the point between epoll_wait and the handler is a schedule point
	vCur = s
	// leave exactly Supply never-used slots in the first block
	held := []*FDOperator{p.opcache.alloc()} // (creates the first block)
	total := len(p.opcache.cache)
	for i := 0; i < total-1-sc.Supply; i++ {
		held = append(held, p.opcache.alloc())
	}
	_ = held
	s.emit = ev
	ev("Init", "", total, sc.Supply, "")
	names := map[int32]int{} // slot index -> model name (order of first allocation)
	conns := map[string]*vSCConn{}
	fdOwner := map[int]string{}
	code := map[string]int32{"A": 1, "B": 2, "G": 3}
	inBatch := false
	s.wrapHook = func(pt int32, obj unsafe.Pointer, a, b int64) {
		switch pt {
		case vpCacheAlloc:
			if g := vGID(); g == s.mainGID || s.lookup(g) != nil {
				if _, ok := names[int32(a)]; !ok {
					names[int32(a)] = len(names) + 1
				}
			}
		case vpPollFetched:
			if act := s.lookup(vGID()); act != nil && act.name == "poller" {
				for i := 0; i < int(a); i++ {
					if op := p.getOperator(0, unsafe.Pointer(&p.events[i].data)); op != nil && op != p.wop {
						ev("Fetched", "", int(op.index), 0, "")
					}
				}
				inBatch = true
			}
		case vpPollWait:
			if act := s.lookup(vGID()); act != nil && act.name == "poller" && inBatch {
				inBatch = false
				ev("BatchEnd", "", 0, 0, "")
			}
		}
		s.hook(pt, obj, a, b)
	}
	for _, name := range sc.Conns {
		name := name
		c := &vSCConn{name: name}
		conns[name] = c
		s.Go("u"+name, func() {
			defer func() {
				if x := recover(); x != nil {
					ev("Panic", "u"+name, 0, 0, fmt.Sprint(x))
				}
			}()
			fds, err := syscall.Socketpair(syscall.AF_UNIX, syscall.SOCK_STREAM, 0)
			if err != nil {
				ev("SetupErr", name, 0, 0, err.Error())
				return
			}
			syscall.SetNonblock(fds[0], true)
			syscall.SetNonblock(fds[1], true)
			mu.Lock()
			c.fd, c.peer, c.open, c.peerOpen = fds[0], fds[1], true, true
			fdOwner[c.fd] = name
			mu.Unlock()
			op := p.Alloc()
			op.FD = c.fd
			op.OnRead = func(Poll) error {
				buf := make([]byte, 64)
				n, rerr := syscall.Read(c.fd, buf)
				switch {
				case n > 0:
					ok := 1
					for i := 0; i < n; i++ {
						if buf[i] != vStreamByte(int(code[name])*1000+c.got+i) {
							ok = 0
						}
					}
					c.got += n
					ev("Recv", name, n, ok, "judge")
				case n == 0 && rerr == nil:
					ev("Recv", name, 0, 1, "judge") // end of stream: the peer has closed
				default:
					// readiness reported for a descriptor that has nothing: the event belonged to somebody else
					ev("Spurious", name, 0, 0, fmt.Sprint(rerr))
				}
				return nil
			}
			op.OnHup = func(Poll) error {
				ev("Closed", name, 0, 0, "")
				return nil
			}
			c.slot = names[op.index]
			ev("Opened", name, int(op.index), c.fd, "")
			if err := op.Control(PollReadable); err != nil {
				ev("SetupErr", name, 0, 0, err.Error())
				return
			}
			s.Yield()
			ev("Call", "Close"+name, 0, 0, "")
			op.Control(PollDetach)
			op.Free()
			mu.Lock()
			c.open = false
			delete(fdOwner, c.fd)
			mu.Unlock()
			syscall.Close(c.fd)
		})
		s.AddEnv("send"+name, sc.MaxSend, func() bool { return c.open && c.peerOpen }, func() {
			b := []byte{vStreamByte(int(code[name])*1000 + c.sent)}
			if n, _ := syscall.Write(c.peer, b); n > 0 {
				c.sent += n
				ev("PeerSend", name, n, 0, "")
			}
		})
		s.AddEnv("close"+name, 1, func() bool { return c.open && c.peerOpen }, func() {
			syscall.Close(c.peer)
			c.peerOpen = false
			ev("PeerClose", name, 0, 0, "")
		})
	}
	for _, e := range s.envs {
		e.lazy = false
	}
	// projection: per named slot (1..4): state word, owner code (by the descriptor in its fields), detach mark; the freeable queue;
	// the returned part of the free list (names, top first)
	s.projFn = func() []int32 {
		outp := make([]int32, 0, 24)
		byName := map[int]*FDOperator{}
		for idx, nm := range names {
			byName[nm] = p.opcache.cache[idx]
		}
		for nm := 1; nm <= 4; nm++ {
			op := byName[nm]
			if op == nil {
				outp = append(outp, 0, 0, 0)
				continue
			}
			var owner int32
			mu.Lock()
			if o, ok := fdOwner[op.FD]; ok && op.FD != 0 {
				owner = code[o]
			}
			mu.Unlock()
			det := int32(0)
			if atomic.LoadInt32(&op.detached) > 0 {
				det = 1
			}
			outp = append(outp, atomic.LoadInt32(&op.state), owner, det)
		}
		pend := []int32{0, 0, 0, 0}
		for i, idx := range p.opcache.freelist {
			if i < 4 {
				pend[i] = int32(names[idx])
			}
		}
		outp = append(outp, int32(len(p.opcache.freelist)))
		outp = append(outp, pend...)
		ret := []int32{0, 0, 0, 0}
		n := 0
		for op := p.opcache.first; op != nil; op = op.next {
			nm, ok := names[op.index]
			if !ok || n >= 4 {
				break
			}
			ret[n] = int32(nm)
			n++
		}
		outp = append(outp, int32(n))
		outp = append(outp, ret...)
		return outp
	}
	exited := make(chan struct{})
	s.Go("poller", func() {
		if a := s.lookup(vGID()); a != nil {
			a.daemon = true
		}
		defer close(exited)
		defer func() {
			if x := recover(); x != nil {
				ev("Panic", "poller", 0, 0, fmt.Sprint(x))
			}
		}()
		p.Wait()
	})
	s.Run()
	// epilogue: nobody who is still registered sits on unread data (the poller has nothing left to do)
	healthy := 1
	for _, c := range conns {
		if c.open {
			if n, err := vIoctlInt(c.fd, syscall.TIOCINQ); err == nil && n > 0 {
				healthy = 0
			}
		}
	}
	if s.stuck != "" {
		healthy = 1 // a run that did not reach a quiescent point is not judged at its end (counted as not quiescent)
	}
	ev("Epilogue", "", healthy, 1, s.stuck)
	info := map[string]interface{}{"id": sc.ID, "taken": s.taken, "gates": s.gateLog, "stalled": s.stalled, "stuck": s.stuck, "drift": s.drift, "proj": s.projLog, "steps": len(s.taken)}
	verifHook = nil
	p.Close()
	select {
	case <-exited:
	case <-time.After(2 * time.Second):
	}
	for _, c := range conns {
		if c.open {
			syscall.Close(c.fd)
		}
		if c.peerOpen {
			syscall.Close(c.peer)
		}
	}
	return out, info
}

func TestVerifSlotCache(t *testing.T) {
	in, outp := os.Getenv("VERIF_IN"), os.Getenv("VERIF_OUT")
	if in == "" || outp == "" {
		t.Skip("VERIF_IN/VERIF_OUT not set")
	}
	raw, err := os.ReadFile(in)
	if err != nil {
		t.Fatal(err)
	}
	var wo struct {
		Scenarios []vSCScenario `json:"scenarios"`
	}
	if err := json.Unmarshal(raw, &wo); err != nil {
		t.Fatal(err)
	}
	f, err := os.Create(outp)
	if err != nil {
		t.Fatal(err)
	}
	defer f.Close()
	enc := json.NewEncoder(f)
	for i := range wo.Scenarios {
		evs, info := vRunSlotCache(&wo.Scenarios[i])
		for j := range evs {
			evs[j].T = j
		}
		enc.Encode(map[string]interface{}{"scenario": wo.Scenarios[i].ID, "info": info, "events": evs})
	}
}
