//go:build verif
// +build verif

package netpoll

// Controlled scheduler for the verification harness.
//
// Goroutines started through (*vSched).Go are "actors". Every vp() schedule point in the library
// (locker / FDOperator / trigger / buffer-length primitives, blocking waits) parks the calling actor
// until the scheduler releases it, so exactly one actor runs at a time and an execution is the
// sequence of the scheduler's choices: a schedule that can be replayed. Goroutines that are not
// actors pass every point untouched.
//
// Besides actors there are environment actions (peer writes/closes, timer expiry) that the
// scheduler executes inline as choices of its own.

import (
	"bytes"
	"fmt"
	"math/rand"
	"os"
	"runtime"
	"strconv"
	"strings"
	"sync"
	"sync/atomic"
	"time"
	"unsafe"
)

func vGID() int64 {
	var buf [64]byte
	n := runtime.Stack(buf[:], false)
	// "goroutine 123 [running]:"
	s := buf[len("goroutine "):n]
	i := bytes.IndexByte(s, ' ')
	id, _ := strconv.ParseInt(string(s[:i]), 10, 64)
	return id
}

type vGate struct {
	pt   int32
	obj  unsafe.Pointer
	a, b int64
}

const (
	vStRunning = iota
	vStParked
	vStDone
)

// custom (harness-level) points
const (
	vpxStart      = 1000 // actor about to start its body
	vpxPollFetch  = 1001 // manual poller about to EpollWait
	vpxUser       = 1002 // harness code inside a callback wants a scheduling point
	vpxBlockUntil = 1003 // harness code blocks until cond() (a = index in sched.conds)
)

type vActor struct {
	name   string
	gid    int64
	resume chan struct{}
	state  int
	gate   vGate
	steps  int
	cond   func() bool // for vpxBlockUntil
	occ    int         // which arrival at this schedule point this is (per actor and point)
	daemon bool        // never finishes by itself (manual poller); not counted for deadlock
	auto   bool        // registered itself at a spawn point
}

type vEnvAction struct {
	name    string
	enabled func() bool
	do      func()
	left    int  // how many more times it may be taken
	lazy    bool // a timer: chosen rarely while anything else can move (a timeout is normally far away)
}

type vEvent map[string]interface{}

type vSched struct {
	mu      sync.Mutex
	active  bool
	actors  map[int64]*vActor
	list    []*vActor
	notify  chan *vActor
	running int32
	pending int32 // goroutines announced by a spawn point that have not registered yet
	envs    []*vEnvAction
	rnd     *rand.Rand
	trace   []vEvent
	seq     int
	taken   []string // the schedule actually taken
	plan    []string // schedule to follow (names), then random
	planPos int
	drift   int
	hupN    int
	stuck   string
	// PCT-style priorities: when set, the highest-priority enabled choice runs; priorities change at change points
	prio         map[string]int
	changeAt     map[int]bool
	maxSteps     int
	deadlock     bool
	timers       []*vTimerCtl
	onSpawn      func(kind string) string
	emit         func(e, k string, n, m int, err string)
	onStop       func() // called when Run ends, before the parked actors are released
	blockedAtEnd []vBlocked
	mainGID      int64  // the goroutine that owns this scheduler (scenario set-up and epilogue run on it)
	stallName    string // "stall" strategy: this actor is held back at its occ-th arrival at schedule point stallPt
	stallPt      int32  // for as long as anything else can move
	stallOcc     int
	stalled      int // steps during which the stall was in force
	// window exploration: the stall is lifted as soon as another actor arrives at its untilOcc-th arrival at untilPt
	// (instead of lasting for as long as anything else can move)
	untilName   string
	untilPt     int32
	untilOcc    int
	stallLifted bool
	stopped     int32 // Run has ended (or given up): what the released goroutines do from here on is not part of the execution
	gateFetched bool // the point between epoll_wait and the handler is a schedule point (slot-level harness)
	arrivals    map[string]int                                 // (actor, pt) -> arrivals so far
	gateLog     [][2]interface{}                               // (actor, pt#occ) of every step taken
	wrapHook    func(pt int32, obj unsafe.Pointer, a, b int64) // optional: installed instead of s.hook (must call it)
	projFn      func() []int32                                 // optional: projection of shared words, logged after every step
	projLog     [][]int32
	// set-up hold: until holdUntil() is true the scheduler drives the set-up deterministically (actors named in holdPrefer first,
	// then actors still in front of their body); the plan / strategy starts afterwards. holdSteps = steps taken during the hold.
	holdUntil  func() bool
	holdPrefer []string
	holdDone   bool
	holdSteps  int
}

type vBlocked struct {
	name string
	gate vGate
}

var vDebug = os.Getenv("VERIF_DEBUG") != ""

var vCur *vSched // the scheduler the hook talks to

func vNewSched(seed int64) *vSched {
	s := &vSched{mainGID: vGID(), actors: map[int64]*vActor{}, notify: make(chan *vActor, 64), rnd: rand.New(rand.NewSource(seed)), maxSteps: 4000}
	return s
}

// Event appends an observable event to the trace (called by harness callbacks and wrappers; the
// caller is the only running goroutine, or the scheduler itself).
func (s *vSched) Event(name string, kv ...interface{}) {
	s.mu.Lock()
	s.seq++
	e := vEvent{"e": name, "q": s.seq}
	for i := 0; i+1 < len(kv); i += 2 {
		e[kv[i].(string)] = kv[i+1]
	}
	if a := s.actors[vGID()]; a != nil {
		e["g"] = a.name
	} else {
		e["g"] = "env"
	}
	s.trace = append(s.trace, e)
	s.mu.Unlock()
}

func (s *vSched) lookup(gid int64) *vActor {
	s.mu.Lock()
	a := s.actors[gid]
	s.mu.Unlock()
	return a
}

// Go starts fn as an actor. It may be called before Run (initial actors) or by a running actor.
func (s *vSched) Go(name string, fn func()) {
	a := &vActor{name: name, resume: make(chan struct{}, 1), state: vStRunning}
	atomic.AddInt32(&s.running, 1)
	s.mu.Lock()
	s.list = append(s.list, a)
	s.mu.Unlock()
	go func() {
		a.gid = vGID()
		s.mu.Lock()
		s.actors[a.gid] = a
		s.mu.Unlock()
		defer func() {
			s.mu.Lock()
			a.state = vStDone
			delete(s.actors, a.gid)
			s.mu.Unlock()
			s.notify <- a
		}()
		s.park(a, vGate{pt: vpxStart})
		fn()
	}()
}

func (s *vSched) park(a *vActor, g vGate) {
	s.mu.Lock()
	a.gate = g
	if s.arrivals == nil {
		s.arrivals = map[string]int{}
	}
	key := fmt.Sprintf("%s/%d", a.name, g.pt)
	s.arrivals[key]++
	a.occ = s.arrivals[key]
	a.state = vStParked
	if s.untilName != "" && a.name == s.untilName && g.pt == s.untilPt && a.occ == s.untilOcc {
		s.stallLifted = true
	}
	s.mu.Unlock()
	s.notify <- a
	<-a.resume
}

// Yield is a scheduling point usable from harness code running inside an actor.
func (s *vSched) Yield() {
	if a := s.lookup(vGID()); a != nil && s.active {
		s.park(a, vGate{pt: vpxUser})
	}
}

// BlockUntil parks the calling actor until cond() holds (evaluated by the scheduler while all actors are parked).
func (s *vSched) BlockUntil(cond func() bool) {
	a := s.lookup(vGID())
	if a == nil || !s.active {
		for !cond() {
			time.Sleep(50 * time.Microsecond)
		}
		return
	}
	a.cond = cond
	s.park(a, vGate{pt: vpxBlockUntil})
	a.cond = nil
}

// trace-only points never park
func vTraceOnly(pt int32) bool {
	switch pt {
	case vpCacheAlloc, vpCacheFreeable, vpCacheFree, vpSendmsg, vpFdOpen, vpFdClose, vpOpReset, vpPollExit, vpPollStart:
		return true
	}
	return false
}

// dead: the scheduler has stopped; goroutines it released run on by themselves and are no longer recorded
func (s *vSched) dead() bool { return atomic.LoadInt32(&s.stopped) == 1 }

func (s *vSched) hook(pt int32, obj unsafe.Pointer, a, b int64) {
	if s.dead() && vGID() != s.mainGID {
		return
	}
	// trace points are recorded only for this scenario's own goroutines (a goroutine left over from an
	// earlier scenario may still be finishing its teardown)
	if s.emit != nil && vTraceOnly(pt) {
		if g := vGID(); g != s.mainGID && s.lookup(g) == nil {
			return
		}
	}
	if s.emit != nil {
		switch pt {
		case vpFdClose:
			o := 0
			if vFdIsOpen(int(a)) {
				o = 1
			}
			s.emit("FdClose", fmt.Sprint(b), int(a), o, "")
		case vpFdOpen:
			s.emit("FdOpen", fmt.Sprint(b), int(a), 0, "")
		case vpCacheFreeable:
			s.emit("SlotFree", "", int(a), 0, "")
		case vpCacheAlloc:
			s.emit("SlotAlloc", "", int(a), 0, "")
		case vpSendmsg:
			s.emit("Sendmsg", "", int(a), 0, "")
		}
	}
	if !s.active || vTraceOnly(pt) || (pt == vpPollFetched && !s.gateFetched) {
		return
	}
	gid := vGID()
	act := s.lookup(gid)
	if act == nil {
		if pt == vpHupStart && atomic.LoadInt32(&s.pending) > 0 {
			// the goroutine spawned by onhups registers itself as an actor
			s.mu.Lock()
			s.hupN++
			name := fmt.Sprintf("hup%d", s.hupN)
			act = &vActor{name: name, gid: gid, resume: make(chan struct{}, 1), state: vStRunning, auto: true}
			s.actors[gid] = act
			s.list = append(s.list, act)
			s.mu.Unlock()
			atomic.AddInt32(&s.pending, -1)
			// it stays an actor until it passes vpHupEnd
		} else {
			return
		}
	}
	if pt == vpSpawnHup {
		// a new goroutine is about to be created: count it as running until it registers
		atomic.AddInt32(&s.pending, 1)
		atomic.AddInt32(&s.running, 1)
		return
	}
	if pt == vpHupEnd {
		if act.auto {
			s.mu.Lock()
			act.state = vStDone
			delete(s.actors, act.gid)
			s.mu.Unlock()
			s.notify <- act
		}
		return
	}
	act.steps++
	s.park(act, vGate{pt, obj, a, b})
	if pt == vpSrvClose && s.emit != nil {
		// released from the point in front of Close's sweep over the tracked connections
		s.emit("Sweep", "", 0, 0, "")
	}
	if pt == vpSrvStore && b == 1 && s.emit != nil {
		// released from the point right before connections.Store: nobody else runs until the Store is done
		s.emit("Track", "", int(a), 0, "")
	}
}

type unsafePointer = unsafe.Pointer

// hookTraceOnly records the trace-only points (no scheduling): used after Run for epilogues
func (s *vSched) hookTraceOnly(pt int32, obj unsafe.Pointer, a, b int64) {
	if vTraceOnly(pt) {
		s.hook(pt, obj, a, b)
	}
}

// enabledness of a parked actor's gate
func (s *vSched) gateEnabled(a *vActor) bool {
	g := a.gate
	switch g.pt {
	case vpWaitRead:
		c := (*connection)(g.obj)
		return len(c.readTrigger) > 0
	case vpWaitReadT:
		c := (*connection)(g.obj)
		return len(c.readTrigger) > 0 || (c.readTimer != nil && len(c.readTimer.C) > 0)
	case vpWaitWrite:
		c := (*connection)(g.obj)
		return len(c.writeTrigger) > 0
	case vpWaitWriteT:
		c := (*connection)(g.obj)
		return len(c.writeTrigger) > 0 || (c.writeTimer != nil && len(c.writeTimer.C) > 0)
	case vpTimerDrainR:
		c := (*connection)(g.obj)
		return len(c.readTimer.C) > 0
	case vpTimerDrainW:
		c := (*connection)(g.obj)
		return len(c.writeTimer.C) > 0
	case vpStopSpin:
		if g.b == 1 {
			l := (*locker)(g.obj)
			v := atomic.LoadInt32(&l.keychain[g.a])
			return v == 0 || v == 2
		}
	case vpOpInuseSpin:
		if g.b == 1 {
			op := (*FDOperator)(g.obj)
			v := atomic.LoadInt32(&op.state)
			return v == 0 || v == 1
		}
	case vpOpUnusedSpin:
		if g.b == 1 {
			op := (*FDOperator)(g.obj)
			v := atomic.LoadInt32(&op.state)
			return v == 1 || v == 0
		}
	case vpPmStatus:
		if g.b == 1 { // spinning while another goroutine initialises the pool
			m := (*manager)(g.obj)
			return atomic.LoadInt32(&m.status) != managerInitializing
		}
	case vpPollWait:
		if g.a == -1 { // epoll_wait without timeout returns only when the kernel has something
			return vEpollHasEvents((*defaultPoll)(g.obj).fd)
		}
	case vpPdWait:
		pd := (*pollDesc)(g.obj)
		return vPdReady(pd, g.a)
	case vpxBlockUntil:
		return a.cond == nil || a.cond()
	case vpxPollFetch:
		mp := (*vManualPoll)(g.obj)
		return mp.ready()
	}
	return true
}

type vChoice struct {
	name  string
	actor *vActor
	env   *vEnvAction
}

// Run drives the execution until every actor is done, a deadlock, or the step budget is exhausted.
// `done` (optional) ends the run early when it returns true at a quiescent point.
func (s *vSched) Run() {
	vCur = s
	s.active = true
	verifHook = s.hook
	if s.wrapHook != nil {
		verifHook = s.wrapHook
	}
	defer func() {
		atomic.StoreInt32(&s.stopped, 1)
		s.active = false
		if s.onStop != nil {
			s.onStop()
		}
		// release anything still parked so goroutines can end (they run free now)
		s.mu.Lock()
		for _, a := range s.list {
			if a.state == vStParked {
				a.state = vStRunning
				select {
				case a.resume <- struct{}{}:
				default:
				}
			}
		}
		s.mu.Unlock()
		// give the released goroutines a moment to run to their end, so that they do not overlap the next scenario
		deadline := time.After(30 * time.Millisecond)
		for {
			s.mu.Lock()
			live := 0
			for _, a := range s.list {
				if a.state != vStDone {
					live++
				}
			}
			s.mu.Unlock()
			if live == 0 {
				return
			}
			select {
			case <-s.notify:
			case <-deadline:
				return
			}
		}
	}()
	steps := 0
	settle, settling := 0, false
	for {
		// wait until nobody runs
		deadline := time.After(10 * time.Second)
		for atomic.LoadInt32(&s.running) > 0 {
			select {
			case <-s.notify:
				atomic.AddInt32(&s.running, -1)
			case <-deadline:
				s.stuck = "an actor did not reach a schedule point within 10s: " + s.runningNames()
				return
			}
		}
		if s.projFn != nil && steps > 0 && !settling {
			s.projLog = append(s.projLog, s.projFn())
		}
		settling = false
		var cs []vChoice
		allDone := true
		var parked []*vActor
		s.mu.Lock()
		for _, a := range s.list {
			if a.state == vStParked {
				parked = append(parked, a)
			}
		}
		s.mu.Unlock()
		for _, a := range parked {
			if !a.daemon {
				allDone = false
			}
			if s.gateEnabled(a) {
				cs = append(cs, vChoice{name: a.name, actor: a})
			}
		}
		for _, e := range s.envs {
			if e.left > 0 && e.enabled() {
				cs = append(cs, vChoice{name: e.name, env: e})
			}
		}
		if len(cs) == 0 && !allDone && settle < 40 {
			// nothing can move, yet somebody is still blocked: what they wait for may be on its way through the kernel
			// (loopback delivery and epoll readiness are not synchronous under load) - look again a little later
			settle++
			settling = true
			time.Sleep(time.Duration(settle) * 200 * time.Microsecond)
			continue
		}
		if len(cs) > 0 {
			settle = 0
		}
		if len(cs) == 0 {
			if !allDone {
				s.deadlock = true
			}
			// remember who is still parked (and where) before Run's epilogue releases everybody
			for _, a := range parked {
				if !a.daemon {
					s.blockedAtEnd = append(s.blockedAtEnd, vBlocked{a.name, a.gate})
				}
			}
			return
		}
		if s.stallName != "" && !s.stallLifted && len(cs) > 1 {
			// hold the chosen actor back at the chosen point while anything else can move
			var rest []vChoice
			for _, c := range cs {
				if c.actor != nil && c.actor.name == s.stallName && c.actor.gate.pt == s.stallPt && c.actor.occ == s.stallOcc {
					continue
				}
				rest = append(rest, c)
			}
			if len(rest) > 0 && len(rest) < len(cs) {
				cs = rest
				s.stalled++
			}
		}
		steps++
		if steps > s.maxSteps {
			s.stuck = "step budget exhausted"
			return
		}
		c := s.choose(cs, steps)
		s.taken = append(s.taken, c.name)
		if c.actor != nil {
			s.gateLog = append(s.gateLog, [2]interface{}{c.name, fmt.Sprintf("%d#%d", c.actor.gate.pt, c.actor.occ)})
		} else {
			s.gateLog = append(s.gateLog, [2]interface{}{c.name, "env"})
		}
		if vDebug {
			if c.actor != nil {
				fmt.Printf("step %d: %s at gate %d a=%d b=%d\n", steps, c.name, c.actor.gate.pt, c.actor.gate.a, c.actor.gate.b)
			} else {
				fmt.Printf("step %d: env %s\n", steps, c.name)
			}
		}
		if c.env != nil {
			c.env.left--
			c.env.do()
			continue
		}
		s.mu.Lock()
		c.actor.state = vStRunning
		s.mu.Unlock()
		atomic.AddInt32(&s.running, 1)
		c.actor.resume <- struct{}{}
	}
}

func (s *vSched) runningNames() string {
	s.mu.Lock()
	defer s.mu.Unlock()
	out := ""
	for _, a := range s.list {
		if a.state == vStRunning {
			out += a.name + " "
		}
	}
	return out
}

func (s *vSched) choose(cs []vChoice, step int) vChoice {
	// 0. set-up hold
	if s.holdUntil != nil && !s.holdDone {
		if s.holdUntil() {
			s.holdDone = true
			s.holdSteps = len(s.taken)
		} else {
			for _, n := range s.holdPrefer {
				for _, c := range cs {
					if c.name == n {
						return c
					}
				}
			}
			for _, c := range cs {
				if c.actor != nil && (c.actor.gate.pt == vpxStart || c.actor.gate.pt == vpxBlockUntil || c.actor.gate.pt == vpxUser) && !strings.HasPrefix(c.actor.name, "task") && !strings.HasPrefix(c.actor.name, "hup") {
					return c
				}
			}
			s.holdDone = true // nothing of the set-up can move: give up the hold
			s.holdSteps = len(s.taken)
		}
	}
	// 1. follow the plan while it applies
	for s.planPos < len(s.plan) {
		want := s.plan[s.planPos]
		s.planPos++
		for _, c := range cs {
			if c.name == want {
				return c
			}
		}
		s.drift++
		break
	}
	// 2. PCT priorities
	if s.prio != nil {
		if s.changeAt[step] {
			// lower the priority of the currently highest enabled choice
			best := s.best(cs)
			s.prio[best.name] = -step
		}
		return s.best(cs)
	}
	// 3. uniform random; lazy environment actions (timers) are taken with low probability while others can move
	c := cs[s.rnd.Intn(len(cs))]
	if c.env != nil && c.env.lazy && len(cs) > 1 && s.rnd.Intn(100) < 98 {
		var rest []vChoice
		for _, x := range cs {
			if x.env == nil || !x.env.lazy {
				rest = append(rest, x)
			}
		}
		if len(rest) > 0 {
			c = rest[s.rnd.Intn(len(rest))]
		}
	}
	return c
}

func (s *vSched) best(cs []vChoice) vChoice {
	b := cs[0]
	for _, c := range cs[1:] {
		if s.prioOf(c.name) > s.prioOf(b.name) {
			b = c
		}
	}
	return b
}

func (s *vSched) prioOf(n string) int {
	if p, ok := s.prio[n]; ok {
		return p
	}
	p := 1000 + s.rnd.Intn(1000)
	s.prio[n] = p
	return p
}

// UsePCT switches the fallback strategy to PCT with d-1 priority change points among ~k steps.
func (s *vSched) UsePCT(d, k int) {
	s.prio = map[string]int{}
	s.changeAt = map[int]bool{}
	for i := 0; i < d-1; i++ {
		s.changeAt[1+s.rnd.Intn(k)] = true
	}
}

// ---- timers ------------------------------------------------------------------

// A vTimerCtl lets the scheduler fire a connection's read or write timer as an environment action.
type vTimerCtl struct {
	c     *connection
	write bool
}

func (t *vTimerCtl) armedAndWaiting(s *vSched) bool {
	// the timer exists and some actor is parked at the corresponding timed wait
	s.mu.Lock()
	defer s.mu.Unlock()
	for _, a := range s.list {
		if a.state != vStParked || (*connection)(a.gate.obj) != t.c {
			continue
		}
		if !t.write && a.gate.pt == vpWaitReadT && len(t.c.readTimer.C) == 0 {
			return true
		}
		if t.write && a.gate.pt == vpWaitWriteT && len(t.c.writeTimer.C) == 0 {
			return true
		}
	}
	return false
}

func (t *vTimerCtl) fire() {
	tm := t.c.readTimer
	if t.write {
		tm = t.c.writeTimer
	}
	tm.Reset(0)
	for i := 0; i < 20000 && len(tm.C) == 0; i++ {
		time.Sleep(50 * time.Microsecond)
	}
}

// AddTimerEnv registers "timer fires" as an environment action (at most `times` firings).
func (s *vSched) AddTimerEnv(name string, c *connection, write bool, times int) {
	t := &vTimerCtl{c: c, write: write}
	s.envs = append(s.envs, &vEnvAction{name: name, left: times, lazy: true,
		enabled: func() bool { return t.armedAndWaiting(s) },
		do: func() {
			t.fire()
			if s.emit != nil {
				s.emit("TimerFire", map[bool]string{false: "read", true: "write"}[write], 0, 0, "")
			}
		}})
}

func (s *vSched) AddEnv(name string, times int, enabled func() bool, do func()) {
	s.envs = append(s.envs, &vEnvAction{name: name, left: times, enabled: enabled, do: do})
}

func vLoad32(p *int32) int32 { return atomic.LoadInt32(p) }
