//go:build verif
// +build verif

package netpoll

// Slot/descriptor reuse scenarios (C10) under the controlled scheduler: connection A is closed (and
// stale calls are made on it) while the poller is between fetching and dispatching a batch; a
// bystander connection B is opened at any point and may inherit A's poller slot and descriptor
// number.  Judged by SlotObs.tla: single owner per slot, no reassignment while a fetched event of the
// slot may still be dispatched, B sees exactly its own bytes and is never torn down by A's events.

import (
	"context"
	"encoding/json"
	"fmt"
	"os"
	"sync"
	"syscall"
	"testing"
	"time"

	"github.com/cloudwego/netpoll/internal/runner"
)

type vSlotScenario struct {
	StallName string          `json:"stallname"`
	StallPt   int             `json:"stallpt"`
	StallOcc  int             `json:"stallocc"`
	UntilName string          `json:"untilname"`
	UntilPt   int             `json:"untilpt"`
	UntilOcc  int             `json:"untilocc"`
	ID        string          `json:"id"`
	Seed      int64           `json:"seed"`
	Strategy  string          `json:"strategy"`
	Plan      []string        `json:"plan"`
	UserA     [][]interface{} `json:"usera"` // ops on A: ["Close"] ["Release"] ["Next",n] ["Write",n] ["IsActive"] ["Yield"]
	PeerA     [][]interface{} `json:"peera"` // ["send",n] ["close"]
	PeerB     [][]interface{} `json:"peerb"` // ["send",n]
	OpenB     string          `json:"openb"` // "afterclose" | "any" | "afterbatch" (A's slot released and a poller batch ended since)
	Drain     bool            `json:"drain"` // empty the operator free list before B is opened
	WithG     bool            `json:"withg"` // a third connection G whose hang-up handling is slow (OnDisconnect yields)
	PeerG     [][]interface{} `json:"peerg"` // ["close"]
}

type vSlotRun struct {
	sc  *vSlotScenario
	s   *vSched
	mu  sync.Mutex
	out []vOutEvent
	// bookkeeping for "afterbatch"
	aSlot      int
	aFreed     bool
	batchAfter bool
}

func (r *vSlotRun) ev(e, k string, n, m int, err string) {
	g := "env"
	if a := r.s.lookup(vGID()); a != nil {
		g = a.name
	}
	if g != "env" && r.s.dead() {
		return // released after the scheduler stopped: not part of the recorded execution
	}
	r.mu.Lock()
	r.out = append(r.out, vOutEvent{E: e, G: g, K: k, N: n, M: m, Err: err})
	if e == "SlotFree" && n == r.aSlot {
		r.aFreed = true
	}
	if e == "BatchEnd" && r.aFreed {
		r.batchAfter = true
	}
	r.mu.Unlock()
}

type vSlotConn struct {
	name     string
	c        *connection
	peer     int
	peerOpen bool
	got      int // bytes received through the handler
	sent     int
	closed   bool
}

func (r *vSlotRun) newConn(name string, streamSeed int) (*vSlotConn, error) {
	sc := &vSlotConn{name: name, peerOpen: true}
	opts := &options{}
	if name == "G" {
		opts.onDisconnect = func(ctx context.Context, conn Connection) {
			r.s.Yield()
			r.s.Yield()
			r.s.Yield()
		}
	}
	opts.onRequest = func(ctx context.Context, conn Connection) error {
		n := conn.Reader().Len()
		p, err := conn.Reader().Next(n)
		ok := 1
		if err != nil {
			ok = 0
		}
		for i := range p {
			if p[i] != vStreamByte(streamSeed+sc.got+i) {
				ok = 0
			}
		}
		sc.got += len(p)
		conn.Reader().Release()
		r.ev("Recv", name, len(p), ok, "")
		return nil
	}
	opts.onPrepare = func(conn Connection) context.Context {
		conn.AddCloseCallback(func(Connection) error {
			sc.closed = true
			r.ev("Closed", name, 0, 0, "")
			return nil
		})
		return context.Background()
	}
	c, peer, err := vNewPairConn(opts)
	if err != nil {
		return nil, err
	}
	sc.c, sc.peer = c, peer
	syscall.SetNonblock(peer, true)
	r.ev("Opened", name, int(c.operator.index), c.fd, "")
	return sc, nil
}

func vRunSlotScenario(sc *vSlotScenario) ([]vOutEvent, map[string]interface{}) {
	s := vNewSched(sc.Seed)
	s.maxSteps = 3000
	if sc.Strategy == "pct" {
		s.UsePCT(3, 80)
	}
	s.plan = sc.Plan
	s.stallName, s.stallPt, s.stallOcc = sc.StallName, int32(sc.StallPt), sc.StallOcc
	s.untilName, s.untilPt, s.untilOcc = sc.UntilName, int32(sc.UntilPt), sc.UntilOcc
	r := &vSlotRun{sc: sc, s: s}
	s.emit = r.ev
	mp := vNewManualPoll(s, "poller")
	mp.onFetch = func(slots []int) {
		for _, sl := range slots {
			r.ev("Fetched", "", sl, 0, "")
		}
	}
	mp.onBatchEnd = func() { r.ev("BatchEnd", "", 0, 0, "") }
	restore := vInstallPolls(mp)
	defer restore()
	oldRunner := runner.RunTask
	defer func() { runner.RunTask = oldRunner }()
	taskN := 0
	runner.RunTask = func(ctx context.Context, f func()) {
		taskN++
		name := fmt.Sprintf("task%d", taskN)
		s.Go(name, func() {
			defer func() {
				if x := recover(); x != nil {
					r.ev("Panic", name, 0, 0, fmt.Sprint(x))
				}
			}()
			f()
		})
	}
	vCur = s
	verifHook = s.hook
	defer func() { verifHook = nil }()
	r.ev("Init", "slots", 0, 0, "")
	A, err := r.newConn("A", 0)
	if err != nil {
		return r.out, map[string]interface{}{"stuck": "setup: " + err.Error()}
	}
	r.aSlot = int(A.c.operator.index)
	var G *vSlotConn
	if sc.WithG {
		G, err = r.newConn("G", 2000)
		if err != nil {
			return r.out, map[string]interface{}{"stuck": "setup: " + err.Error()}
		}
	}
	var B *vSlotConn
	aUserDone := false
	mp.start()
	s.Go("userA", func() {
		defer func() {
			if x := recover(); x != nil {
				r.ev("Panic", "userA", 0, 0, fmt.Sprint(x)+" | "+vShortStack())
			}
			aUserDone = true
		}()
		for _, op := range sc.UserA {
			name := op[0].(string)
			arg := 0
			if len(op) > 1 {
				arg = int(op[1].(float64))
			}
			switch name {
			case "Close":
				r.ev("Call", "CloseA", 0, 0, "")
				err := A.c.Close()
				r.ev("Ret", "CloseA", 0, 0, vErrClass(err))
			case "Release":
				A.c.Release()
				r.ev("Stale", "Release", 0, 0, "")
			case "Next":
				_, err := A.c.Next(arg)
				r.ev("Stale", "Next", arg, 0, vErrClass(err))
			case "Write":
				_, err := A.c.Write(make([]byte, arg))
				r.ev("Stale", "Write", arg, 0, vErrClass(err))
			case "IsActive":
				A.c.IsActive()
			case "Yield":
				s.Yield()
			}
		}
	})
	s.Go("opener", func() {
		defer func() {
			if x := recover(); x != nil {
				r.ev("Panic", "opener", 0, 0, fmt.Sprint(x))
			}
		}()
		switch sc.OpenB {
		case "afterclose":
			s.BlockUntil(func() bool { return A.closed })
		case "afterbatch":
			s.BlockUntil(func() bool { r.mu.Lock(); defer r.mu.Unlock(); return r.aFreed })
			mp.p.Trigger()
			s.BlockUntil(func() bool { r.mu.Lock(); defer r.mu.Unlock(); return r.batchAfter })
		default:
			s.Yield()
		}
		if sc.Drain {
			// hand out every operator that is currently allocatable, so that the next alloc finds the list empty
			for mp.p.opcache.first != nil {
				mp.p.opcache.alloc()
			}
		}
		b, err := r.newConn("B", 1000)
		if err != nil {
			r.ev("OpenErr", "B", 0, 0, err.Error())
			return
		}
		B = b
	})
	pa, pb := 0, 0
	s.AddEnv("peerA", len(sc.PeerA), func() bool { return pa < len(sc.PeerA) }, func() {
		op := sc.PeerA[pa]
		pa++
		if op[0].(string) == "send" && A.peerOpen {
			n := int(op[1].(float64))
			buf := make([]byte, n)
			for i := range buf {
				buf[i] = vStreamByte(A.sent + i)
			}
			w, _ := syscall.Write(A.peer, buf)
			if w > 0 {
				A.sent += w
			}
			r.ev("PeerSend", "A", w, 0, "")
		} else if op[0].(string) == "close" && A.peerOpen {
			syscall.Close(A.peer)
			A.peerOpen = false
			r.ev("PeerClose", "A", 0, 0, "")
		}
	})
	pg := 0
	s.AddEnv("peerG", len(sc.PeerG), func() bool { return G != nil && pg < len(sc.PeerG) }, func() {
		pg++
		if G.peerOpen {
			syscall.Close(G.peer)
			G.peerOpen = false
			r.ev("PeerClose", "G", 0, 0, "")
		}
	})
	s.AddEnv("peerB", len(sc.PeerB), func() bool { return B != nil && pb < len(sc.PeerB) }, func() {
		op := sc.PeerB[pb]
		pb++
		n := int(op[1].(float64))
		buf := make([]byte, n)
		for i := range buf {
			buf[i] = vStreamByte(1000 + B.sent + i)
		}
		w, _ := syscall.Write(B.peer, buf)
		if w > 0 {
			B.sent += w
		}
		r.ev("PeerSend", "B", w, 0, "")
	})
	s.Run()
	info := map[string]interface{}{"id": sc.ID, "steps": len(s.taken), "taken": s.taken, "gates": s.gateLog, "stalled": s.stalled, "stuck": s.stuck, "deadlock": s.deadlock, "drift": s.drift}
	// epilogue outside the scheduler: B must still receive a packet and close cleanly
	verifHook = func(pt int32, obj unsafePointer, a, b int64) { s.hookTraceOnly(pt, obj, a, b) }
	e := &vAfterEnv{mp: mp}
	runner.RunTask = oldRunner
	if B != nil && s.stuck == "" {
		before := B.got
		buf := make([]byte, 3)
		for i := range buf {
			buf[i] = vStreamByte(1000 + B.sent + i)
		}
		syscall.Write(B.peer, buf)
		B.sent += 3
		r.ev("PeerSend", "B", 3, 0, "")
		ok := e.pumpUntil(func() bool { r.mu.Lock(); defer r.mu.Unlock(); return B.got >= before+3 || B.closed })
		h := 0
		if ok && !B.closed && B.got == B.sent {
			h = 1
		}
		done := make(chan struct{})
		r.ev("Call", "CloseB", 0, 0, "")
		go func() {
			defer func() { recover(); close(done) }()
			B.c.Close()
		}()
		cl := 1
		select {
		case <-done:
		case <-time.After(2 * time.Second):
			cl = 0
		}
		r.ev("Epilogue", "B", h, cl, "")
	}
	r.ev("Quiescent", "", 0, 0, s.stuck)
	if A.peerOpen {
		syscall.Close(A.peer)
	}
	if B != nil {
		syscall.Close(B.peer)
	}
	if G != nil {
		if G.peerOpen {
			syscall.Close(G.peer)
		}
		if !G.closed {
			func() { defer func() { recover() }(); G.c.Close() }()
		}
	}
	if !A.closed {
		func() { defer func() { recover() }(); A.c.Close() }()
	}
	mp.close()
	_ = aUserDone
	return r.out, info
}

func TestVerifSlotScenarios(t *testing.T) {
	in, outp := os.Getenv("VERIF_IN"), os.Getenv("VERIF_OUT")
	if in == "" || outp == "" {
		t.Skip("VERIF_IN/VERIF_OUT not set")
	}
	raw, err := os.ReadFile(in)
	if err != nil {
		t.Fatal(err)
	}
	var wo struct {
		Scenarios []vSlotScenario `json:"scenarios"`
	}
	if err := json.Unmarshal(raw, &wo); err != nil {
		t.Fatal(err)
	}
	f, err := os.Create(outp)
	if err != nil {
		t.Fatal(err)
	}
	defer f.Close()
	enc := json.NewEncoder(f)
	for i := range wo.Scenarios {
		evs, info := vRunSlotScenario(&wo.Scenarios[i])
		enc.Encode(map[string]interface{}{"scenario": wo.Scenarios[i].ID, "info": info, "events": evs})
	}
}
