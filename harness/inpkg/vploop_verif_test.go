//go:build verif
// +build verif

package netpoll

// The reactor loop itself (C11: "Trigger wakes a blocked loop", "Close stops the loop and releases the
// poller's own descriptors", "batch sizes around the event-array growth threshold") - the real
// defaultPoll.Wait on a goroutine, in two modes:
//
//   controlled  the loop, the triggerers and the closer are actors of the controlled scheduler and park
//               at the schedule points of PollLoop.tla; a loop parked in front of epoll_wait(-1) is
//               released only when the epoll descriptor is readable (that is what the kernel does).
//               The event array starts with Size0 entries (the Reset func field is the seam).
//   free        stock sizes (128, 256, ...): batches of exactly / around the array size with
//               edge-triggered registrations inside, and trigger storms followed by a trigger on an
//               idle loop.
//
// Both record the same API-level events, judged by PollLoopObs.tla; the controlled mode also records the
// schedule and the projection (trigger word, array size, where the loop is) for conformance with
// PollLoop.tla.

import (
	"encoding/json"
	"fmt"
	"os"
	"sync"
	"sync/atomic"
	"syscall"
	"testing"
	"time"
	"unsafe"
)

type vPLScenario struct {
	ID        string   `json:"id"`
	Seed      int64    `json:"seed"`
	Mode      string   `json:"mode"` // controlled | bigbatch | storm
	Strategy  string   `json:"strategy"`
	Plan      []string `json:"plan"`
	StallName string   `json:"stallname"`
	StallPt   int      `json:"stallpt"`
	StallOcc  int      `json:"stallocc"`
	UntilName string   `json:"untilname"`
	UntilPt   int      `json:"untilpt"`
	UntilOcc  int      `json:"untilocc"`
	Trigs     int      `json:"trigs"`
	Calls     int      `json:"calls"`
	LTs       int      `json:"lts"`
	ETs       int      `json:"ets"`
	Sends     int      `json:"sends"`
	Close     bool     `json:"close"`
	Size0     int      `json:"size0"`
	ETFirst   bool     `json:"etfirst"` // free mode: the edge-triggered registrations become ready before the level-triggered ones
}

// vEpollHasEvents: would epoll_wait on p.fd return something right now?  (an epoll descriptor is itself pollable)
func vEpollHasEvents(epfd int) bool {
	e2, err := syscall.EpollCreate1(0)
	if err != nil {
		return true
	}
	defer syscall.Close(e2)
	ev := syscall.EpollEvent{Events: syscall.EPOLLIN, Fd: int32(epfd)}
	if err := syscall.EpollCtl(e2, syscall.EPOLL_CTL_ADD, epfd, &ev); err != nil {
		return true
	}
	var out [1]syscall.EpollEvent
	n, _ := syscall.EpollWait(e2, out[:], 0)
	return n > 0
}

type vPLDesc struct {
	name     string
	fd, peer int
	op       *FDOperator
	buf      []byte
	rpos     int
	sent     int
}

type vPLRun struct {
	mu  sync.Mutex
	out []vOutEvent
	who func() string
}

func (r *vPLRun) ev(e, k string, n, m int, err string) {
	g := "env"
	if r.who != nil {
		g = r.who()
	}
	r.mu.Lock()
	r.out = append(r.out, vOutEvent{E: e, G: g, K: k, N: n, M: m, Err: err})
	r.mu.Unlock()
}

// complete: everything sent was delivered and every registration got its writable callback
func (r *vPLRun) complete(lts, ets []*vPLDesc) bool {
	r.mu.Lock()
	defer r.mu.Unlock()
	dl, wr := map[string]int{}, map[string]int{}
	for _, e := range r.out {
		switch e.E {
		case "Deliver":
			dl[e.K] += e.N
		case "Writable":
			wr[e.K]++
		}
	}
	for _, d := range lts {
		if dl[d.name] != d.sent {
			return false
		}
	}
	for _, d := range ets {
		if wr[d.name] < 1 {
			return false
		}
	}
	return true
}

func (r *vPLRun) newLT(p *defaultPoll, name string) (*vPLDesc, error) {
	fds, err := syscall.Socketpair(syscall.AF_UNIX, syscall.SOCK_STREAM, 0)
	if err != nil {
		return nil, err
	}
	d := &vPLDesc{name: name, fd: fds[0], peer: fds[1], buf: make([]byte, 512)}
	syscall.SetNonblock(d.fd, true)
	op := p.Alloc()
	op.FD = d.fd
	op.Inputs = func(vs [][]byte) [][]byte { vs[0] = d.buf; return vs[:1] }
	op.InputAck = func(n int) error {
		ok := 1
		for i := 0; i < n && i < len(d.buf); i++ {
			if d.buf[i] != vStreamByte(d.rpos+i) {
				ok = 0
			}
		}
		if n > 0 {
			d.rpos += n
		} else {
			n = 0
		}
		r.ev("Deliver", d.name, n, ok, "")
		return nil
	}
	op.OnHup = func(Poll) error { r.ev("Hup", d.name, 0, 0, ""); return nil }
	d.op = op
	if err := op.Control(PollReadable); err != nil {
		return nil, err
	}
	return d, nil
}

func (d *vPLDesc) send(r *vPLRun, n int) {
	b := make([]byte, n)
	for i := range b {
		b[i] = vStreamByte(d.sent + i)
	}
	// recorded before the bytes exist: in the free-running mode the loop may deliver them at once
	r.ev("Send", d.name, n, 0, "")
	d.sent += n
	syscall.Write(d.peer, b) // a few bytes into an empty unix socket buffer: never partial
}

// newET prepares a writable socket; reg() registers it edge-triggered (PollWritable), the way a dial does
func (r *vPLRun) newET(p *defaultPoll, name string) (*vPLDesc, func(), error) {
	fds, err := syscall.Socketpair(syscall.AF_UNIX, syscall.SOCK_STREAM, 0)
	if err != nil {
		return nil, nil, err
	}
	d := &vPLDesc{name: name, fd: fds[0], peer: fds[1]}
	syscall.SetNonblock(d.fd, true)
	op := p.Alloc()
	op.FD = d.fd
	op.OnWrite = func(Poll) error { r.ev("Writable", d.name, 0, 0, ""); return nil }
	op.OnHup = func(Poll) error { r.ev("Hup", d.name, 0, 0, ""); return nil }
	d.op = op
	reg := func() {
		err := op.Control(PollWritable)
		e := ""
		if err != nil {
			e = err.Error()
		}
		r.ev("Reg", d.name, 0, 0, e)
	}
	return d, reg, nil
}

func vPLCleanup(p *defaultPoll, ds []*vPLDesc, exited *int32) {
	if atomic.LoadInt32(exited) == 0 {
		p.Close()
		for i := 0; i < 400 && atomic.LoadInt32(exited) == 0; i++ {
			time.Sleep(500 * time.Microsecond)
		}
	}
	for _, d := range ds {
		if atomic.LoadInt32(exited) == 0 {
			func() { defer func() { recover() }(); d.op.Control(PollDetach) }()
		}
		syscall.Close(d.fd)
		syscall.Close(d.peer)
	}
}

var vPLPoints = map[int32]bool{vpPollWait: true, vpHandlerEvent: true, vpPollDrain: true, vpPollRearm: true, vpPollTrigAdd: true, vpPollTrigMsg: true, vpPollCloseMsg: true}

func vRunPLControlled(sc *vPLScenario) ([]vOutEvent, map[string]interface{}) {
	s := vNewSched(sc.Seed)
	s.maxSteps = 1500
	if sc.Strategy == "pct" {
		s.UsePCT(3, 60)
	}
	s.plan = sc.Plan
	s.stallName, s.stallPt, s.stallOcc = sc.StallName, int32(sc.StallPt), sc.StallOcc
	s.untilName, s.untilPt, s.untilOcc = sc.UntilName, int32(sc.UntilPt), sc.UntilOcc
	r := &vPLRun{}
	r.who = func() string {
		if a := s.lookup(vGID()); a != nil {
			return a.name
		}
		return "env"
	}
	p, err := openDefaultPoll()
	if err != nil {
		return nil, map[string]interface{}{"stuck": "setup: " + err.Error()}
	}
	size0 := sc.Size0
	if size0 <= 0 {
		size0 = 2
	}
	p.Reset = func(size, caps int) {
		if size == 128 {
			size = size0
		}
		p.reset(size, caps)
	}
	var ds []*vPLDesc
	var exited int32
	defer func() { verifHook = nil; vPLCleanup(p, ds, &exited) }()
	r.ev("Init", "", sc.LTs, sc.ETs, "")
	loopAt := int32(0) // where the loop actor is parked: 0 wait 1 ev 2 drain 3 rearm 4 exit
	var evI, evN int32
	s.wrapHook = func(pt int32, obj unsafe.Pointer, a, b int64) {
		if !vPLPoints[pt] || obj != unsafe.Pointer(p) {
			return // the operators' own schedule points are not part of PollLoop.tla's grain
		}
		if act := s.lookup(vGID()); act != nil && act.name == "loop" {
			switch pt {
			case vpPollWait:
				atomic.StoreInt32(&loopAt, 0)
				if a == -1 {
					r.ev("LoopIdle", "", 0, 0, "")
				}
			case vpHandlerEvent:
				atomic.StoreInt32(&loopAt, 1)
				atomic.StoreInt32(&evI, int32(a))
				atomic.StoreInt32(&evN, int32(b))
				if a == 0 {
					r.ev("LoopWake", "", int(b), 0, "")
				}
			case vpPollDrain:
				atomic.StoreInt32(&loopAt, 2)
			case vpPollRearm:
				atomic.StoreInt32(&loopAt, 3)
			}
		}
		s.hook(pt, obj, a, b)
		if pt == vpPollTrigAdd {
			// released from the point in front of the AddUint32: the call takes effect now (nobody else runs)
			if act := s.lookup(vGID()); act != nil {
				r.ev("TrigCall", act.name, 0, 0, "")
			}
		}
	}
	s.projFn = func() []int32 {
		at := atomic.LoadInt32(&loopAt)
		if atomic.LoadInt32(&exited) != 0 {
			at = 4
		}
		sz := int32(p.size)
		if sz == 0 { // Wait has not initialised the array yet
			sz = int32(size0)
		}
		return []int32{int32(atomic.LoadUint32(&p.trigger)), sz, at, atomic.LoadInt32(&evI) + 1, atomic.LoadInt32(&evN)}
	}
	names := "abcdefgh"
	for i := 0; i < sc.LTs; i++ {
		d, err := r.newLT(p, string(names[i]))
		if err != nil {
			return r.out, map[string]interface{}{"stuck": "setup: " + err.Error()}
		}
		ds = append(ds, d)
		left := sc.Sends
		s.AddEnv("send:"+d.name, sc.Sends, func() bool { return left > 0 }, func() { left--; d.send(r, 3) })
	}
	for i := 0; i < sc.ETs; i++ {
		d, reg, err := r.newET(p, "e"+fmt.Sprint(i+1))
		if err != nil {
			return r.out, map[string]interface{}{"stuck": "setup: " + err.Error()}
		}
		ds = append(ds, d)
		s.AddEnv("reg:"+d.name, 1, func() bool { return atomic.LoadInt32(&exited) == 0 }, reg)
	}
	efd, wfd := p.fd, p.wop.FD
	s.Go("loop", func() {
		err := p.Wait()
		closed := 0
		if !vFdIsOpen(efd) && !vFdIsOpen(wfd) {
			closed = 1
		}
		atomic.StoreInt32(&exited, 1)
		e := ""
		if err != nil {
			e = err.Error()
		}
		r.ev("LoopExit", "", closed, 0, e)
	})
	for t := 1; t <= sc.Trigs; t++ {
		name := fmt.Sprintf("t%d", t)
		s.Go(name, func() {
			for c := 0; c < sc.Calls; c++ {
				p.Trigger() // TrigCall is recorded when the call takes effect (see wrapHook)
				r.ev("TrigRet", name, c, 0, "")
			}
		})
	}
	if sc.Close {
		s.Go("closer", func() {
			r.ev("CloseCall", "", 0, 0, "")
			p.Close()
			r.ev("CloseRet", "", 0, 0, "")
		})
	}
	s.Run()
	// quiescent: is the loop parked in front of a blocking epoll_wait with nothing to fetch?
	state := 0
	for _, b := range s.blockedAtEnd {
		if b.name == "loop" && b.gate.pt == vpPollWait && b.gate.a == -1 {
			state = 1
		}
	}
	if atomic.LoadInt32(&exited) != 0 {
		state = 2
	}
	r.ev("Quiescent", "", state, 0, s.stuck)
	info := map[string]interface{}{"id": sc.ID, "taken": s.taken, "gates": s.gateLog, "proj": s.projLog, "stalled": s.stalled, "steps": len(s.taken),
		"stuck": s.stuck, "deadlock": false, "drift": s.drift}
	return r.out, info
}

// ---- free-running, stock sizes ---------------------------------------------------------------------

type vPLObserver struct {
	p        *defaultPoll
	idle     int32 // the loop passed the point in front of epoll_wait(-1) and has not entered the handler since
	wakes    int32 // handler entries
	inCB     int32
	gate     chan struct{}
	gateOnce sync.Once
}

func (o *vPLObserver) hook(pt int32, obj unsafe.Pointer, a, b int64) {
	switch pt {
	case vpPollWait:
		if obj == unsafe.Pointer(o.p) {
			if a == -1 {
				atomic.StoreInt32(&o.idle, 1)
			} else {
				atomic.StoreInt32(&o.idle, 0)
			}
		}
	case vpHandlerEvent:
		if obj == unsafe.Pointer(o.p) && a == 0 {
			atomic.StoreInt32(&o.idle, 0)
			atomic.AddInt32(&o.wakes, 1)
		}
	}
}

// waitIdle: the loop sits in epoll_wait(-1) (or is about to) and the kernel has nothing for it
func (o *vPLObserver) waitIdle() bool {
	stable := 0
	for i := 0; i < 20000; i++ {
		if atomic.LoadInt32(&o.idle) == 1 && !vEpollHasEvents(o.p.fd) {
			stable++
			if stable >= 10 {
				return true
			}
		} else {
			stable = 0
		}
		time.Sleep(200 * time.Microsecond)
	}
	return false
}

func vRunPLFree(sc *vPLScenario) ([]vOutEvent, map[string]interface{}) {
	r := &vPLRun{}
	p, err := openDefaultPoll()
	if err != nil {
		return nil, map[string]interface{}{"stuck": "setup: " + err.Error()}
	}
	o := &vPLObserver{p: p}
	verifHook = o.hook
	var ds []*vPLDesc
	var exited int32
	defer func() { vPLCleanup(p, ds, &exited); verifHook = nil }()
	efd, wfd := p.fd, p.wop.FD
	go func() {
		err := p.Wait()
		closed := 0
		if !vFdIsOpen(efd) && !vFdIsOpen(wfd) {
			closed = 1
		}
		e := ""
		if err != nil {
			e = err.Error()
		}
		r.ev("LoopExit", "", closed, 0, e)
		atomic.StoreInt32(&exited, 1)
	}()
	r.ev("Init", "", sc.LTs, sc.ETs, "")
	info := map[string]interface{}{"id": sc.ID, "stuck": "", "deadlock": false, "taken": []string{}, "steps": 0}
	switch sc.Mode {
	case "bigbatch":
		// park the loop inside a callback, make everything ready behind its back, let it go: the next
		// epoll_wait sees LTs+ETs ready descriptors at once
		blocker, err := r.newLT(p, "blocker")
		if err != nil {
			info["stuck"] = "setup: " + err.Error()
			return r.out, info
		}
		ds = append(ds, blocker)
		release := make(chan struct{})
		inside := make(chan struct{}, 1)
		ack := blocker.op.InputAck
		first := true
		blocker.op.InputAck = func(n int) error {
			if first {
				first = false
				inside <- struct{}{}
				<-release
			}
			return ack(n)
		}
		var lts, ets []*vPLDesc
		var regs []func()
		for i := 0; i < sc.LTs; i++ {
			d, err := r.newLT(p, fmt.Sprintf("l%d", i))
			if err != nil {
				info["stuck"] = "setup: " + err.Error()
				return r.out, info
			}
			ds, lts = append(ds, d), append(lts, d)
		}
		for i := 0; i < sc.ETs; i++ {
			d, reg, err := r.newET(p, fmt.Sprintf("e%d", i))
			if err != nil {
				info["stuck"] = "setup: " + err.Error()
				return r.out, info
			}
			ds, ets, regs = append(ds, d), append(ets, d), append(regs, reg)
		}
		if !o.waitIdle() {
			info["stuck"] = "setup: loop did not become idle"
			return r.out, info
		}
		blocker.send(r, 5)
		select {
		case <-inside:
		case <-time.After(3 * time.Second):
			info["stuck"] = "setup: loop never entered the blocking callback"
			return r.out, info
		}
		if sc.ETFirst {
			for _, reg := range regs {
				reg()
			}
		}
		for _, d := range lts {
			d.send(r, 3)
		}
		if !sc.ETFirst {
			for _, reg := range regs {
				reg()
			}
		}
		close(release)
		// a second wave while the first is being handled (the batch after the growth)
		for _, d := range lts {
			d.send(r, 2)
		}
		// give the loop up to 3 s to deliver everything before it is judged
		for i := 0; i < 6000 && !r.complete(append(lts, blocker), ets); i++ {
			time.Sleep(500 * time.Microsecond)
		}
		if !o.waitIdle() {
			info["stuck"] = "loop did not become idle again"
		}
		r.ev("Quiescent", "", 1, 0, "")
	case "storm":
		var wg sync.WaitGroup
		start := make(chan struct{})
		for t := 1; t <= sc.Trigs; t++ {
			wg.Add(1)
			name := fmt.Sprintf("t%d", t)
			go func() {
				defer wg.Done()
				<-start
				for c := 0; c < sc.Calls; c++ {
					p.Trigger()
					if c%64 == 63 {
						time.Sleep(time.Microsecond)
					}
				}
				_ = name
			}()
		}
		close(start)
		wg.Wait()
		if !o.waitIdle() {
			info["stuck"] = "setup: loop did not become idle after the storm"
			return r.out, info
		}
		w0 := atomic.LoadInt32(&o.wakes)
		r.ev("LoopIdle", "", 0, 0, "")
		r.ev("TrigCall", "t0", 0, 0, "")
		p.Trigger()
		r.ev("TrigRet", "t0", 0, 0, "")
		woke := false
		for i := 0; i < 10000; i++ {
			if atomic.LoadInt32(&o.wakes) != w0 {
				woke = true
				break
			}
			time.Sleep(200 * time.Microsecond)
		}
		if woke {
			r.ev("LoopWake", "", 1, 0, "")
			o.waitIdle()
			r.ev("LoopIdle", "", 0, 0, "")
		}
		r.ev("Quiescent", "", 1, 0, "")
		if sc.Close {
			r.ev("CloseCall", "", 0, 0, "")
			p.Close()
			r.ev("CloseRet", "", 0, 0, "")
			for i := 0; i < 4000 && atomic.LoadInt32(&exited) == 0; i++ {
				time.Sleep(500 * time.Microsecond)
			}
			st := 1
			if atomic.LoadInt32(&exited) != 0 {
				st = 2
			}
			r.mu.Lock()
			// LoopExit is recorded by the loop goroutine itself
			r.mu.Unlock()
			r.ev("Quiescent", "", st, 0, "")
		}
	}
	return r.out, info
}

func TestVerifPollLoop(t *testing.T) {
	in, outp := os.Getenv("VERIF_IN"), os.Getenv("VERIF_OUT")
	if in == "" || outp == "" {
		t.Skip("VERIF_IN/VERIF_OUT not set")
	}
	raw, err := os.ReadFile(in)
	if err != nil {
		t.Fatal(err)
	}
	var wo struct {
		Scenarios []vPLScenario `json:"scenarios"`
	}
	if err := json.Unmarshal(raw, &wo); err != nil {
		t.Fatal(err)
	}
	f, err := os.Create(outp)
	if err != nil {
		t.Fatal(err)
	}
	defer f.Close()
	enc := json.NewEncoder(f)
	for i := range wo.Scenarios {
		sc := &wo.Scenarios[i]
		var evs []vOutEvent
		var info map[string]interface{}
		if sc.Mode == "controlled" || sc.Mode == "" {
			evs, info = vRunPLControlled(sc)
		} else {
			evs, info = vRunPLFree(sc)
		}
		enc.Encode(map[string]interface{}{"scenario": sc.ID, "info": info, "events": evs})
	}
}
