//go:build verif
// +build verif

package netpoll

// Free-running stream sessions on real sockets with the stock pollers (no controlled scheduler):
// a sender endpoint pushes a position-coded byte stream through a mix of Writer methods, the
// receiver endpoint consumes it through a mix of Reader methods (OnRequest handler or a blocking
// reader goroutine).  Events (Submit / Flushed / Deliver / SenderClosed / Eos) are sequenced by an
// atomic counter at emission and validated by TLC against StreamObs.tla.

import (
	"context"
	"encoding/json"
	"fmt"
	"math/rand"
	"net"
	"os"
	"sync"
	"sync/atomic"
	"testing"
	"time"
)

type vStreamSpec struct {
	ID        string `json:"id"`
	Seed      int64  `json:"seed"`
	Transport string `json:"transport"` // tcp | unix
	Total     int    `json:"total"`     // bytes to send
	MaxChunk  int    `json:"maxchunk"`
	Receiver  string `json:"receiver"` // handler | reader | rawpeer (plain net.Conn reads, netpoll sends)
	Sender    string `json:"sender"`   // netpoll | rawpeer (plain net.Conn writes, netpoll receives)
	SlowRead  bool   `json:"slowread"`
}

type vStreamEvent struct {
	T   int    `json:"t"`
	Q   int64  `json:"q"`
	E   string `json:"e"`
	N   int    `json:"n"`
	M   int    `json:"m"`
	Err string `json:"err"`
}

type vStreamRun struct {
	sp   *vStreamSpec
	seq  int64
	mu   sync.Mutex
	evs  []vStreamEvent
	rpos int
}

func (r *vStreamRun) ev(e string, n, m int, err string) {
	r.mu.Lock()
	r.seq++
	r.evs = append(r.evs, vStreamEvent{Q: r.seq, E: e, N: n, M: m, Err: err})
	r.mu.Unlock()
}

func vFillStream(p []byte, pos int) {
	for i := range p {
		p[i] = vStreamByte(pos + i)
	}
}

func vCheckStream(p []byte, pos int) int {
	for i := range p {
		if p[i] != vStreamByte(pos+i) {
			return 0
		}
	}
	return 1
}

// send pushes sp.Total bytes through conn's Writer with a random API mix
func (r *vStreamRun) send(conn Connection, rnd *rand.Rand) {
	sp := r.sp
	pos := 0
	w := conn.Writer()
	for pos < sp.Total {
		// one flush group of 1..4 writer calls
		group := 0
		calls := 1 + rnd.Intn(4)
		var err error
		start := pos
		for c := 0; c < calls && pos < sp.Total && err == nil; c++ {
			n := 1 + rnd.Intn(sp.MaxChunk)
			if rnd.Intn(4) == 0 {
				n = []int{1, 2, 1023, 1024, 1025, 4095, 4096, 4097, 8191, 8192, 8193}[rnd.Intn(11)]
			}
			if n > sp.Total-pos {
				n = sp.Total - pos
			}
			switch rnd.Intn(7) {
			case 0, 1:
				var buf []byte
				buf, err = w.Malloc(n)
				if err == nil {
					vFillStream(buf, pos)
				}
			case 2:
				buf := make([]byte, n)
				vFillStream(buf, pos)
				_, err = w.WriteBinary(buf)
			case 3:
				buf := make([]byte, n)
				vFillStream(buf, pos)
				_, err = w.WriteString(string(buf))
			case 4:
				err = w.WriteByte(vStreamByte(pos))
				n = 1
			case 5:
				// Malloc more than needed, then give part of it back
				extra := rnd.Intn(64)
				var buf []byte
				buf, err = w.Malloc(n + extra)
				if err == nil {
					vFillStream(buf[:n], pos)
					err = w.MallocAck(w.MallocLen() - extra)
				}
			case 6:
				// a separately built buffer appended (the mux pattern)
				lb := NewLinkBuffer()
				buf, _ := lb.Malloc(n)
				vFillStream(buf, pos)
				if rnd.Intn(2) == 0 {
					lb.Flush()
				}
				err = w.Append(lb)
			}
			if err == nil {
				pos += n
				group += n
			}
		}
		if err != nil {
			r.ev("WriteErr", 0, 0, err.Error())
			pos = start
			break
		}
		r.ev("Submit", group, 0, "")
		if rnd.Intn(5) == 0 && group > 0 {
			// io.Writer style on top: flush what is pending first
			err = w.Flush()
		} else {
			err = w.Flush()
		}
		r.ev("Flushed", group, 0, vErrClass(err))
		if err != nil {
			break
		}
	}
}

// consume reads everything available through a random Reader API mix; returns false on end of stream
func (r *vStreamRun) consumeSome(conn Connection, rnd *rand.Rand, blocking bool) bool {
	rd := conn.Reader()
	n := rd.Len()
	if blocking {
		n = 1 + rnd.Intn(r.sp.MaxChunk)
	} else if n == 0 {
		return true
	} else if n > 1 && rnd.Intn(2) == 0 {
		n = 1 + rnd.Intn(n)
	}
	var p []byte
	var err error
	switch rnd.Intn(6) {
	case 0, 1:
		p, err = rd.Next(n)
	case 2:
		p, err = rd.ReadBinary(n)
	case 3:
		var s string
		s, err = rd.ReadString(n)
		p = []byte(s)
	case 4:
		var pk []byte
		pk, err = rd.Peek(n)
		if err == nil {
			if vCheckStream(pk, r.rpos) == 0 {
				r.ev("Deliver", 0, 0, "peek")
			}
			err = rd.Skip(n)
			p = pk
		}
	case 5:
		var sl Reader
		sl, err = rd.Slice(n)
		if err == nil {
			p, err = sl.Next(n)
			if err == nil {
				p = append([]byte(nil), p...)
			}
			sl.Release()
		}
	}
	if err != nil {
		// fewer than n bytes will ever come: take what is left
		left := rd.Len()
		if left > 0 {
			p, _ = rd.Next(left)
			r.ev("Deliver", len(p), vCheckStream(p, r.rpos), "")
			r.rpos += len(p)
		}
		r.ev("ReadErr", 0, 0, vErrClass(err))
		rd.Release()
		return false
	}
	r.ev("Deliver", len(p), vCheckStream(p, r.rpos), "")
	r.rpos += len(p)
	if rnd.Intn(3) != 0 {
		rd.Release()
	}
	return true
}

func vRunStream(sp *vStreamSpec) []vStreamEvent {
	r := &vStreamRun{sp: sp}
	rnd := rand.New(rand.NewSource(sp.Seed))
	rndR := rand.New(rand.NewSource(sp.Seed + 7))
	addr := "127.0.0.1:0"
	if sp.Transport == "unix" {
		addr = fmt.Sprintf("/tmp/verif-stream-%d-%d.sock", os.Getpid(), sp.Seed)
		os.Remove(addr)
		defer os.Remove(addr)
	}
	done := make(chan struct{})
	var once sync.Once
	finish := func() { once.Do(func() { close(done) }) }
	r.ev("Init", sp.Total, 0, sp.Receiver)

	if sp.Sender == "rawpeer" {
		// plain net listener writes; netpoll dialer receives with a blocking reader goroutine
		ln, err := net.Listen(sp.Transport, addr)
		if err != nil {
			r.ev("SetupErr", 0, 0, err.Error())
			return r.evs
		}
		defer ln.Close()
		dialed := make(chan struct{})
		go func() {
			c, err := ln.Accept()
			if err != nil {
				return
			}
			// start sending only once the dial has returned: a peer that sends and closes before that makes the
			// dial itself fail (hang-up seen together with writability), which is an allowed dial outcome
			select {
			case <-dialed:
			case <-time.After(5 * time.Second):
			}
			pos := 0
			for pos < sp.Total {
				n := 1 + rnd.Intn(sp.MaxChunk)
				if n > sp.Total-pos {
					n = sp.Total - pos
				}
				buf := make([]byte, n)
				vFillStream(buf, pos)
				r.ev("Submit", n, 0, "")
				_, err := c.Write(buf)
				r.ev("Flushed", n, 0, vErrClass(err))
				if err != nil {
					break
				}
				pos += n
				if rnd.Intn(8) == 0 {
					time.Sleep(time.Duration(rnd.Intn(300)) * time.Microsecond)
				}
			}
			r.ev("SenderClosed", 0, 0, "")
			c.Close()
		}()
		conn, err := DialConnection(sp.Transport, ln.Addr().String(), 2*time.Second)
		close(dialed)
		if err != nil {
			r.ev("SetupErr", 0, 0, err.Error())
			return r.evs
		}
		go func() {
			for r.consumeSome(conn, rndR, true) {
				if sp.SlowRead && rndR.Intn(4) == 0 {
					time.Sleep(time.Duration(rndR.Intn(200)) * time.Microsecond)
				}
			}
			r.ev("Eos", r.rpos, 0, "")
			conn.Close()
			finish()
		}()
	} else {
		// netpoll server receives (handler), netpoll dialer (or raw conn) sends
		ln, err := CreateListener(sp.Transport, addr)
		if err != nil {
			r.ev("SetupErr", 0, 0, err.Error())
			return r.evs
		}
		var el EventLoop
		el, _ = NewEventLoop(func(ctx context.Context, conn Connection) error {
			for conn.Reader().Len() > 0 {
				if !r.consumeSome(conn, rndR, false) {
					break
				}
				if sp.SlowRead && rndR.Intn(4) == 0 {
					time.Sleep(time.Duration(rndR.Intn(200)) * time.Microsecond)
				}
			}
			return nil
		}, WithOnPrepare(func(conn Connection) context.Context {
			conn.AddCloseCallback(func(Connection) error {
				r.ev("Eos", r.rpos, 0, "")
				finish()
				return nil
			})
			return context.Background()
		}))
		go el.Serve(ln)
		defer func() {
			ctx, cancel := context.WithTimeout(context.Background(), 2*time.Second)
			el.Shutdown(ctx)
			cancel()
		}()
		conn, err := DialConnection(sp.Transport, ln.Addr().String(), 2*time.Second)
		if err != nil {
			r.ev("SetupErr", 0, 0, err.Error())
			return r.evs
		}
		go func() {
			r.send(conn, rnd)
			r.ev("SenderClosed", 0, 0, "")
			conn.Close()
		}()
	}
	select {
	case <-done:
	case <-time.After(20 * time.Second):
		r.ev("Timeout", r.rpos, 0, "")
	}
	r.mu.Lock()
	defer r.mu.Unlock()
	return append([]vStreamEvent(nil), r.evs...)
}

var vStreamSeq int64

func TestVerifStreamFree(t *testing.T) {
	in, outp := os.Getenv("VERIF_IN"), os.Getenv("VERIF_OUT")
	if in == "" || outp == "" {
		t.Skip("VERIF_IN/VERIF_OUT not set")
	}
	raw, err := os.ReadFile(in)
	if err != nil {
		t.Fatal(err)
	}
	var wo struct {
		Sessions []vStreamSpec `json:"sessions"`
		Parallel int           `json:"parallel"`
	}
	if err := json.Unmarshal(raw, &wo); err != nil {
		t.Fatal(err)
	}
	f, err := os.Create(outp)
	if err != nil {
		t.Fatal(err)
	}
	defer f.Close()
	enc := json.NewEncoder(f)
	var emu sync.Mutex
	par := wo.Parallel
	if par <= 0 {
		par = 4
	}
	sem := make(chan struct{}, par)
	var wg sync.WaitGroup
	for i := range wo.Sessions {
		sp := &wo.Sessions[i]
		wg.Add(1)
		sem <- struct{}{}
		go func() {
			defer wg.Done()
			defer func() { <-sem }()
			evs := vRunStream(sp)
			emu.Lock()
			enc.Encode(map[string]interface{}{"session": sp.ID, "events": evs})
			emu.Unlock()
		}()
	}
	wg.Wait()
	_ = atomic.LoadInt64(&vStreamSeq)
}
