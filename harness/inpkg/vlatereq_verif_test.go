//go:build verif
// +build verif

package netpoll

// Free-running race for C06: SetOnRequest on a dialed connection against the poller's first delivery.  There is no
// schedule point between SetOnRequest's two statements (publish the handler, look at the buffer), so the controlled
// scheduler cannot split them; here two long-lived goroutines - one playing the poller's input path (do, inputs,
// inputAck, done), one calling SetOnRequest - are released together with a swept offset, thousands of times.  After
// each round nothing else will happen: the delivered byte must have reached the handler.
// Output: $VERIF_OUT = {"rounds":..,"stranded":..,"detail":..}

import (
	"context"
	"encoding/json"
	"fmt"
	"os"
	"runtime"
	"sync/atomic"
	"syscall"
	"testing"
	"time"
)

func TestVerifLateSetOnRequestRace(t *testing.T) {
	outp := os.Getenv("VERIF_OUT")
	if outp == "" {
		t.Skip("VERIF_OUT not set")
	}
	budget := 4 * time.Second
	if v := os.Getenv("VERIF_BUDGET_MS"); v != "" {
		var ms int
		fmt.Sscan(v, &ms)
		budget = time.Duration(ms) * time.Millisecond
	}
	if runtime.GOMAXPROCS(0) < 4 {
		defer runtime.GOMAXPROCS(runtime.GOMAXPROCS(4))
	}
	verifHook = nil
	fds, err := syscall.Socketpair(syscall.AF_UNIX, syscall.SOCK_STREAM, 0)
	if err != nil {
		t.Fatal(err)
	}
	defer syscall.Close(fds[1])
	c := new(connection)
	if err := c.init(&netFD{fd: fds[0], network: "unix", localAddr: &UnixAddr{}, remoteAddr: &UnixAddr{}}, nil); err != nil {
		t.Fatal(err)
	}
	defer c.Close()
	var handled int64
	var handler OnRequest = func(ctx context.Context, conn Connection) error {
		if n := conn.Reader().Len(); n > 0 {
			conn.Reader().Skip(n)
			conn.Reader().Release()
			atomic.AddInt64(&handled, int64(n))
		}
		return nil
	}
	var round, pollerAt, userAt, pollerReady, userReady, pollerDelay, userDelay int64
	const stop = int64(-1)
	spin := func(n int64) {
		for i := int64(0); i < n; i++ {
			atomic.LoadInt64(&round)
		}
	}
	vs := make([][]byte, 1)
	go func() { // the poller's input path
		for i := int64(1); ; i++ {
			for !c.operator.do() {
				runtime.Gosched()
			}
			bs := c.inputs(vs)
			bs[0][0] = 'x'
			atomic.StoreInt64(&pollerReady, i)
			for atomic.LoadInt64(&round) != i {
				if atomic.LoadInt64(&round) == stop {
					c.inputAck(0)
					c.operator.done()
					atomic.StoreInt64(&pollerAt, stop)
					return
				}
			}
			spin(atomic.LoadInt64(&pollerDelay))
			c.inputAck(1)
			c.operator.done()
			atomic.StoreInt64(&pollerAt, i)
		}
	}()
	go func() { // the user
		for i := int64(1); ; i++ {
			atomic.StoreInt64(&userReady, i)
			for atomic.LoadInt64(&round) != i {
				if atomic.LoadInt64(&round) == stop {
					atomic.StoreInt64(&userAt, stop)
					return
				}
			}
			spin(atomic.LoadInt64(&userDelay))
			c.SetOnRequest(handler)
			atomic.StoreInt64(&userAt, i)
		}
	}()
	waitFor := func(cond func() bool, d time.Duration) bool {
		deadline := time.Now().Add(d)
		for n := 0; !cond(); n++ {
			if time.Now().After(deadline) {
				return false
			}
			if n < 200 {
				runtime.Gosched()
			} else {
				time.Sleep(50 * time.Microsecond)
			}
		}
		return true
	}
	finish := func() {
		atomic.StoreInt64(&round, stop)
		waitFor(func() bool { return atomic.LoadInt64(&pollerAt) == stop && atomic.LoadInt64(&userAt) == stop }, 5*time.Second)
	}
	rounds, stranded, detail := int64(0), 0, ""
	end := time.Now().Add(budget)
	for i := int64(1); time.Now().Before(end); i++ {
		c.onRequestCallback = atomic.Value{} // quiescent: no handler, nothing buffered, no task
		if !waitFor(func() bool { return atomic.LoadInt64(&pollerReady) == i && atomic.LoadInt64(&userReady) == i }, 10*time.Second) {
			detail = "harness: actors not ready"
			break
		}
		atomic.StoreInt64(&pollerDelay, (i*7)%23)
		atomic.StoreInt64(&userDelay, (i*3)%19)
		atomic.StoreInt64(&round, i)
		if !waitFor(func() bool { return atomic.LoadInt64(&pollerAt) == i && atomic.LoadInt64(&userAt) == i }, 10*time.Second) {
			detail = "harness: actors did not finish"
			break
		}
		rounds = i
		if !waitFor(func() bool { return atomic.LoadInt64(&handled) == i }, 3*time.Second) {
			stranded++
			detail = fmt.Sprintf("round %d: %d byte(s) buffered, handler set, no invocation in progress (processing key free: %v), nothing more will arrive", i, c.inputBuffer.Len(), c.isUnlock(processing))
			break
		}
	}
	finish()
	raw, _ := json.Marshal(map[string]interface{}{"rounds": rounds, "stranded": stranded, "detail": detail})
	os.WriteFile(outp, raw, 0644)
}
