//go:build verif
// +build verif

package netpoll

// Manual poller: a real defaultPoll (real epoll, real eventfd) whose Wait loop is not started.
// The "poller" actor performs the three statements of Wait's loop body itself - EpollWait(0),
// Handler(events), opcache.free() - as separate scheduler steps (the handler additionally parks at
// the per-event point), so fetch and dispatch can be interleaved with the other actors.

import (
	"fmt"
	"os"
	"regexp"
	"runtime/debug"
	"strings"
	"syscall"
	"unsafe"

	"golang.org/x/sys/unix"
)

type vManualPoll struct {
	p    *defaultPoll
	s    *vSched
	stop bool
	name string
	// optional observers (slot scenarios): slots of the fetched events, end of the batch
	onFetch    func(slots []int)
	onBatchEnd func()
}

func vNewManualPoll(s *vSched, name string) *vManualPoll {
	p, err := openDefaultPoll()
	if err != nil {
		panic(err)
	}
	p.Reset(128, barriercap)
	return &vManualPoll{p: p, s: s, name: name}
}

func (m *vManualPoll) ready() bool {
	if m.stop && m.s.active {
		return true
	}
	fds := []unix.PollFd{{Fd: int32(m.p.fd), Events: unix.POLLIN}}
	n, _ := unix.Poll(fds, 0)
	return n > 0 && fds[0].Revents&unix.POLLIN != 0
}

// step mirrors the body of defaultPoll.Wait's loop (checked against the source text by vWaitMirrorOK).
func (m *vManualPoll) step() (closed bool) {
	n, err := EpollWait(m.p.fd, m.p.events, 0)
	if err != nil && err != syscall.EINTR {
		return true
	}
	if n <= 0 {
		return false
	}
	if m.onFetch != nil {
		var slots []int
		for i := 0; i < n; i++ {
			if op := m.p.getOperator(0, unsafe.Pointer(&m.p.events[i].data)); op != nil && op != m.p.wop {
				slots = append(slots, int(op.index))
			}
		}
		m.onFetch(slots)
	}
	if m.p.Handler(m.p.events[:n]) {
		return true
	}
	m.p.opcache.free()
	if m.onBatchEnd != nil {
		m.onBatchEnd()
	}
	return false
}

// safeStep: a panic inside the poller's dispatch is recorded (with the side of the reactor it happened on)
// instead of killing the test process; the poller actor ends.
func (m *vManualPoll) safeStep() (stop bool) {
	defer func() {
		if x := recover(); x != nil {
			st := string(debug.Stack())
			side := "poller"
			switch {
			case strings.Contains(st, ".outputAck(") || strings.Contains(st, ".outputs("):
				side = "poller:output"
			case strings.Contains(st, ".inputAck(") || strings.Contains(st, ".inputs("):
				side = "poller:input"
			}
			if m.s.emit != nil {
				m.s.emit("Panic", side, 0, 0, fmt.Sprint(x)+" | "+vShortStack())
			}
			stop = true
		}
	}()
	return m.step()
}

func (m *vManualPoll) start() {
	prev := m.s.onStop
	m.s.onStop = func() {
		m.stop = true // the poller actor must not keep stepping the poller once the scheduler has stopped
		if prev != nil {
			prev()
		}
	}
	m.s.Go(m.name, func() {
		a := m.s.lookup(vGID())
		a.daemon = true
		for {
			m.s.park(a, vGate{pt: vpxPollFetch, obj: unsafe.Pointer(m)})
			if m.stop {
				return
			}
			if m.safeStep() {
				return
			}
		}
	})
}

// close shuts the poller down outside the scheduler (after Run returned).
func (m *vManualPoll) close() {
	m.stop = true
	m.p.Close()
	for i := 0; i < 100; i++ {
		if m.step() {
			return
		}
	}
}

// vInstallPolls makes pollmanager hand out the given pollers (no Wait loops are started).
func vInstallPolls(ps ...*vManualPoll) (restore func()) {
	old := *pollmanager
	polls := make([]Poll, len(ps))
	for i, p := range ps {
		polls[i] = p.p
	}
	pollmanager.polls = polls
	pollmanager.numLoops = int32(len(polls))
	pollmanager.balance = newLoadbalance(RoundRobin, polls)
	pollmanager.status = managerInitialized
	return func() { *pollmanager = old }
}

// vWaitMirrorOK checks that defaultPoll.Wait still has the loop body that step() mirrors.
func vWaitMirrorOK() bool {
	src, err := os.ReadFile("poll_default_linux.go")
	if err != nil {
		return true // source not available: nothing to compare
	}
	re := regexp.MustCompile(`(?s)n, err = EpollWait\(p\.fd, p\.events, msec\).*?if p\.Handler\(p\.events\[:n\]\) \{\s*return nil\s*\}.*?p\.opcache\.free\(\)`)
	return re.Match(src)
}

func vFdIsOpen(fd int) bool {
	_, err := unix.FcntlInt(uintptr(fd), unix.F_GETFD, 0)
	return err == nil
}

// vPdCtxDone is set by the dial scenario: has the dial's context been cancelled / expired?
var vPdCtxDone func() bool

// vPdReady: the three-way select of pollDesc.WaitWrite can proceed
func vPdReady(pd *pollDesc, which int64) bool {
	select {
	case <-pd.writeTrigger:
		return true
	default:
	}
	select {
	case <-pd.closeTrigger:
		return true
	default:
	}
	return vPdCtxDone != nil && vPdCtxDone()
}

func vPtr(p *int32) unsafe.Pointer { return unsafe.Pointer(p) }
