//go:build verif
// +build verif

package netpoll

// Executes the vectors of PollerObs.tla: the kernel-side state of one descriptor is built on real
// sockets, a recording FDOperator is registered with a real defaultPoll, and the real handler
// dispatches either what the kernel reports ("real") or a synthesised event with the vector's flags
// ("synth"), followed by real batches until nothing is ready any more.

import (
	"encoding/json"
	"fmt"
	"net"
	"os"
	"sync"
	"sync/atomic"
	"syscall"
	"testing"
	"time"
	"unsafe"
)

type vPollVector struct {
	T         int      `json:"t"`
	Flags     []string `json:"flags"`
	Pending   int      `json:"pending"`
	Peer      string   `json:"peer"`
	Out       bool     `json:"out"`
	Way       string   `json:"way"`
	Transport string   `json:"transport"`
}

type vPollEvent struct {
	T   int    `json:"t"`
	E   string `json:"e"`
	K   string `json:"k"`
	N   int    `json:"n"`
	M   int    `json:"m"`
	Err string `json:"err"`
}

type vPollRun struct {
	mu   sync.Mutex
	evs  []vPollEvent
	p    *defaultPoll
	op   *FDOperator
	fd   int
	peer int
	buf  []byte
	rpos int
	out  []byte
	hups int32
	// hang-up goroutines announced by the poller (vpSpawnHup) that have not finished (vpHupEnd) yet
	hupPending int32
}

// waitHups: the hang-up callbacks run on a goroutine of their own; wait for it instead of guessing a delay
func (r *vPollRun) waitHups() {
	for i := 0; i < 25000 && atomic.LoadInt32(&r.hupPending) > 0; i++ {
		time.Sleep(200 * time.Microsecond)
	}
}

func (r *vPollRun) ev(e, k string, n, m int, err string) {
	r.mu.Lock()
	r.evs = append(r.evs, vPollEvent{E: e, K: k, N: n, M: m, Err: err})
	r.mu.Unlock()
}

func vSockPair(transport string) (fd, peer int, err error) {
	if transport == "unix" {
		fds, e := syscall.Socketpair(syscall.AF_UNIX, syscall.SOCK_STREAM, 0)
		if e != nil {
			return 0, 0, e
		}
		return fds[0], fds[1], nil
	}
	ln, e := net.Listen("tcp", "127.0.0.1:0")
	if e != nil {
		return 0, 0, e
	}
	defer ln.Close()
	ch := make(chan net.Conn, 1)
	go func() {
		c, _ := ln.Accept()
		ch <- c
	}()
	c1, e := net.Dial("tcp", ln.Addr().String())
	if e != nil {
		return 0, 0, e
	}
	c2 := <-ch
	if c2 == nil {
		return 0, 0, fmt.Errorf("accept failed")
	}
	dup := func(c net.Conn) int {
		f, _ := c.(*net.TCPConn).File()
		nfd, _ := syscall.Dup(int(f.Fd()))
		f.Close()
		c.Close()
		return nfd
	}
	return dup(c1), dup(c2), nil
}

func (r *vPollRun) peerInq() int {
	n, err := vIoctlInt(r.peer, syscall.TIOCINQ)
	if err != nil {
		return 0
	}
	return n
}

func (r *vPollRun) registered() int {
	var evt epollevent
	r.p.setOperator(unsafe.Pointer(&evt.data), r.op)
	evt.events = syscall.EPOLLIN | syscall.EPOLLRDHUP | syscall.EPOLLERR
	if err := EpollCtl(r.p.fd, syscall.EPOLL_CTL_MOD, r.fd, &evt); err == nil {
		return 1
	}
	return 0
}

func (r *vPollRun) pump() {
	for i := 0; i < 40; i++ {
		n, err := EpollWait(r.p.fd, r.p.events, 0)
		if err != nil && err != syscall.EINTR {
			return
		}
		if n <= 0 {
			// let the asynchronous hang-up goroutine finish, then look once more
			r.waitHups()
			time.Sleep(300 * time.Microsecond)
			n, _ = EpollWait(r.p.fd, r.p.events, 0)
			if n <= 0 {
				return
			}
		}
		if r.p.Handler(r.p.events[:n]) {
			return
		}
		r.p.opcache.free()
	}
}

func vFlagBits(fs []string) (bits uint32, hasErr int) {
	for _, f := range fs {
		switch f {
		case "IN":
			bits |= syscall.EPOLLIN
		case "OUT":
			bits |= syscall.EPOLLOUT
		case "RDHUP":
			bits |= syscall.EPOLLRDHUP
		case "HUP":
			bits |= syscall.EPOLLHUP
		case "ERR":
			bits |= syscall.EPOLLERR
			hasErr = 1
		}
	}
	return
}

func vRunPollVector(v *vPollVector) (out []vPollEvent) {
	r := &vPollRun{buf: make([]byte, 4096)}
	defer func() {
		if x := recover(); x != nil {
			r.ev("Panic", "", 0, 0, fmt.Sprint(x))
		}
		out = r.evs
	}()
	p, err := openDefaultPoll()
	if err != nil {
		r.ev("SetupErr", "", 0, 0, err.Error())
		return
	}
	p.Reset(128, barriercap)
	r.p = p
	verifHook = func(pt int32, obj unsafe.Pointer, a, b int64) {
		if obj == unsafe.Pointer(p) {
			if pt == vpSpawnHup {
				atomic.AddInt32(&r.hupPending, 1)
			} else if pt == vpHupEnd {
				atomic.AddInt32(&r.hupPending, -1)
			}
		}
	}
	defer func() { verifHook = nil }()
	defer func() {
		p.Close()
		for i := 0; i < 10; i++ {
			n, _ := EpollWait(p.fd, p.events, 0)
			if n > 0 && p.Handler(p.events[:n]) {
				break
			}
		}
	}()
	r.fd, r.peer, err = vSockPair(v.Transport)
	if err != nil {
		r.ev("SetupErr", "", 0, 0, err.Error())
		return
	}
	peerOpen := true
	defer func() {
		syscall.Close(r.fd)
		if peerOpen {
			syscall.Close(r.peer)
		}
	}()
	syscall.SetNonblock(r.fd, true)
	syscall.SetNonblock(r.peer, true)
	r.ev("Init", v.Peer, 0, 0, "")
	if v.Out {
		r.out = []byte("hello")
	}
	op := p.Alloc()
	r.op = op
	op.FD = r.fd
	op.Inputs = func(vs [][]byte) [][]byte {
		vs[0] = r.buf
		return vs[:1]
	}
	op.InputAck = func(n int) error {
		ok := 1
		for i := 0; i < n && i < len(r.buf); i++ {
			if r.buf[i] != vStreamByte(r.rpos+i) {
				ok = 0
			}
		}
		if n > 0 {
			r.rpos += n
		}
		if n < 0 {
			n = 0
		}
		r.ev("InputAck", "", n, ok, "")
		return nil
	}
	op.Outputs = func(vs [][]byte) ([][]byte, bool) {
		if len(r.out) == 0 {
			op.Control(PollRW2R)
			return nil, false
		}
		vs[0] = r.out
		return vs[:1], false
	}
	before, filler := 0, 0
	op.OutputAck = func(n int) error {
		now := r.peerInq()
		acc := now - before
		before = now
		if n > 0 {
			r.out = r.out[n:]
		}
		if n < 0 && v.Peer != "open" {
			n = 0 // a send that failed (the peer is gone): the handler acknowledges sendmsg's -1 and reports the hang-up
		}
		r.ev("OutputAck", "", n, acc, "")
		if len(r.out) == 0 {
			op.Control(PollRW2R)
		}
		return nil
	}
	op.OnHup = func(Poll) error {
		atomic.AddInt32(&r.hups, 1)
		r.ev("OnHup", "", r.registered(), 0, "")
		return nil
	}
	if err := op.Control(PollReadable); err != nil {
		r.ev("SetupErr", "", 0, 0, err.Error())
		return
	}
	if v.Out {
		op.Control(PollR2RW)
	}
	// kernel-side state
	if v.Pending > 0 {
		b := make([]byte, v.Pending)
		for i := range b {
			b[i] = vStreamByte(i)
		}
		w, _ := syscall.Write(r.peer, b)
		r.ev("PeerSend", "", w, 0, "")
	}
	switch v.Peer {
	case "fin":
		// read what we will send first? no: the peer closes right after its data (data + FIN in one wake-up)
		if v.Out {
			syscall.Shutdown(r.peer, syscall.SHUT_WR)
		} else {
			syscall.Close(r.peer)
			peerOpen = false
		}
	case "rst":
		syscall.SetsockoptLinger(r.peer, syscall.SOL_SOCKET, syscall.SO_LINGER, &syscall.Linger{Onoff: 1, Linger: 0})
		syscall.Close(r.peer)
		peerOpen = false
	}
	if v.Transport == "tcp" {
		time.Sleep(2 * time.Millisecond) // loopback delivery
	}
	before = 0
	if peerOpen {
		before = r.peerInq()
	}
	if v.Way == "synthfull" {
		// somebody else has filled the send buffer since the kernel reported the descriptor writable: the handler's send gets EAGAIN
		chunk := make([]byte, 4096)
		for i := 0; i < 4096; i++ {
			if n, err := syscall.Write(r.fd, chunk); err != nil || n <= 0 {
				break
			}
		}
		before = r.peerInq()
		filler = before
	}
	if v.Way == "synth" || v.Way == "synthfull" {
		bits, hasErr := vFlagBits(v.Flags)
		r.ev("Inject", "", int(bits), hasErr, "")
		evs := make([]epollevent, 1)
		evs[0].events = bits
		p.setOperator(unsafe.Pointer(&evs[0].data), op)
		// the barriers the handler uses are indexed by event position
		if !p.Handler(evs) {
			p.opcache.free()
		}
		r.waitHups()
		time.Sleep(300 * time.Microsecond)
	}
	r.pump()
	// user-initiated detach: nothing may be delivered afterwards
	if v.Way == "real" && v.Peer == "open" {
		op.Control(PollDetach)
		r.ev("UserDetach", "", 0, 0, "")
		syscall.Write(r.peer, []byte{1, 2})
		r.pump()
	}
	got := 0
	if peerOpen {
		got = r.peerInq() - filler
	}
	r.waitHups()
	time.Sleep(500 * time.Microsecond)
	r.ev("Final", "", got, int(atomic.LoadInt32(&r.hups)), "")
	op.Control(PollDetach)
	p.Free(op)
	return
}

// vLoopChecks: Close stops a running Wait loop and releases both poller descriptors; Trigger wakes it.
func vLoopChecks() []vPollEvent {
	var evs []vPollEvent
	p, err := openDefaultPoll()
	if err != nil {
		return []vPollEvent{{E: "SetupErr", Err: err.Error()}}
	}
	done := make(chan error, 1)
	go func() { done <- p.Wait() }()
	time.Sleep(5 * time.Millisecond)
	woke := 0
	p.Trigger()
	for i := 0; i < 2000; i++ {
		if atomic.LoadUint32(&p.trigger) == 0 {
			woke = 1
			break
		}
		time.Sleep(100 * time.Microsecond)
	}
	evs = append(evs, vPollEvent{E: "TriggerCheck", N: woke})
	efd, wfd := p.fd, p.wop.FD
	p.Close()
	stopped, closed := 0, 0
	select {
	case <-done:
		stopped = 1
	case <-time.After(2 * time.Second):
	}
	if !vFdIsOpen(efd) && !vFdIsOpen(wfd) {
		closed = 1
	}
	evs = append(evs, vPollEvent{E: "LoopCheck", N: stopped, M: closed})
	// many descriptors ready at once: the event array grows past 128
	return evs
}

func TestVerifPollTable(t *testing.T) {
	in, outp := os.Getenv("VERIF_IN"), os.Getenv("VERIF_OUT")
	if in == "" || outp == "" {
		t.Skip("VERIF_IN/VERIF_OUT not set")
	}
	raw, err := os.ReadFile(in)
	if err != nil {
		t.Fatal(err)
	}
	var wo struct {
		Vectors []vPollVector `json:"vectors"`
		Loop    bool          `json:"loop"`
	}
	if err := json.Unmarshal(raw, &wo); err != nil {
		t.Fatal(err)
	}
	f, err := os.Create(outp)
	if err != nil {
		t.Fatal(err)
	}
	defer f.Close()
	enc := json.NewEncoder(f)
	for i := range wo.Vectors {
		evs := vRunPollVector(&wo.Vectors[i])
		enc.Encode(map[string]interface{}{"vector": wo.Vectors[i], "events": evs})
	}
	if wo.Loop {
		enc.Encode(map[string]interface{}{"vector": vPollVector{T: 0, Way: "loop"}, "events": vLoopChecks()})
	}
}
