// Instrumented replacement of github.com/bytedance/gopkg/lang/mcache used only by the
// verification build (substituted through a go.mod `replace` in the check's scratch copy).
//
// With the ledger OFF it behaves exactly like the original (sync.Pool per size class).
// With the ledger ON:
//   - Malloc hands out a fresh block every time (same capacity rule) and records it;
//   - Free records the event, POISONS the block (0xDD) and keeps it referenced so that its
//     address is never issued again; frees of unknown addresses (caller memory, interior
//     pointers), second frees, and frees of a block overlapping a protected range (a result
//     still owed to the user) are recorded as such.
package mcache

import (
	"sync"
	"unsafe"

	"github.com/bytedance/gopkg/lang/dirtmake"
)

const maxSize = 46

var caches [maxSize]sync.Pool

type bytesHeader struct {
	Data *byte
	Len  int
	Cap  int
}

func init() {
	for i := 0; i < maxSize; i++ {
		size := 1 << i
		caches[i].New = func() interface{} {
			buf := dirtmake.Bytes(0, size)
			h := (*bytesHeader)(unsafe.Pointer(&buf))
			return h.Data
		}
	}
}

func calcIndex(size int) int {
	if size == 0 {
		return 0
	}
	if isPowerOfTwo(size) {
		return bsr(size)
	}
	return bsr(size) + 1
}

// ---- ledger ----------------------------------------------------------------

// Event kinds: "malloc", "free", "double_free", "foreign_free", "interior_free",
// "ignored_free" (capacity not a power of two: the real pool drops it silently), "early_free".
type Event struct {
	Kind   string
	Serial int // block serial (0 if unknown)
	Cap    int
	Prot   int // id of the protected range overlapped (early_free)
}

type block struct {
	mem    []byte
	serial int
	freed  bool
}

type prot struct {
	lo, hi uintptr
}

var (
	lmu     sync.Mutex
	lon     bool
	blocks  map[uintptr]*block
	serial  int
	events  []Event
	protmap map[int][]prot
)

// LedgerOn switches the ledger on (and clears it).
func LedgerOn() {
	lmu.Lock()
	lon = true
	blocks = map[uintptr]*block{}
	protmap = map[int][]prot{}
	events = nil
	serial = 0
	lmu.Unlock()
}

// LedgerOff switches the ledger off and drops every block it kept alive.
func LedgerOff() {
	lmu.Lock()
	lon = false
	blocks, protmap, events = nil, nil, nil
	lmu.Unlock()
}

// LedgerDrain returns and clears the recorded events.
func LedgerDrain() []Event {
	lmu.Lock()
	ev := events
	events = nil
	lmu.Unlock()
	return ev
}

// LedgerProtect registers memory that must not be returned to the pool until LedgerUnprotect(id).
func LedgerProtect(id int, p []byte) {
	if len(p) == 0 {
		return
	}
	lo := uintptr(unsafe.Pointer(&p[0]))
	lmu.Lock()
	if lon {
		protmap[id] = append(protmap[id], prot{lo, lo + uintptr(len(p))})
	}
	lmu.Unlock()
}

func LedgerUnprotect(id int) {
	lmu.Lock()
	if lon {
		delete(protmap, id)
	}
	lmu.Unlock()
}

// LedgerOutstanding returns the number of blocks issued and not yet freed.
func LedgerOutstanding() int {
	lmu.Lock()
	n := 0
	for _, b := range blocks {
		if !b.freed {
			n++
		}
	}
	lmu.Unlock()
	return n
}

func Malloc(size int, capacity ...int) []byte {
	if len(capacity) > 1 {
		panic("too many arguments to Malloc")
	}
	var c = size
	if len(capacity) > 0 && capacity[0] > size {
		c = capacity[0]
	}
	i := calcIndex(c)

	lmu.Lock()
	if lon {
		mem := make([]byte, 1<<i)
		for k := range mem {
			mem[k] = 0xA5 // dirty, like the real pool's recycled memory
		}
		serial++
		b := &block{mem: mem, serial: serial}
		blocks[uintptr(unsafe.Pointer(&mem[0]))] = b
		events = append(events, Event{Kind: "malloc", Serial: serial, Cap: 1 << i})
		lmu.Unlock()
		return mem[:size]
	}
	lmu.Unlock()

	ret := []byte{}
	h := (*bytesHeader)(unsafe.Pointer(&ret))
	h.Len = size
	h.Cap = 1 << i
	h.Data = caches[i].Get().(*byte)
	return ret
}

func Free(buf []byte) {
	size := cap(buf)
	lmu.Lock()
	if lon {
		defer lmu.Unlock()
		if size == 0 {
			events = append(events, Event{Kind: "ignored_free", Cap: 0})
			return
		}
		full := buf[:size]
		base := uintptr(unsafe.Pointer(&full[0]))
		if !isPowerOfTwo(size) {
			events = append(events, Event{Kind: "ignored_free", Cap: size})
			return
		}
		b := blocks[base]
		if b == nil {
			kind := "foreign_free"
			for lo, bb := range blocks {
				if base > lo && base < lo+uintptr(len(bb.mem)) {
					kind = "interior_free"
					break
				}
			}
			events = append(events, Event{Kind: kind, Cap: size})
			return
		}
		if b.freed {
			events = append(events, Event{Kind: "double_free", Serial: b.serial, Cap: size})
			return
		}
		b.freed = true
		hi := base + uintptr(len(b.mem))
		for id, ps := range protmap {
			for _, p := range ps {
				if p.lo < hi && base < p.hi {
					events = append(events, Event{Kind: "early_free", Serial: b.serial, Cap: size, Prot: id})
				}
			}
		}
		for k := range b.mem {
			b.mem[k] = 0xDD
		}
		events = append(events, Event{Kind: "free", Serial: b.serial, Cap: size})
		return
	}
	lmu.Unlock()
	if !isPowerOfTwo(size) {
		return
	}
	h := (*bytesHeader)(unsafe.Pointer(&buf))
	caches[bsr(size)].Put(h.Data)
}
