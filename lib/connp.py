"""C05/C06/C09 (model part): the callback / teardown protocol. Impl-shaped spec Conn.tla model-checked exhaustively; TLC counterexamples
(the as-is order defect F11, the modelled deviations = reverted repairs F6, F12, F12b) and TLC-simulated behaviours replayed as schedules
on a real server-side connection under the controlled scheduler; every execution validated against ConnObs.tla (by the caller) and
replayed step by step in Conn.tla (TraceConnImpl.tla)."""
import json, os, re, shutil, glob
import vlib, tlaval


def tlc_run(sc, cfg, tag, workers=12, timeout=1800, extra=()):
    wd = sc.path('cn_' + tag)
    os.makedirs(wd, exist_ok=True)
    shutil.copy(os.path.join(vlib.SPEC, 'Conn.tla'), wd)
    shutil.copy(os.path.join(vlib.SPEC, cfg), wd)
    p = vlib.run(['java', '-XX:+UseParallelGC', '-cp', vlib.TLA_CP, 'tlc2.TLC', '-workers', str(workers), '-metadir', os.path.join(wd, 'md'), '-config', cfg] + list(extra) + ['Conn.tla'],
                 cwd=wd, timeout=timeout, check=False)
    return p.stdout, wd


def _plan(labels):
    plan, peer = [], []
    for lab, arg in labels:
        if lab == 'TaskNext':
            plan.append('task' + arg)
        elif lab == 'PollerNext':
            plan.append('poller')
        elif lab == 'HupNext':
            plan.append('hup1')
        elif lab == 'CloserNext':
            plan.append('closer1')
        elif lab == 'PeerSend':
            plan.append('peer'); peer.append(['send', 1])
        elif lab == 'PeerClose':
            plan.append('peer'); peer.append(['close'])
    return plan, peer


def scenario(sid, labels, closer, kind, oc=True, hc=False):
    plan, peer = _plan(labels)
    actors = [{'name': 'closer1', 'ops': [['Close']]}] if closer else []
    return {'id': sid, 'seed': 1, 'strategy': 'plan', 'plan': plan, 'kind': 'server', 'onconnect': oc, 'ondisconnect': True, 'onrequest': True, 'onprepare': True,
            'nclosecb': 1, 'connbody': 'return', 'handler': [{'consume': -1, 'then': 'close' if hc else 'return'}], 'actors': actors, 'peer': peer, 'holdsetup': True,
            'cnkind': kind, 'closer': closer, 'oc': oc, 'hc': hc}


CE = r'^State \d+: <(\w+)(?:\((\d+)\))?'
SIM = r'^\\\* <(\w+)(?:\((\d+)\))?'


def scenarios(sc, tier, seed):
    scs = []
    for cfg, kind, closer in (('MC_Conn_F11.cfg', 'asis', False), ('MC_Conn_DevF6.cfg', 'window', False), ('MC_Conn_DevF12.cfg', 'window', False), ('MC_Conn_DevF12b.cfg', 'window', False), ('MC_Conn_DevF12c.cfg', 'window', False)):
        o, _ = tlc_run(sc, cfg, cfg[:-4], workers=1)
        labels = re.findall(CE, o, re.M)
        if len(labels) < 2:
            raise vlib.Inconclusive('no counterexample from %s' % cfg)
        scs.append(scenario('tlc-%s' % cfg[8:-4], labels, closer, kind))
    for cfg, oc, hc, share in (('MC_Conn_Sim.cfg', True, False, 4), ('MC_Conn_Sim_NoOC.cfg', False, False, 2), ('MC_Conn_Sim_HC.cfg', True, True, 2), ('MC_Conn_Sim_NoOC_HC.cfg', False, True, 1)):
        n = (40 if tier == 'quick' else 800) * share
        tag = 'sim%d%d' % (oc, hc)
        o, wd = tlc_run(sc, cfg, tag, workers=1, extra=['-simulate', 'file=%s,num=%d' % (sc.path('cn_' + tag, 'b'), n), '-depth', '120', '-seed', str(seed)])
        for i, f in enumerate(sorted(glob.glob(sc.path('cn_' + tag, 'b_*')))):
            labels = re.findall(SIM, open(f).read(), re.M)
            closer = any(l[0] == 'CloserNext' for l in labels)
            scs.append(scenario('cnsim%d%d-%d-%d' % (oc, hc, seed, i), labels, closer, 'sim', oc, hc))
    return scs


def exhaustive(sc, tier):
    states = trans = 0
    for cfg in (('MC_Conn.cfg', 'MC_Conn_NoOC.cfg', 'MC_Conn_HC.cfg', 'MC_Conn_NoOC_HC.cfg') if tier == 'quick' else
                ('MC_Conn.cfg', 'MC_Conn_NoOC.cfg', 'MC_Conn_HC.cfg', 'MC_Conn_NoOC_HC.cfg', 'MC_Conn_Closer.cfg')):
        out, _ = tlc_run(sc, cfg, cfg[:-4])
        if not vlib.tlc_ok(out):
            raise vlib.Inconclusive('Conn.tla exhaustive check (%s) did not pass: %s' % (cfg, vlib.tlc_violation(out) or out[-800:]))
        st = vlib.tlc_stats(out)
        states, trans = states + st[1], trans + st[0]
    return states, trans


def impl_check(sc, runs, tag):
    """Returns (consumed, total, rules the model itself collected on these schedules); one TLC run per configuration of callbacks."""
    consumed = total = 0
    rules = set()
    groups = {}
    for s, r in runs:
        groups.setdefault((bool(s.get('oc', True)), bool(s.get('hc', False))), []).append((s, r))
    for (oc, hc), grp in sorted(groups.items()):
        c, t, rs = _impl_check(sc, grp, '%s_%d%d' % (tag, oc, hc), oc, hc)
        consumed, total, rules = consumed + c, total + t, rules | rs
    return consumed, total, rules


def _impl_check(sc, runs, tag, oc, hc):
    wd = sc.path('cni_' + tag)
    os.makedirs(wd, exist_ok=True)
    for f in ('Conn.tla', 'TraceConnImpl.tla'):
        shutil.copy(os.path.join(vlib.SPEC, f), wd)
    open(os.path.join(wd, 'TraceConnImpl.cfg'), 'w').write(
        'SPECIFICATION TSpec\nPOSTCONDITION Report\nCHECK_DEADLOCK FALSE\nCONSTANTS\n  MaxTasks = 8\n  MaxSend = 8\n  WithCloser = TRUE\n  WithOnConnect = %s\n  WithOnDisconnect = TRUE\n  HandlerCloses = %s\n'
        '  Dev_NoConnRecheck = FALSE\n  Dev_NoInputRecheck = FALSE\n  Dev_NoHupTask = FALSE\n  Dev_HupLockTwice = FALSE\n' % (str(oc).upper(), str(hc).upper()))
    blank = {'g': '', 'i': 0, 'pt': 0, 'k': 0, 'closer': 0, 'closing': 0, 'connecting': 0, 'processing': 0, 'st': 0, 'inlen': 0, 'opst': 1, 'det': 0}
    n = 0
    with open(os.path.join(wd, 'sched.ndjson'), 'w') as f:
        for s, r in runs:
            if not r['info'].get('proj'):
                continue
            f.write(json.dumps(dict(blank, g='reset', closer=int(bool(s.get('closer'))))) + '\n')
            n += 1
            h = r['info'].get('hold', 0)
            pi = 0
            for (name, gate), pj in zip(r['info']['gates'][h:], r['info']['proj'][h:]):
                i = 0
                if name.startswith('task'):
                    g, i = 't', int(name[4:])
                elif name == 'poller':
                    g = 'p'
                elif name.startswith('hup'):
                    g = 'h'
                elif name.startswith('closer'):
                    g = 'c'
                elif name == 'peer':
                    g = 'peer'
                else:
                    break
                k = 0
                if g == 'peer':
                    op = s['peer'][pi]; pi += 1
                    k = op[1] if op[0] == 'send' else 0
                pt = int(gate.split('#')[0]) if gate != 'env' else 0
                f.write(json.dumps(dict(blank, g=g, i=i, pt=pt, k=k, closing=pj[8], connecting=pj[12], processing=pj[13], st=pj[14], inlen=pj[6], opst=pj[9], det=pj[15])) + '\n')
                n += 1
    p = vlib.run(['java', '-Xss64m', '-cp', vlib.TLA_CP, 'tlc2.TLC', '-workers', '1', '-metadir', os.path.join(wd, 'md'), '-config', 'TraceConnImpl.cfg', 'TraceConnImpl.tla'],
                 cwd=wd, timeout=1500, check=False)
    m = re.search(r'<<\s*"IMPL-RESULT",\s*(\d+),\s*(\d+),\s*(\{.*?\})\s*>>', p.stdout, re.S)
    if not m:
        raise vlib.Inconclusive('Conn impl-level trace validation failed:\n' + p.stdout[-2000:])
    return int(m.group(1)), n, set(tlaval.parse(m.group(3)))
