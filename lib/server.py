"""C13: the server under the controlled scheduler (two manual pollers) judged by ServerObs.tla."""
import json, os, random, time
import vlib, conn


def gen(n, seed):
    rnd = random.Random(seed * 2654435 + 17)
    out = []
    for i in range(n):
        clients = []
        for c in range(rnd.randint(1, 3)):
            ops = [['send', rnd.randint(1, 3)] for _ in range(rnd.randint(0, 2))]
            if rnd.random() < 0.75:
                ops.append(['close'])
            clients.append(ops)
        out.append({'id': 'srv-%d-%d' % (seed, i), 'seed': seed * 10007 + i, 'strategy': rnd.choice(['random', 'random', 'pct']), 'plan': [], 'clients': clients,
                    'onconnect': rnd.random() < 0.3, 'handler': rnd.choice(['quick', 'quick', 'yield', 'block']), 'shutdown': rnd.random() < 0.7,
                    'deadline': rnd.choice([120, 120, 260]), 'pollers': rnd.choice([1, 2, 2, 2]), 'pusher': rnd.random() < 0.25})
    return out


def focus(n, seed):
    """Shapes for the narrow windows around accept / Store / Shutdown's sweep: few actors, Shutdown always, so that single-stall
    exploration over ALL their schedule points is affordable."""
    rnd = random.Random(seed * 7919 + 5)
    out = []
    for i in range(n):
        clients = [[['send', 3]] + ([['close']] if rnd.random() < 0.4 else [])]
        if rnd.random() < 0.4:
            clients.append([['send', 2], ['close']] if rnd.random() < 0.5 else [['close']])
        out.append({'id': 'srvf-%d-%d' % (seed, i), 'seed': seed * 20011 + i, 'strategy': 'random', 'plan': [], 'clients': clients,
                    'onconnect': rnd.random() < 0.2, 'handler': rnd.choice(['quick', 'yield', 'yield']), 'shutdown': True, 'deadline': 120,
                    'pollers': 2, 'pusher': False, 'focus': True})
        if len(clients) > 1 and rnd.random() < 0.6:
            # Shutdown starts once the first connection is tracked and idle; the second arrives around it (accept against sweep)
            out[-1]['shutafter'] = 1
    return out


def witnesses():
    """schedules that showed a defect before its repair (recorded from the code before the repair): replayed in every run.
    On the repaired tree they must pass; a plan that no longer applies drifts into a random schedule, which is harmless."""
    import glob
    out = []
    for f in sorted(glob.glob(os.path.join(vlib.VERIF, "witness", "C13", "*.json"))):
        out.append(json.load(open(f))['scenario'])
    return out


def main(pid, tier, replay_path=None):
    t0 = time.time()
    seed = vlib.seed()
    findings = vlib.load_findings(pid)
    violations, samples, known_hit = [], [], {}
    try:
        with vlib.Scratch('srv') as sc:
            binary = vlib.build_harness(sc, '.', instrumented_pool=True)
            scs = [json.load(open(replay_path))['scenario']] if replay_path else gen(500 if tier == 'quick' else 50000, seed) + focus(24 if tier == 'quick' else 300, seed) + witnesses()
            res, crashed = conn.run_scenarios(sc, binary, scs, 'v', procs=14, test='TestVerifServerScenarios')
            mcov, mscs = {}, []
            if not replay_path:
                # descriptor exhaustion (EMFILE back-off): a process of its own per run
                import subprocess
                for kind in (('long',) if tier == 'quick' else ('long', 'short', 'long')):
                    outp = sc.path('emfile_%s_%d.json' % (kind, len(res)))
                    env = dict(vlib.GOENV, VERIF_OUT=outp, VERIF_EMFILE=kind)
                    p = subprocess.run([binary, '-test.run', '^TestVerifServerEMFILE$', '-test.count=1', '-test.timeout', '60s'], cwd=sc.path('repo'), env=env, capture_output=True, text=True)
                    sid = 'emfile-%s-%d' % (kind, len(res))
                    if os.path.exists(outp):
                        r = json.load(open(outp)); r['scenario'] = sid
                        r['events'] = [dict(e, k=e.get('k', ''), g=e.get('g', 'env')) for e in r['events']]
                        if not any(e['e'] == 'SetupErr' for e in r['events']):
                            if not any(e['e'] == 'ResumeCheck' for e in r['events']):
                                r['events'].append({'e': 'Panic', 'g': 'env', 'k': '', 'n': 0, 'm': 0, 'err': 'the server process died during descriptor exhaustion: ' + (p.stdout + p.stderr)[-300:]})
                            res[sid] = r
                            scs.append({'id': sid, 'shutdown': False, 'emfile': kind, 'strategy': 'free', 'plan': []})
                    elif 'panic' in (p.stdout + p.stderr):
                        res[sid] = {'scenario': sid, 'info': {'stuck': '', 'taken': []}, 'events': [{'e': 'Init', 'g': 'env', 'k': '', 'n': 1, 'm': 0, 'err': ''},
                                    {'e': 'Panic', 'g': 'env', 'k': '', 'n': 0, 'm': 0, 'err': 'the server process died during descriptor exhaustion: ' + (p.stdout + p.stderr)[-300:]}]}
                        scs.append({'id': sid, 'shutdown': False, 'emfile': kind, 'strategy': 'free', 'plan': []})
            if not replay_path:
                # Server.tla: exhaustive, then its window / simulated schedules on the real server, replayed step by step in the model
                import serverp
                mst, mtr = serverp.exhaustive(sc, tier)
                mscs = serverp.scenarios(sc, tier, seed)
                mres, mcr = conn.run_scenarios(sc, binary, mscs, 'm', procs=8, test='TestVerifServerScenarios')
                res.update(mres)
                crashed += mcr
                c_, t_, _ = serverp.impl_check(sc, [(s, mres[s['id']]) for s in mscs if s['id'] in mres and not mres[s['id']]['info'].get('stuck')], 'all')
                mcov = {'servermodel_states': mst, 'servermodel_transitions': mtr, 'servermodel_schedules_replayed': len(mres),
                        'servermodel_plans_that_drifted': sum(1 for s in mscs if mres.get(s['id'], {}).get('info', {}).get('drift', 0) > 0),
                        'servermodel_impl_spec_conformance': {'steps_followed': c_, 'steps_total': t_, 'all_followed': c_ == t_}}
                if c_ != t_:
                    vlib.log('note: Server.tla could not follow a recorded schedule (line %d of %d): the code no longer matches the implementation-shaped spec' % (c_ + 1, t_))
            if not replay_path:
                # single-stall exploration of a sample of the scenarios: one actor held back at one schedule point
                import random
                base = scs[:30 if tier == 'quick' else 2000]
                extra = conn.stall_variants(base, res, per_scenario=40 if tier == 'quick' else 80, rnd=random.Random(seed), skip_actors=())
                # every schedule point of the focus shapes
                extra += conn.stall_variants([s for s in scs if s.get('focus')], res, per_scenario=400, rnd=random.Random(seed + 1), skip_actors=())
                # windows: one actor held at a point until another is in the middle of something (two connections: accept vs sweep)
                extra += conn.window_variants([s for s in scs if s.get('focus') and len(s.get('clients', [])) > 1], res, per_scenario=150 if tier == 'quick' else 200, rnd=random.Random(seed + 2), prefer=({60, 61, 62}, 'shutdown'))
                res2, crashed2 = conn.run_scenarios(sc, binary, extra, 'w', procs=14, test='TestVerifServerScenarios')
                scs = scs + extra + mscs
                res.update(res2)
                crashed += crashed2
            for s0, o in crashed:
                violations.append(vlib.save_replay(pid, '%s_crash%d' % (tier, len(violations)), {'property': pid, 'scenario': s0, 'output': o}))
                vlib.log('test process died in %s:\n%s' % (s0['id'], o[-1000:]))
            vs, nlines, st = conn.validate(sc, res, [s['id'] for s in scs], 'v', module='TraceServer', deps=('ServerObs.tla',))
            byid = {s['id']: s for s in scs}
            seen = set()
            for v in vs:
                if not v['rule'].startswith(pid + '.') or (v['scenario'], v['rule']) in seen:
                    continue
                seen.add((v['scenario'], v['rule']))
                r, s0 = res[v['scenario']], byid[v['scenario']]
                kf = next((f for f in findings if f.get('signature', {}).get('rule') == v['rule'] or v['rule'] in f.get('signature', {}).get('rules', [])), None)
                if kf:
                    known_hit[kf['id']] = kf
                    continue
                vlib.log('violation %s in %s at event %d' % (v['rule'], v['scenario'], v['line']))
                for e in r['events'][max(0, v['line'] - 16):v['line'] + 1]:
                    vlib.log('     %-9s %-13s %-9s n=%s m=%s %s' % (e['g'], e['e'], e['k'], e['n'], e['m'], e['err']))
                if len(violations) < 6:
                    s1 = dict(s0); s1['strategy'], s1['plan'] = 'plan', r['info'].get('taken', [])
                    violations.append(vlib.save_replay(pid, '%s_%d' % (tier, len(violations)), {'property': pid, 'rule': v['rule'], 'line': v['line'], 'scenario': s1, 'events': r['events']}))
            stuck = sum(1 for r in res.values() if r['info'].get('stuck'))
            if res and stuck * 2 > len(res):
                raise vlib.Inconclusive('%d of %d scenarios did not reach a quiescent point' % (stuck, len(res)))
            for s in scs[:2]:
                r = res.get(s['id'])
                if r:
                    samples.append({'scenario': {k: s[k] for k in s if k != 'plan'}, 'events': ['%s:%s:%s:%s' % (e['g'], e['e'], e['k'], e['n']) for e in r['events'][:40]]})
            cov = {'states': st.get('states', 1), 'transitions': st.get('transitions', 1), 'traces_validated_against_impl': len(res), 'samples': samples,
                   'trace_events_validated': nlines, 'scenarios_not_quiescent': stuck, 'shutdowns': sum(1 for s in scs if s['shutdown']),
                   'distinct_schedules': len({tuple(r['info'].get('taken', [])) for r in res.values()}), 'known_findings_matched': sorted(known_hit),
                   'spec_modules': vlib.spec_hashes(['ServerObs.tla', 'TraceServer.tla']),
                   'explanation': 'real TCP listener on one manual poller, accepted connections on another, clients connecting/sending/closing and Shutdown with a deadline as '
                                  'scheduler choices; traces validated by TLC against ServerObs.tla'}
            if mcov:
                cov.update(mcov)
                cov['trace_validation_states'] = cov['states']
                cov['states'], cov['transitions'] = mcov['servermodel_states'], mcov['servermodel_transitions']
                cov['spec_modules'] = vlib.spec_hashes(['ServerObs.tla', 'TraceServer.tla', 'Server.tla', 'Conn.tla', 'TraceServerImpl.tla'])
            vlib.write_evidence(pid, tier, 'model_checking', cov, time.time() - t0, len(violations), ['TLC/SANY', 'controlled scheduler, manual pollers', 'loopback TCP as observed', 'EMFILE back-off: one exhaustion of 2.6 s (all seven retry delays) per run'])
    except vlib.Inconclusive as e:
        vlib.log('INCONCLUSIVE: %s' % e)
        if violations:
            vlib.finish(pid, violations, [])
        vlib.finish(pid, [], [], inconclusive=str(e).splitlines()[0][:200])
    vlib.finish(pid, violations, ['%s %s' % (k, known_hit[k]['what']) for k in sorted(known_hit)])
