"""C01-C03 (node-level model part): LinkBuffer.tla, the content-free transcription of the node chain, is model-checked exhaustively to a
bounded number of calls; its counterexample of the open finding F3 and TLC-simulated behaviours are executed on the real LinkBuffer
(units of 2048 bytes); after every call the node chains are compared with the model (conformance) and the observable checks run
(bytes in order, zero-copy results intact until Release, pool ledger)."""
import json, os, re, shutil, glob, subprocess, time
from concurrent.futures import ProcessPoolExecutor
import vlib, tlaval

ONLY = {'nd', 'bf', 'pool', 'last', 'steps'}


def tlc_run(sc, cfg, tag, workers=12, timeout=2400, extra=()):
    wd = sc.path('lb_' + tag)
    os.makedirs(wd, exist_ok=True)
    shutil.copy(os.path.join(vlib.SPEC, 'LinkBuffer.tla'), wd)
    shutil.copy(os.path.join(vlib.SPEC, cfg), wd)
    p = vlib.run(['java', '-XX:+UseParallelGC', '-Xss16m', '-cp', vlib.TLA_CP, 'tlc2.TLC', '-workers', str(workers), '-metadir', os.path.join(wd, 'md'), '-config', cfg] + list(extra) + ['LinkBuffer.tla'],
                 cwd=wd, timeout=timeout, check=False)
    return p.stdout, wd


def project(st):
    """the projection the harness reports, computed from a model state"""
    nd, bf = st['nd'], st['bf']
    out = {}
    for b, B in (bf.items() if isinstance(bf, dict) else enumerate(bf, 1)):
        if B['kind'] not in ('rw', 'sl'):
            continue
        chain, i = [], B['head']
        while i != 0 and len(chain) < 64:
            chain.append(i)
            i = nd[i]['next'] if isinstance(nd, dict) else nd[i - 1]['next']
        get = (lambda k: nd[k]) if isinstance(nd, dict) else (lambda k: nd[k - 1])
        pos = lambda x: chain.index(x) if x in chain else -1
        out[str(b)] = {'Nodes': [{'Cap': get(k)['cap'], 'Len': get(k)['len'], 'Off': get(k)['off'], 'Mal': get(k)['mal'], 'Refer': get(k)['refer'],
                                  'Unm': get(k)['unm'], 'Exp': get(k)['exp'], 'Origin': get(k)['origin'] != 0} for k in chain],
                       'Read': pos(B['read']), 'Flush': pos(B['flush']), 'Write': pos(B['write']), 'Length': B['length'], 'Msize': B['msize'],
                       'Caches': len(B['caches']), 'CpLen': B['cp']['len'], 'CpCap': B['cp']['cap']}
    return out


def frees(st):
    pool = st['pool']
    vals = pool.values() if isinstance(pool, dict) else pool
    return sum(p['freed'] for p in vals)


def _beh_from_states(bid, states):
    init = states[0]
    nd = init['nd']
    n1 = nd[1] if isinstance(nd, dict) else nd[0]
    steps, exp = [], []
    prev = frees(init)
    for st in states[1:]:
        l = st['last']
        steps.append({'op': l['op'], 'b': l['b'], 'n': l['n'], 'm': l['m']})
        f = frees(st)
        exp.append({'bufs': project(st), 'frees': f - prev})
        prev = f
    return {'id': bid, 'init': n1['cap'], 'steps': steps, 'exp': exp}


def _parse_sim(f):
    states, labels = tlaval.parse_sim_file(f, only=ONLY)
    return states


def sim_behaviours(sc, n, seed, procs=6):
    wd = sc.path('lb_sim')
    os.makedirs(wd, exist_ok=True)
    shutil.copy(os.path.join(vlib.SPEC, 'LinkBuffer.tla'), wd)
    shutil.copy(os.path.join(vlib.SPEC, 'MC_LinkBuffer_Sim.cfg'), wd)
    per = max(1, n // procs)
    ps = []
    for k in range(procs):
        out = os.path.join(wd, 'p%d' % k)
        os.makedirs(out, exist_ok=True)
        cmd = ['java', '-XX:+UseParallelGC', '-Xss16m', '-Xmx1500m', '-cp', vlib.TLA_CP, 'tlc2.TLC', '-workers', '1', '-metadir', os.path.join(out, 'md'), '-config', 'MC_LinkBuffer_Sim.cfg',
               '-simulate', 'file=%s/b,num=%d' % (out, per), '-depth', '26', '-seed', str(seed * 1000 + k), 'LinkBuffer.tla']
        ps.append(subprocess.Popen(cmd, cwd=wd, stdout=subprocess.PIPE, stderr=subprocess.STDOUT, text=True))
    for p in ps:
        try:
            o, _ = p.communicate(timeout=1500)
        except subprocess.TimeoutExpired:
            p.kill()
            raise vlib.Inconclusive('TLC simulate (LinkBuffer) timed out')
        if 'traces generated' not in o:
            raise vlib.Inconclusive('TLC simulate (LinkBuffer) failed:\n' + o[-1500:])
    files = sorted(glob.glob(os.path.join(wd, 'p*', 'b_*')))
    with ProcessPoolExecutor(max_workers=8) as ex:
        parsed = list(ex.map(_parse_sim, files, chunksize=8))
    return [_beh_from_states('lbsim-%d-%s' % (seed, '_'.join(f.split('/')[-2:])), s) for f, s in zip(files, parsed) if len(s) > 1]


def f3_behaviour(sc):
    o, _ = tlc_run(sc, 'MC_LinkBuffer_F3.cfg', 'f3', workers=1, timeout=900)
    if 'is violated' not in o:
        raise vlib.Inconclusive('LinkBuffer.tla no longer shows finding F3:\n' + o[-600:])
    i = o.index('State 1:')
    txt = o[i:]
    parts = re.split(r'^State \d+: [^\n]*\n', txt, flags=re.M)[1:]
    states = []
    for p in parts:
        p = p.split('\n\n')[0]
        states.append(tlaval.parse_state(tlaval._filter_vars(p, ONLY)))
    return _beh_from_states('tlc-F3', states)


def dev_behaviours(sc):
    """the counterexample of the modelled deviation of WriteBuffer (the donor's released tail stays linked), continued by calls that
    make the receiving buffer grow, submit and close: on the code as it is nothing happens; the op sequence only (no expected chains)"""
    o, _ = tlc_run(sc, 'MC_LinkBuffer_DevAppend.cfg', 'devapp', workers=8, timeout=900)
    if 'is violated' not in o:
        raise vlib.Inconclusive('LinkBuffer.tla: no counterexample for Dev_AppendKeepsTail:\n' + o[-600:])
    txt = o[o.index('State 1:'):]
    parts = re.split(r'^State \d+: [^\n]*\n', txt, flags=re.M)[1:]
    states = [tlaval.parse_state(tlaval._filter_vars(p.split('\n\n')[0], ONLY)) for p in parts]
    b = _beh_from_states('tlc-DevAppend', states)
    rb = b['steps'][-1]['b']
    b['steps'] += [{'op': 'Malloc', 'b': rb, 'n': 3, 'm': 0}, {'op': 'Flush', 'b': rb, 'n': 0, 'm': 0}, {'op': 'NewBuf', 'b': 3 if rb != 3 else 1, 'n': 2, 'm': 0},
                   {'op': 'Malloc', 'b': rb, 'n': 3, 'm': 0}, {'op': 'Flush', 'b': rb, 'n': 0, 'm': 0}, {'op': 'Close', 'b': rb, 'n': 0, 'm': 0}]
    b['exp'] = b['exp'][:len(states) - 2]   # the model's chains up to the call before the deviating one
    return [b]


def exhaustive(sc, tier):
    cfg = 'MC_LinkBuffer_quick.cfg' if tier == 'quick' else 'MC_LinkBuffer.cfg'
    out, _ = tlc_run(sc, cfg, 'main', timeout=3000 if tier == 'quick' else 7200)
    if not vlib.tlc_ok(out):
        raise vlib.Inconclusive('LinkBuffer.tla exhaustive check did not pass: %s' % (vlib.tlc_violation(out) or out[-800:]))
    st = vlib.tlc_stats(out)
    return st[1], st[0]


def run_behaviours(sc, binary, behs, tag, procs=8):
    res = {}
    size = (len(behs) + procs - 1) // procs if behs else 1
    ps = []
    for c in range(procs):
        part = behs[c * size:(c + 1) * size]
        if not part:
            continue
        inp, outp = sc.path('lbin_%s_%d.json' % (tag, c)), sc.path('lbout_%s_%d.ndjson' % (tag, c))
        json.dump({'behaviours': [{'id': b['id'], 'init': b['init'], 'steps': b['steps']} for b in part]}, open(inp, 'w'))
        env = dict(vlib.GOENV, VERIF_IN=inp, VERIF_OUT=outp)
        ps.append((subprocess.Popen([binary, '-test.run', '^TestVerifLinkBufferModel$', '-test.count=1', '-test.timeout', '900s'], cwd=sc.path('repo'), env=env,
                                    stdout=subprocess.PIPE, stderr=subprocess.STDOUT, text=True), outp, part))
    died = []
    for p, outp, part in ps:
        try:
            o, _ = p.communicate(timeout=1000)
        except subprocess.TimeoutExpired:
            p.kill(); o = 'timeout'
        got = [json.loads(l) for l in open(outp)] if os.path.exists(outp) else []
        for r in got:
            res[r['id']] = r
        if len(got) != len(part) and not (got and got[-1].get('hang')):
            died.append((part[len(got)]['id'], o[-1500:]))
    return res, died


U = 2048


def compare(beh, r):
    """-> (conformance mismatch or None, observable violations [(step, class, detail)])"""
    mism, obs = None, []
    for k, so in enumerate(r['steps']):
        for b in so.get('bad') or []:
            cls = b.split(':')[0]
            obs.append((k, cls, b))
        if mism is None and k < len(beh['exp']):
            e = beh['exp'][k]
            got = {bid: {'Nodes': [{'Cap': n['Cap'] // U if n['Cap'] % U == 0 else -1, 'Len': n['Len'] // U if n['Len'] % U == 0 else -1, 'Off': n['Off'] // U if n['Off'] % U == 0 else -1,
                                    'Mal': n['Mal'] // U if n['Mal'] % U == 0 else -1, 'Refer': n['Refer'], 'Unm': n['Unm'], 'Exp': n['Exp'], 'Origin': n['Origin']} for n in (B['Nodes'] or [])],
                         'Read': B['Read'], 'Flush': B['Flush'], 'Write': B['Write'], 'Length': B['Length'] // U, 'Msize': B['Msize'] // U, 'Caches': B['Caches'],
                         'CpLen': B['CpLen'] // U, 'CpCap': B['CpCap'] // U} for bid, B in so['bufs'].items()}
            if got != e['bufs']:
                d = next((('buffer %s: model %s / code %s' % (bid, json.dumps(e['bufs'].get(bid)), json.dumps(got.get(bid)))) for bid in sorted(set(got) | set(e['bufs'])) if got.get(bid) != e['bufs'].get(bid)), '')
                mism = (k, 'chain', d[:700])
            elif so['frees'] != e['frees']:
                mism = (k, 'frees', 'model frees %d blocks in this call, code %d' % (e['frees'], so['frees']))
        if so.get('failed'):
            break
    return mism, obs
