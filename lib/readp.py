"""C07 (model part): the input hand-off. Impl-shaped spec ReadProto.tla model-checked exhaustively; TLC counterexamples of the modelled
deviations (timer not drained, no length re-check on a tick) and TLC-simulated behaviours replayed as schedules on a real connection
under the controlled scheduler; every execution validated against ConnObs.tla (by the caller) and replayed step by step in
ReadProto.tla (TraceRPImpl.tla)."""
import json, os, re, shutil, glob
import vlib, tlaval


def tlc_run(sc, cfg, tag, workers=12, timeout=1500, extra=()):
    wd = sc.path('rp_' + tag)
    os.makedirs(wd, exist_ok=True)
    shutil.copy(os.path.join(vlib.SPEC, 'ReadProto.tla'), wd)
    shutil.copy(os.path.join(vlib.SPEC, cfg), wd)
    p = vlib.run(['java', '-XX:+UseParallelGC', '-cp', vlib.TLA_CP, 'tlc2.TLC', '-workers', str(workers), '-metadir', os.path.join(wd, 'md'), '-config', cfg] + list(extra) + ['ReadProto.tla'],
                 cwd=wd, timeout=timeout, check=False)
    return p.stdout, wd


def _steps(txt, pat):
    """[(label, sent-after)] for every state of a TLC behaviour (counterexample or -simulate file)"""
    out = []
    parts = re.split(pat, txt, flags=re.M)
    # parts: [pre, label1, body1, label2, body2, ...]
    for i in range(1, len(parts) - 1, 2):
        m = re.search(r'/\\ sent = (\d+)', parts[i + 1])
        out.append((parts[i], int(m.group(1)) if m else None))
    return out


def _ops(txt):
    m = re.search(r'ops = (<<.*?>>)\s*(?:/\\|$)', txt, re.S)
    if not m:
        return None
    return [[('NextT' if o['timed'] else 'Next'), o['n']] for o in tlaval.parse(m.group(1))]


def _scenario(sid, txt, pat, kind):
    ops = _ops(txt)
    if not ops:
        return None
    plan, peer, last = [], [], 0
    hups = 0
    for lab, sent in _steps(txt, pat):
        if lab == 'PeerSend':
            peer.append(['send', (sent or last) - last])
            plan.append('peer')
        elif lab == 'PeerClose':
            peer.append(['close'])
            plan.append('peer')
        elif lab == 'TimerFire':
            plan.append('rtimer')
        elif lab.startswith('R'):
            plan.append('reader')
        elif lab.startswith('P'):
            plan.append('poller')
        elif lab.startswith('H'):
            plan.append('hup1')
        if sent is not None:
            last = sent
    return {'id': sid, 'seed': 1, 'strategy': 'plan', 'plan': plan, 'kind': 'fd', 'onconnect': False, 'ondisconnect': False, 'onrequest': False, 'onprepare': True,
            'nclosecb': 1, 'handler': [], 'actors': [{'name': 'reader', 'ops': ops}], 'peer': peer, 'holdsetup': True, 'rpkind': kind}


CE = r'^State \d+: <(\w+)[^\n]*\n'
SIM = r'^\\\* <(\w+)[^\n]*\n'


def scenarios(sc, tier, seed):
    scs = []
    for cfg in ('MC_ReadProto_DevDrain.cfg', 'MC_ReadProto_DevDbl.cfg', 'MC_ReadProto_DevEof.cfg'):
        o, _ = tlc_run(sc, cfg, cfg[:-4], workers=1)
        s = _scenario('tlc-%s' % cfg[13:-4], o, CE, 'window')
        if not s or not s['plan']:
            raise vlib.Inconclusive('no counterexample from %s' % cfg)
        scs.append(s)
    n = 200 if tier == 'quick' else 4000
    o, wd = tlc_run(sc, 'MC_ReadProto_Sim.cfg', 'sim', workers=1, extra=['-simulate', 'file=%s,num=%d' % (sc.path('rp_sim', 'b'), n), '-depth', '80', '-seed', str(seed)])
    for i, f in enumerate(sorted(glob.glob(sc.path('rp_sim', 'b_*')))):
        s = _scenario('rpsim-%d-%d' % (seed, i), open(f).read(), SIM, 'sim')
        if s:
            scs.append(s)
    return scs


def exhaustive(sc, tier):
    out, _ = tlc_run(sc, 'MC_ReadProto.cfg', 'main')
    if not vlib.tlc_ok(out):
        raise vlib.Inconclusive('ReadProto.tla exhaustive check did not pass: %s' % (vlib.tlc_violation(out) or out[-800:]))
    st = vlib.tlc_stats(out)
    return st[1], st[0]


def impl_check(sc, runs, tag):
    wd = sc.path('rpi_' + tag)
    os.makedirs(wd, exist_ok=True)
    for f in ('ReadProto.tla', 'TraceRPImpl.tla'):
        shutil.copy(os.path.join(vlib.SPEC, f), wd)
    open(os.path.join(wd, 'TraceRPImpl.cfg'), 'w').write(
        'SPECIFICATION TSpec\nPOSTCONDITION Report\nCHECK_DEADLOCK FALSE\nCONSTANTS\n  MaxN = 3\n  NOps = 2\n  MaxSend = 4\n  Dev_NoTimerDrain = FALSE\n  Dev_NoDoubleCheck = FALSE\n  Dev_NoEofRecheck = FALSE\n')
    blank = {'g': '', 'pt': 0, 'k': 0, 'rt': 0, 'inlen': 0, 'wrs': 0, 'closing': 0, 'opst': 1, 'tick': 0, 'pend': 0, 'n1': 1, 't1': 0, 'n2': 1, 't2': 0}
    n = 0
    with open(os.path.join(wd, 'sched.ndjson'), 'w') as f:
        for s, r in runs:
            ops = s['actors'][0]['ops']
            if len(ops) != 2 or not r['info'].get('proj'):
                continue
            f.write(json.dumps(dict(blank, g='reset', n1=ops[0][1], t1=int(ops[0][0] == 'NextT'), n2=ops[1][1], t2=int(ops[1][0] == 'NextT'))) + '\n')
            n += 1
            h = r['info'].get('hold', 0)
            pi = 0
            for (name, gate), pj in zip(r['info']['gates'][h:], r['info']['proj'][h:]):
                g = {'reader': 'r', 'poller': 'p', 'peer': 'peer', 'rtimer': 'rtimer'}.get(name) or ('h' if name.startswith('hup') else None)
                if g is None:
                    break
                k = 0
                if g == 'peer':
                    op = s['peer'][pi]
                    pi += 1
                    k = op[1] if op[0] == 'send' else 0
                pt = int(gate.split('#')[0]) if gate != 'env' else 0
                f.write(json.dumps(dict(blank, g=g, pt=pt, k=k, rt=pj[5], inlen=pj[6], wrs=pj[7], closing=pj[8], opst=pj[9], tick=pj[10], pend=pj[11])) + '\n')
                n += 1
    p = vlib.run(['java', '-Xss64m', '-cp', vlib.TLA_CP, 'tlc2.TLC', '-workers', '1', '-metadir', os.path.join(wd, 'md'), '-config', 'TraceRPImpl.cfg', 'TraceRPImpl.tla'],
                 cwd=wd, timeout=1200, check=False)
    m = re.search(r'<<\s*"IMPL-RESULT",\s*(\d+),\s*(\d+),\s*(TRUE|FALSE)\s*>>', p.stdout)
    if not m:
        raise vlib.Inconclusive('ReadProto impl-level trace validation failed:\n' + p.stdout[-2000:])
    return int(m.group(1)), n, True
