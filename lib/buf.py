"""C01/C02/C03: ByteQueue.tla behaviours (TLC -simulate, exhaustive small graph) replayed into the real LinkBuffer."""
import json, os, sys, time, glob, re, shutil, subprocess
from concurrent.futures import ProcessPoolExecutor
import vlib, tlaval

# which failure classes of the replay belong to which property
CLASSES = {
    'C01': {'result', 'len', 'audit', 'panic', 'hang'},
    'C02': {'live', 'early_free'},
    'C03': {'double_free', 'foreign_free', 'interior_free', 'caller', 'private', 'unread_free', 'hang'},
}

SIM_CFGS = {
    # name: (cfg file, depth)
    'real': ('SIM_ByteQueue_real.cfg', 45),
    'edge': ('SIM_ByteQueue_edge.cfg', 60),
    'big': ('SIM_ByteQueue_big.cfg', 25),
}


def _segs(q):
    return [[g['s'], g['lo'], g['hi']] for g in q]


def _slen(q):
    return sum(g['hi'] - g['lo'] for g in q)


def convert_states(states):
    """states: list of dicts with last/bufs/live -> list of harness steps."""
    steps = []
    for st in states:
        last = st['last']
        if last['op'] in ('init',):
            continue
        step = {'op': last['op'], 'b': last['b'], 'a1': last['a1'], 'a2': last['a2'], 'err': last['err'],
                'res': _segs(last['res']), 'rid': last['rid'], 'nb': last['nb'], 'src': last['src']}
        if last['op'] == 'Append':
            pass
        if last['src'] and last['si']:
            step['srcinfo'] = {'n': last['si'][0], 'dl': last['si'][1], 'k': last['si'][2]}
        bufs = {}
        for i, b in enumerate(st['bufs']):
            if b['st'] == 'live':
                bufs[str(i + 1)] = {'kind': b['kind'], 'rd': _segs(b['rd']), 'mlen': _slen(b['pd'])}
        step['bufs'] = bufs
        step['live'] = [{'rid': r['rid'], 'segs': _segs(r['segs']), 'zc': r['zc']} for r in st['live']]
        steps.append(step)
    return steps


def _parse_one(path):
    states, _ = tlaval.parse_sim_file(path, only={'last', 'bufs', 'live'})
    return convert_states(states)


def gen_sim(sc, cfgname, total, seed, procs=8, timeout=900):
    """Run `procs` TLC simulators in parallel; returns list of behaviours (id, steps)."""
    cfg, depth = SIM_CFGS[cfgname]
    per = max(1, total // procs)
    wd = sc.path('sim_' + cfgname)
    os.makedirs(wd, exist_ok=True)
    for f in glob.glob(os.path.join(vlib.SPEC, 'ByteQueue*.tla')):
        shutil.copy(f, wd)
    shutil.copy(os.path.join(vlib.SPEC, cfg), wd)
    ps = []
    for k in range(procs):
        out = os.path.join(wd, 'p%d' % k)
        os.makedirs(out, exist_ok=True)
        cmd = ['java', '-XX:+UseParallelGC', '-Xmx1500m', '-cp', vlib.TLA_CP, 'tlc2.TLC', '-workers', '1',
               '-metadir', os.path.join(out, 'md'), '-config', cfg,
               '-simulate', 'file=%s/b,num=%d' % (out, per), '-depth', str(depth), '-seed', str(seed * 1000 + k),
               'ByteQueueSim.tla']
        ps.append((k, subprocess.Popen(cmd, cwd=wd, stdout=subprocess.PIPE, stderr=subprocess.STDOUT, text=True)))
    t0 = time.time()
    for k, p in ps:
        try:
            o, _ = p.communicate(timeout=max(1, timeout - (time.time() - t0)))
        except subprocess.TimeoutExpired:
            p.kill()
            raise vlib.Inconclusive('TLC simulate timed out')
        if 'traces generated' not in o:
            raise vlib.Inconclusive('TLC simulate failed:\n' + o[-2000:])
    files = sorted(glob.glob(os.path.join(wd, 'p*', 'b_*')))
    with ProcessPoolExecutor(max_workers=min(16, procs * 2)) as ex:
        parsed = list(ex.map(_parse_one, files, chunksize=8))
    behs = []
    for f, steps in zip(files, parsed):
        bid = '%s-s%d-%s' % (cfgname, seed, '_'.join(f.split('/')[-2:]))
        behs.append({'id': bid, 'steps': steps})
    return behs


def exhaustive(sc, cfg='MC_ByteQueue_small.cfg', timeout=600, workers=8):
    out, wd, rc = vlib.tlc(sc, 'ByteQueue', cfg, workers=workers, timeout=timeout, tag='mc')
    st = vlib.tlc_stats(out)
    v = vlib.tlc_violation(out)
    if v or not vlib.tlc_ok(out):
        raise vlib.Inconclusive('exhaustive check of ByteQueue.tla did not pass: %s\n%s' % (v, out[-1500:]))
    return {'generated': st[0], 'distinct': st[1]}


def replay(sc, binary, behs, tag, chunks=8):
    """Run the Go replay; returns list of result dicts aligned with behs."""
    results = {}
    procs = []
    n = len(behs)
    size = (n + chunks - 1) // chunks if n else 1
    for c in range(chunks):
        part = behs[c * size:(c + 1) * size]
        if not part:
            continue
        inp = sc.path('in_%s_%d.json' % (tag, c))
        outp = sc.path('out_%s_%d.ndjson' % (tag, c))
        json.dump({'behaviours': part}, open(inp, 'w'))
        env = dict(vlib.GOENV, VERIF_IN=inp, VERIF_OUT=outp)
        p = subprocess.Popen([binary, '-test.run', '^TestVerifBufReplay$', '-test.count=1', '-test.timeout', '1500s'],
                             cwd=sc.path('repo'), env=env, stdout=subprocess.PIPE, stderr=subprocess.STDOUT, text=True)
        procs.append((p, outp, part))
    for p, outp, part in procs:
        o, _ = p.communicate(timeout=1600)
        got = []
        if os.path.exists(outp):
            got = [json.loads(l) for l in open(outp) if l.strip()]
        for r in got:
            results[r['id']] = r
        if p.returncode != 0 or len(got) != len(part):
            # a crash (fatal error, not a recoverable panic) in the middle of a behaviour: attribute it to that behaviour
            done = {r['id'] for r in got}
            missing = [b for b in part if b['id'] not in done]
            if any(r.get('class') == 'hang' for r in got):
                # the process gave up after a call that never returned (reported for that behaviour); the rest of its share was not run
                for b in missing:
                    results[b['id']] = {'id': b['id'], 'ok': None, 'skipped': True}
            elif missing:
                results[missing[0]['id']] = {'id': missing[0]['id'], 'ok': False, 'steps': len(missing[0]['steps']), 'step': -1,
                                             'class': 'panic', 'detail': 'test process died: ' + o[-600:], 'op': '?'}
                for b in missing[1:]:
                    results[b['id']] = {'id': b['id'], 'ok': None, 'skipped': True}
    return results


def match_known(findings, beh, res):
    """A known finding matches when its signature fits the failing step of this behaviour."""
    step = res.get('step', -1)
    before = beh['steps'][:step + 1] if step >= 0 else beh['steps']
    for f in findings:
        sig = f.get('signature', {})
        if sig.get('class_in') and res.get('class') not in sig['class_in']:
            continue
        if sig.get('op') and sig['op'] != res.get('op'):
            continue
        w = sig.get('needs_op_with')
        if w and not any(s['op'] == w['op'] and s.get('a2', 0) > w.get('a2_gt', -1) for s in before):
            continue
        pat = sig.get('detail_regex')
        if pat and not re.search(pat, res.get('detail', '')):
            continue
        return f
    return None


def main(pid, tier, replay_path=None):
    t0 = time.time()
    seed = vlib.seed()
    findings = vlib.load_findings(pid)
    violations, known_hit, samples = [], {}, []
    try:
        with vlib.Scratch('buf') as sc:
            binary = vlib.build_harness(sc, '.', instrumented_pool=True)
            if replay_path:
                rp = json.load(open(replay_path))
                behs = [rp['behaviour']] if 'behaviour' in rp else []
                stats = {'generated': 0, 'distinct': 0}
            else:
                stats = exhaustive(sc, cfg='MC_ByteQueue_small.cfg' if tier == 'thorough' else 'MC_ByteQueue_quick.cfg', timeout=1800 if tier == 'thorough' else 900)
                if tier == 'quick':
                    plan = [('real', 1600), ('edge', 1200), ('big', 16)]
                else:
                    plan = [('real', 40000), ('edge', 30000), ('big', 400)]
                behs = []
                for name, n in plan:
                    behs += gen_sim(sc, name, n, seed, procs=8 if tier == 'quick' else 14,
                                    timeout=600 if tier == 'quick' else 2400)
            res = replay(sc, binary, behs, 'r', chunks=12)
            nsteps = sum(len(b['steps']) for b in behs)
            ran = failed_other = 0
            multinode = pool_free = 0
            distinct = set()
            for b in behs:
                r = res.get(b['id'])
                if r is None or r.get('skipped'):
                    continue
                ran += 1
                multinode += r.get('multinode_reads', 0)
                pool_free += r.get('pool_free', 0)
                distinct.add(tuple((s['op'], s['a1']) for s in b['steps']))
                if len(samples) < 3 and len(b['steps']) > 5:
                    samples.append({'id': b['id'], 'ops': ['%s(b%d,%d%s)' % (s['op'], s['b'], s['a1'], ',%d' % s['a2'] if s['a2'] else '') for s in b['steps'][:40]],
                                    'accepted': bool(r.get('ok'))})
                if r.get('ok'):
                    continue
                if r.get('class') == 'harness':
                    raise vlib.Inconclusive('harness error in %s: %s' % (b['id'], r.get('detail')))
                if r.get('class') not in CLASSES[pid]:
                    failed_other += 1  # belongs to a sibling property's check
                    continue
                kf = match_known(findings, b, r)
                if kf:
                    known_hit.setdefault(kf['id'], kf)
                    continue
                if len(violations) < 5:
                    p = vlib.save_replay(pid, '%s_%d' % (tier, len(violations)), {
                        'property': pid, 'tier': tier, 'seed': seed, 'behaviour': b, 'failure': r})
                    violations.append(p)
                    vlib.log('violation in %s at step %d (%s): [%s] %s' % (b['id'], r['step'], r['op'], r['class'], r['detail']))
                    vlib.log('   ops: ' + ' '.join('%s(%d,%d)' % (s['op'], s['b'], s['a1']) for s in b['steps'][:r['step'] + 1]))
            # ---- C03: references dropped concurrently (a Slice reader on another goroutine against its owner): the ledger never sees a double free
            crcov = {}
            if pid in ('C02', 'C03') and (not replay_path or rp.get('concurrent_release')):
                import subprocess
                outp = sc.path('crel.json')
                env = dict(vlib.GOENV, VERIF_OUT=outp, VERIF_BUDGET_MS=str(6000 if tier == 'quick' else 90000))
                p_ = subprocess.run([binary, '-test.run', '^TestVerifBufConcurrentRelease$', '-test.count=1', '-test.timeout', '600s'], cwd=sc.path('repo'), env=env,
                                    stdout=subprocess.PIPE, stderr=subprocess.STDOUT, text=True, timeout=700)
                if not os.path.exists(outp):
                    raise vlib.Inconclusive('concurrent-release run failed: ' + p_.stdout[-600:])
                cr = json.load(open(outp))
                crcov = {'concurrent_release_rounds': cr['rounds'], 'concurrent_release_double_frees': cr['double_free'], 'concurrent_release_early_frees': cr.get('early_free', 0)}
                # a block returned twice is C03's, a block returned while an unreleased reader still reads from it is C02's
                if (pid == 'C03' and (cr['double_free'] or cr['other'])) or (pid == 'C02' and cr.get('early_free', 0)) or cr.get('panics', 0):
                    violations.append(vlib.save_replay(pid, '%s_crel' % tier, {'property': pid, 'tier': tier, 'concurrent_release': True, 'result': cr}))
                    vlib.log('violation in the concurrent-release run after %d rounds: %s' % (cr['rounds'], cr['detail']))
            # ---- the node-level transcription LinkBuffer.tla: exhaustive to a bounded number of calls, its behaviours on the real code
            lbcov = {}
            if not replay_path or 'lbbehaviour' in rp:
                import lbmodel
                if replay_path:
                    lbehs, lst = [rp['lbbehaviour']], (0, 0)
                else:
                    lst = lbmodel.exhaustive(sc, tier)
                    lbehs = [lbmodel.f3_behaviour(sc)] + lbmodel.dev_behaviours(sc) + lbmodel.sim_behaviours(sc, 300 if tier == 'quick' else 6000, seed)
                lres, ldied = lbmodel.run_behaviours(sc, binary, lbehs, 'lb')
                if ldied:
                    raise vlib.Inconclusive('LinkBuffer model harness died in %s: %s' % ldied[0])
                mism = 0
                LCLS = {'C01': ('result', 'panic', 'hang'), 'C02': ('stability', 'ledger-result'), 'C03': ('ledger', 'ledger-unread', 'hang')}
                for b in lbehs:
                    r = lres.get(b['id'])
                    if not r:
                        continue
                    mm, obs = lbmodel.compare(b, r)
                    if mm:
                        mism += 1
                        if mism <= 2:
                            vlib.log('note: the code does not follow LinkBuffer.tla in %s at call %d (%s): %s' % (b['id'], mm[0], b['steps'][mm[0]], mm[2][:300]))
                    for k, cls, detail in obs:
                        c2 = cls
                        if cls == 'ledger':
                            c2 = 'ledger-result' if ' result ' in detail else ('ledger-unread' if ' unread ' in detail else 'ledger')
                        if c2 not in LCLS[pid]:
                            continue
                        if any(st['op'] == 'WriteDirect' and st['m'] > 0 for st in b['steps'][:k + 1]) and c2.startswith('ledger'):
                            kf = next((f for f in findings if f['id'] == 'F3'), None)
                            if kf:
                                known_hit.setdefault('F3', kf)
                                break
                        if len(violations) < 5:
                            violations.append(vlib.save_replay(pid, '%s_lb%d' % (tier, len(violations)), {'property': pid, 'tier': tier, 'seed': seed, 'lbbehaviour': b, 'failure': {'step': k, 'detail': detail}}))
                            vlib.log('violation in %s at call %d (%s): %s' % (b['id'], k, b['steps'][k], detail))
                            vlib.log('   calls: ' + ' '.join('%s(%d,%d,%d)' % (st['op'], st['b'], st['n'], st['m']) for st in b['steps'][:k + 1]))
                        break
                lbcov = {'linkbuffer_model_states': lst[0], 'linkbuffer_model_transitions': lst[1], 'linkbuffer_model_behaviours_replayed': len(lres),
                         'linkbuffer_model_calls_replayed': sum(len(b['steps']) for b in lbehs), 'linkbuffer_model_behaviours_not_followed': mism}
            cov = {
                'states': stats['distinct'] or 1, 'transitions': stats['generated'] or 1,
                'traces_validated_against_impl': ran,
                'samples': samples or [{'id': b['id']} for b in behs[:1]],
                'spec_steps_replayed': nsteps,
                'distinct_behaviours': len(distinct),
                'multinode_reads_exercised': multinode,
                'pool_frees_observed': pool_free,
                'failures_owned_by_sibling_properties': failed_other,
                'known_findings_matched': sorted(known_hit),
                'exhaustive': False,
                'spec_modules': vlib.spec_hashes(['ByteQueue.tla', 'ByteQueueSim.tla', 'LinkBuffer.tla']),
                'explanation': 'states/transitions: exhaustive TLC run of ByteQueue.tla on MC_ByteQueue_small.cfg (spec sanity invariants); '
                               'traces_validated_against_impl: TLC -simulate behaviours of ByteQueue.tla executed step by step on the real LinkBuffer '
                               'with result, Len/MallocLen, readable content, live results, caller memory and pool ledger compared after every step',
            }
            cov.update(lbcov)
            cov.update(crcov)
            if lbcov:
                cov['spec_modules'] = vlib.spec_hashes(['ByteQueue.tla', 'ByteQueueSim.tla', 'LinkBuffer.tla'])
            vlib.write_evidence(pid, tier if tier in ('quick', 'thorough') else 'quick', 'model_checking', cov, time.time() - t0, len(violations),
                                ['TLC/SANY', 'Go toolchain', 'harness PRF content and comparison code', 'instrumented mcache replacement (never reuses, poisons freed blocks)',
                                 'contract guards of ByteQueue.tla (narrow reading of nocopy.go doc comments)'])
    except vlib.Inconclusive as e:
        vlib.log('INCONCLUSIVE: %s' % e)
        if violations:
            vlib.finish(pid, violations, [])
        vlib.finish(pid, [], [], inconclusive=str(e).splitlines()[0][:200])
    vlib.finish(pid, violations, ['%s %s' % (k, known_hit[k]['what']) for k in sorted(known_hit)])
