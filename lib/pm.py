"""C18: the poller pool. PollManager.tla model-checked exhaustively; TLC counterexample (modelled deviation) / simulated / random schedules replayed on a real
manager under the controlled scheduler; validated against PollManagerObs.tla and (conformance) PollManager.tla."""
import glob, json, os, random, re, shutil, time
import vlib, tlaval, conn
from shardq import with_start_steps

SIZES = [2, 1, 3]


def tlc_run(sc, cfg, tag, workers=12, timeout=1200, extra=()):
    wd = sc.path('pm_' + tag)
    os.makedirs(wd, exist_ok=True)
    shutil.copy(os.path.join(vlib.SPEC, 'PollManager.tla'), wd)
    shutil.copy(os.path.join(vlib.SPEC, cfg), wd)
    p = vlib.run(['java', '-XX:+UseParallelGC', '-cp', vlib.TLA_CP, 'tlc2.TLC', '-workers', str(workers), '-metadir', os.path.join(wd, 'md'), '-config', cfg] + list(extra) + ['PollManager.tla'],
                 cwd=wd, timeout=timeout, check=False)
    return p.stdout, wd


def phases_from_labels(labels):
    """labels like P_load("p1") / NextPhase -> per-phase plans"""
    phases, cur = [], []
    for lab, arg in labels:
        if lab == 'NextPhase':
            phases.append(cur)
            cur = []
        elif lab.startswith('P_'):
            cur.append(arg.strip('"'))
    phases.append(cur)
    return phases


def scenario_from_plan(sid, phases, seed):
    ph = [{'numloops': SIZES[i], 'lb': '', 'plan': with_start_steps(phases[i]) if i < len(phases) else []} for i in range(3)]
    return {'id': sid, 'seed': seed, 'strategy': 'plan', 'pickers': 3, 'picksper': 2, 'phases': ph, 'std': True}


def impl_check(sc, runs, tag):
    wd = sc.path('pmi_' + tag)
    os.makedirs(wd, exist_ok=True)
    for f in ('PollManager.tla', 'TracePMImpl.tla'):
        shutil.copy(os.path.join(vlib.SPEC, f), wd)
    open(os.path.join(wd, 'TracePMImpl.cfg'), 'w').write('SPECIFICATION TSpec\nPOSTCONDITION Report\nCHECK_DEADLOCK FALSE\nCONSTANTS\n  Pickers = {"p1", "p2", "p3"}\n  PicksPer = 2\n  S1 = 2\n  S2 = 1\n  S3 = 3\n  Dev_NoCAS = FALSE\n')
    n = 0
    with open(os.path.join(wd, 'sched.ndjson'), 'w') as f:
        for r in runs:
            started, phase_i = set(), 0
            pj = iter(r['info']['proj'])
            for name in r['info']['taken']:
                if name == '|':
                    next(pj, None)   # the separator entry
                    phase_i += 1
                    started = set()
                    if phase_i < 3:
                        f.write(json.dumps({'g': 'phase', 'status': 0, 'npolls': 0, 'numloops': 0}) + '\n'); n += 1
                    continue
                p = next(pj, None)
                if name not in started:
                    started.add(name)
                    continue
                f.write(json.dumps({'g': name, 'status': p[0], 'npolls': p[1], 'numloops': p[2]}) + '\n'); n += 1
            f.write(json.dumps({'g': 'reset', 'status': 0, 'npolls': 0, 'numloops': 0}) + '\n'); n += 1
    p = vlib.run(['java', '-Xss64m', '-cp', vlib.TLA_CP, 'tlc2.TLC', '-workers', '1', '-metadir', os.path.join(wd, 'md'), '-config', 'TracePMImpl.cfg', 'TracePMImpl.tla'], cwd=wd, timeout=900, check=False)
    m = re.search(r'<<\s*"IMPL-RESULT",\s*(\d+),\s*(\d+)\s*>>', p.stdout)
    if not m:
        raise vlib.Inconclusive('impl-level trace validation failed:\n' + p.stdout[-1500:])
    return int(m.group(1)), n


def main(pid, tier, replay_path=None):
    t0 = time.time()
    seed = vlib.seed()
    violations, samples = [], []
    try:
        with vlib.Scratch('pm') as sc:
            binary = vlib.build_harness(sc, '.', instrumented_pool=True)
            out, _ = tlc_run(sc, 'MC_PollManager.cfg', 'main')
            if not vlib.tlc_ok(out):
                raise vlib.Inconclusive('PollManager.tla exhaustive check did not pass: %s' % (vlib.tlc_violation(out) or out[-600:]))
            st = vlib.tlc_stats(out)
            scs = []
            if replay_path:
                scs = [json.load(open(replay_path))['scenario']]
            else:
                o, _ = tlc_run(sc, 'MC_PollManager_DevNoCAS.cfg', 'dev', workers=1)
                labels = re.findall(r'^State \d+: <(\w+)(?:\(([^)]*)\))?', o, re.M)
                if len(labels) < 3:
                    raise vlib.Inconclusive('no counterexample from the deviation config')
                scs.append(scenario_from_plan('tlc-DevNoCAS', phases_from_labels(labels), 1))
                _, wd = tlc_run(sc, 'MC_PollManager_Sim.cfg', 'sim', workers=1, extra=['-simulate', 'file=%s,num=%d' % (sc.path('pm_sim', 'b'), 150 if tier == 'quick' else 10000), '-depth', '120', '-seed', str(seed)])
                for i, f in enumerate(sorted(glob.glob(sc.path('pm_sim', 'b_*')))):
                    labels = re.findall(r'^\\\* <(\w+)(?:\(([^)]*)\))?', open(f).read(), re.M)
                    scs.append(scenario_from_plan('sim-%d-%d' % (seed, i), phases_from_labels(labels), seed * 1000 + i))
                rnd = random.Random(seed * 13 + 1)
                for i in range(400 if tier == 'quick' else 40000):
                    nph = rnd.randint(1, 4)
                    scs.append({'id': 'rnd-%d-%d' % (seed, i), 'seed': seed * 100000 + i, 'strategy': rnd.choice(['random', 'pct']), 'pickers': rnd.randint(1, 4), 'picksper': rnd.randint(1, 4),
                                'phases': [{'numloops': rnd.randint(1, 4), 'lb': rnd.choice(['', '', 'rr', 'random']) if k > 0 else rnd.choice(['', 'random']), 'plan': []} for k in range(nph)]})
                # free-running: real threads racing the lazy initialisation (windows that have no schedule point in between)
                for i in range(600 if tier == 'quick' else 60000):
                    scs.append({'id': 'free-%d-%d' % (seed, i), 'seed': seed * 1000 + i, 'strategy': 'free', 'pickers': rnd.choice([2, 3, 4, 6]), 'picksper': rnd.randint(1, 2),
                                'phases': [{'numloops': rnd.randint(1, 3), 'lb': '', 'plan': []} for k in range(rnd.randint(1, 2))]})
            res, crashed = conn.run_scenarios(sc, binary, scs, 'p', procs=2, test='TestVerifPollManager')
            for s0, o in crashed:
                violations.append(vlib.save_replay(pid, '%s_crash%d' % (tier, len(violations)), {'property': pid, 'scenario': s0, 'output': o}))
                vlib.log('test process died in %s:\n%s' % (s0['id'], o[-1000:]))
            vs, nlines, tst = conn.validate(sc, res, [s['id'] for s in scs], 'p', module='TracePM', deps=('PollManagerObs.tla',))
            byid = {s['id']: s for s in scs}
            seen = set()
            for v in vs:
                if not v['rule'].startswith(pid + '.') or (v['scenario'], v['rule']) in seen:
                    continue
                seen.add((v['scenario'], v['rule']))
                r, s0 = res[v['scenario']], byid[v['scenario']]
                vlib.log('violation %s in %s %s' % (v['rule'], v['scenario'], [(p['numloops'], p['lb']) for p in s0['phases']]))
                vlib.log('   schedule: ' + ' '.join(r['info']['taken']))
                vlib.log('   events: ' + ' '.join('%s:%s:%s:%s' % (e['e'], e['k'], e['n'], e['m']) for e in r['events']))
                if len(violations) < 6:
                    violations.append(vlib.save_replay(pid, '%s_%d' % (tier, len(violations)), {'property': pid, 'rule': v['rule'], 'scenario': s0, 'events': r['events'], 'taken': r['info']['taken']}))
            std = [res[s['id']] for s in scs if s.get('std') and s['id'] in res and not res[s['id']]['info'].get('drift')][:200]
            consumed, total = impl_check(sc, std, 'std') if std else (0, 0)
            for s in scs[:2]:
                r = res.get(s['id'])
                if r:
                    samples.append({'scenario': {k: s[k] for k in s if k != 'phases'}, 'phases': [(p['numloops'], p['lb']) for p in s['phases']], 'schedule_taken': r['info']['taken'][:60],
                                    'events': ['%s:%s:%s:%s' % (e['e'], e['k'], e['n'], e['m']) for e in r['events'][:30]]})
            cov = {'states': st[1], 'transitions': st[0], 'traces_validated_against_impl': len(res), 'samples': samples,
                   'tlc_schedules_replayed': len([s for s in scs if s.get('std')]), 'plans_that_drifted': sum(1 for s in scs if s.get('std') and res.get(s['id'], {}).get('info', {}).get('drift', 0) > 0),
                   'impl_spec_conformance': {'schedules_checked': len(std), 'steps_followed': consumed, 'steps_total': total, 'all_followed': consumed == total},
                   'trace_events_validated': nlines, 'spec_modules': vlib.spec_hashes(['PollManager.tla', 'PollManagerObs.tla', 'TracePM.tla', 'TracePMImpl.tla']),
                   'explanation': 'states/transitions: exhaustive TLC check of PollManager.tla (3 pickers x 2 picks x phases 2,1,3); real executions: private manager with real pollers, '
                                  'Pick calls as actors under the controlled scheduler, reconfiguration between phases; validated against PollManagerObs.tla and PollManager.tla'}
            if consumed != total and not violations:
                vlib.log('note: PollManager.tla could not follow a recorded schedule (step %d of %d)' % (consumed, total))
            vlib.write_evidence(pid, tier, 'model_checking', cov, time.time() - t0, len(violations), ['TLC/SANY', 'controlled scheduler of the harness', 'loop liveness observed through the loop start/exit trace points'])
    except vlib.Inconclusive as e:
        vlib.log('INCONCLUSIVE: %s' % e)
        if violations:
            vlib.finish(pid, violations, [])
        vlib.finish(pid, [], [], inconclusive=str(e).splitlines()[0][:200])
    vlib.finish(pid, violations, [])
