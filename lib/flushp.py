"""C08 (model part): the output hand-off. Impl-shaped spec FlushProto.tla model-checked exhaustively; TLC counterexamples (the as-is
overlap F16, the modelled deviations = reverted repairs L1/L1b) and TLC-simulated behaviours replayed as schedules on a real connection
under the controlled scheduler; every execution validated against ConnObs.tla (by the caller) and replayed in FlushProto.tla
(TraceFPImpl.tla: schedule point of the acting goroutine before the step, projection after it)."""
import json, os, re, shutil, glob
import vlib, tlaval

UNIT = 4032        # bytes per model unit: an empty socketpair buffer (SO_SNDBUF 4096) accepts exactly 2 units


def tlc_run(sc, cfg, tag, workers=8, timeout=900, extra=()):
    wd = sc.path('fp_' + tag)
    os.makedirs(wd, exist_ok=True)
    shutil.copy(os.path.join(vlib.SPEC, 'FlushProto.tla'), wd)
    shutil.copy(os.path.join(vlib.SPEC, cfg), wd)
    p = vlib.run(['java', '-XX:+UseParallelGC', '-cp', vlib.TLA_CP, 'tlc2.TLC', '-workers', str(workers), '-metadir', os.path.join(wd, 'md'), '-config', cfg] + list(extra) + ['FlushProto.tla'],
                 cwd=wd, timeout=timeout, check=False)
    return p.stdout, wd


NAME = {'F': 'flusher', 'P': 'poller'}


def _plan(labels):
    plan = []
    for lab in labels:
        if lab == 'PeerDrain':
            plan.append('peer')
        elif lab == 'TimerFire':
            plan.append('wtimer')
        elif lab[:1] in NAME and lab[1:2].isupper():
            plan.append(NAME[lab[0]])
    return plan


def _ops(txt):
    m = re.search(r'ops = (<<.*?>>)\s*(?:/\\|$)', txt, re.S)
    if not m:
        return None
    v = tlaval.parse(m.group(1))
    return [[('WriteT' if o['timed'] else 'Write'), o['n'] * UNIT] for o in v]


def scenario(sid, ops, plan, kind):
    return {'id': sid, 'seed': 1, 'strategy': 'plan', 'plan': plan, 'kind': 'fd', 'onconnect': False, 'ondisconnect': False, 'onrequest': False, 'onprepare': True,
            'nclosecb': 1, 'handler': [], 'actors': [{'name': 'flusher', 'ops': ops}], 'peer': [['drain', 1 << 20]] * 40, 'sndbuf': 4096, 'holdsetup': True,
            'fpkind': kind}


def scenarios(sc, tier, seed):
    scs = []
    for cfg, kind in (('MC_FlushProto_F16.cfg', 'asis'), ('MC_FlushProto_DevL1.cfg', 'window'), ('MC_FlushProto_DevL1u.cfg', 'window'), ('MC_FlushProto_DevL1b.cfg', 'window')):
        o, _ = tlc_run(sc, cfg, cfg[:-4], workers=1)
        labels = re.findall(r'^State \d+: <(\w+)', o, re.M)
        ops = _ops(o)
        if not labels or not ops:
            raise vlib.Inconclusive('no counterexample from %s' % cfg)
        scs.append(scenario('tlc-%s' % cfg[14:-4], ops, _plan(labels), kind))
    n = 200 if tier == 'quick' else 4000
    o, wd = tlc_run(sc, 'MC_FlushProto_Sim.cfg', 'sim', workers=1, extra=['-simulate', 'file=%s,num=%d' % (sc.path('fp_sim', 'b'), n), '-depth', '70', '-seed', str(seed)])
    for i, f in enumerate(sorted(glob.glob(sc.path('fp_sim', 'b_*')))):
        txt = open(f).read()
        labels = re.findall(r'^\\\* <(\w+)', txt, re.M)
        ops = _ops(txt)
        if ops:
            scs.append(scenario('fpsim-%d-%d' % (seed, i), ops, _plan(labels), 'sim'))
    return scs


def exhaustive(sc, tier):
    states = trans = 0
    for cfg in ('MC_FlushProto.cfg', 'MC_FlushProto_Harness.cfg'):
        out, _ = tlc_run(sc, cfg, cfg[:-4])
        if not vlib.tlc_ok(out):
            raise vlib.Inconclusive('FlushProto.tla exhaustive check (%s) did not pass: %s' % (cfg, vlib.tlc_violation(out) or out[-800:]))
        st = vlib.tlc_stats(out)
        states, trans = states + st[1], trans + st[0]
    return states, trans


def impl_check(sc, runs, tag):
    """runs: list of (scenario, result). Returns (consumed, total, model_stayed_exclusive)."""
    wd = sc.path('fpi_' + tag)
    os.makedirs(wd, exist_ok=True)
    for f in ('FlushProto.tla', 'TraceFPImpl.tla'):
        shutil.copy(os.path.join(vlib.SPEC, f), wd)
    open(os.path.join(wd, 'TraceFPImpl.cfg'), 'w').write(
        'SPECIFICATION TSpec\nPOSTCONDITION Report\nCHECK_DEADLOCK FALSE\nCONSTANTS\n  Cap = 2\n  MaxN = 3\n  NOps = 2\n  Dev_NoStaleCheck = FALSE\n  Dev_NoStaleCheckUntimed = FALSE\n  Dev_NoRearm = FALSE\n  EagerKernel = TRUE\n')
    blank = {'g': '', 'pt': 0, 'flock': 0, 'wt': 0, 'blen': 0, 'sock': 0, 'tick': 0, 'n1': 1, 't1': 0, 'n2': 1, 't2': 0}
    n = 0
    with open(os.path.join(wd, 'sched.ndjson'), 'w') as f:
        for s, r in runs:
            ops = s['actors'][0]['ops']
            if len(ops) != 2:
                continue
            f.write(json.dumps(dict(blank, g='reset', n1=ops[0][1] // UNIT, t1=int(ops[0][0] == 'WriteT'), n2=ops[1][1] // UNIT, t2=int(ops[1][0] == 'WriteT'))) + '\n')
            n += 1
            h = r['info'].get('hold', 0)
            for (name, gate), pj in zip(r['info']['gates'][h:], r['info']['proj'][h:]):
                g = {'flusher': 'f', 'poller': 'p', 'peer': 'peer', 'wtimer': 'wtimer'}.get(name)
                if g is None:
                    break
                pt = int(gate.split('#')[0]) if gate != 'env' else 0
                f.write(json.dumps(dict(blank, g=g, pt=pt, flock=pj[0], wt=pj[1], blen=pj[2] * 1000 // UNIT, sock=max(pj[3], 0) * 1000 // UNIT, tick=pj[4])) + '\n')
                n += 1
    p = vlib.run(['java', '-Xss64m', '-cp', vlib.TLA_CP, 'tlc2.TLC', '-workers', '1', '-metadir', os.path.join(wd, 'md'), '-config', 'TraceFPImpl.cfg', 'TraceFPImpl.tla'],
                 cwd=wd, timeout=1200, check=False)
    m = re.search(r'<<\s*"IMPL-RESULT",\s*(\d+),\s*(\d+),\s*(TRUE|FALSE)\s*>>', p.stdout)
    if not m:
        raise vlib.Inconclusive('FlushProto impl-level trace validation failed:\n' + p.stdout[-2000:])
    return int(m.group(1)), n, m.group(3) == 'TRUE'
