"""C05-C09 (and the connection part of C12/C15): connection scenarios under the controlled scheduler,
judged by ConnObs.tla through TLC trace validation (TraceConn.tla)."""
import json, os, random, re, subprocess, sys, time, shutil, glob
import vlib, tlaval

FAMILY_OF = {'C04': 'stream', 'C05': 'close', 'C06': 'req', 'C07': 'read', 'C08': 'flush', 'C09': 'cb'}


# ------------------------------------------------------------------ scenario generators
def _closers(rnd, lo, hi, detach=False):
    out = []
    for k in range(1, rnd.randint(lo, hi) + 1):
        ops = [['Close']] * rnd.randint(1, 2)
        if detach and rnd.random() < 0.25:
            ops = [['Detach']] + ops[1:]
        if rnd.random() < 0.3:
            ops = [['IsActive']] + ops + [['IsActive']]
        out.append({'name': 'closer%d' % k, 'ops': ops})
    return out


def gen_close(rnd, i):
    peer = [['send', rnd.randint(1, 3)] for _ in range(rnd.randint(0, 2))]
    r = rnd.random()
    if r < 0.55:
        peer.append(['close'])
    elif r < 0.7:
        peer.append(['rst'])
    elif r < 0.8:
        peer.append(['shutwr'])
    hs = [{'consume': rnd.choice([-1, -1, 1]), 'then': rnd.choice(['return', 'return', 'close', 'panic', 'yield', 'yield'])}
          for _ in range(rnd.randint(1, 2))]
    return {'kind': 'server', 'onconnect': rnd.random() < 0.4, 'ondisconnect': rnd.random() < 0.5,
            'onrequest': rnd.random() < 0.8, 'onprepare': True, 'nclosecb': rnd.randint(1, 3),
            'connbody': rnd.choice(['return', 'return', 'close', 'yield']),
            'prepbody': 'close' if rnd.random() < 0.05 else 'return',
            'handler': hs, 'actors': _closers(rnd, 0, 3, detach=True), 'peer': peer}


def gen_req(rnd, i):
    if rnd.random() < 0.2:
        # a framing handler: it returns without consuming while the request (K bytes) is incomplete; requests arrive in pieces
        K, m = rnd.choice([2, 3, 4]), rnd.randint(1, 3)
        peer, left = [], K * m
        while left > 0:
            k = rnd.randint(1, min(2, left))
            peer.append(['send', k])
            left -= k
        if rnd.random() < 0.5:
            peer.append(['close'])
        return {'kind': 'server', 'onconnect': rnd.random() < 0.2, 'ondisconnect': False, 'onrequest': True, 'onprepare': True, 'nclosecb': 1,
                'connbody': 'return', 'handler': [{'consume': 0, 'need': K, 'then': 'return'}], 'actors': [], 'peer': peer, 'focus': True}
    n = rnd.randint(1, 4)
    peer = [['send', rnd.randint(1, 3)] for _ in range(n)]
    if rnd.random() < 0.6:
        peer.append(['close'])
    hs = [{'consume': rnd.choice([-1, 1, 1, 2]), 'then': rnd.choice(['return', 'return', 'yield'])} for _ in range(rnd.randint(1, 3))]
    sc = {'kind': 'server', 'onconnect': rnd.random() < 0.3, 'ondisconnect': rnd.random() < 0.3, 'onrequest': True,
          'onprepare': True, 'nclosecb': 1, 'connbody': rnd.choice(['return', 'yield']), 'handler': hs, 'actors': [], 'peer': peer}
    if rnd.random() < 0.3:
        # dialed connection: the handler is installed later, possibly with data already buffered / peer closed
        sc.update({'kind': 'client', 'latereq': True, 'onconnect': False,
                   'actors': [{'name': 'user1', 'ops': [['Yield']] * rnd.randint(0, 2) + [['SetOnRequest']]}]})
    return sc


def gen_read(rnd, i):
    if rnd.random() < 0.25:
        # timer/data race shape: a timed read that is satisfied while its timer may fire as well, then a timed read that must wait
        a, b = rnd.randint(1, 3), rnd.randint(1, 2)
        peer = [['send', a]] if rnd.random() < 0.6 else [['send', 1]] * a
        if rnd.random() < 0.3:
            peer.append(['send', b])
        return {'kind': rnd.choice(['client', 'fd']), 'onconnect': False, 'ondisconnect': False, 'onrequest': False, 'onprepare': True, 'nclosecb': 1,
                'handler': [], 'actors': [{'name': 'reader', 'ops': [['NextT', a], ['NextT', b]]}], 'peer': peer, 'eagertimers': True, 'focus': True}
    need = [rnd.randint(1, 3) for _ in range(rnd.randint(1, 3))]
    ops = []
    for n in need:
        ops.append([rnd.choice(['Next', 'NextT', 'NextT', 'NextT', 'NextD']), n])
    total = sum(need)
    peer = []
    left = total + rnd.choice([0, 0, -1, -1, 1])
    while left > 0:
        k = rnd.randint(1, min(2, left))
        peer.append(['send', k])
        left -= k
    if rnd.random() < 0.4:
        peer.insert(rnd.randint(0, len(peer)), ['close']) if rnd.random() < 0.5 else peer.append(['close'])
        peer = peer[:peer.index(['close']) + 1]
    actors = [{'name': 'reader', 'ops': ops}]
    if rnd.random() < 0.3:
        actors += _closers(rnd, 1, 1)
    sc = {'kind': rnd.choice(['client', 'client', 'fd']), 'onconnect': False, 'ondisconnect': False, 'onrequest': False,
          'onprepare': True, 'nclosecb': 1, 'handler': [], 'actors': actors, 'peer': peer, 'eagertimers': rnd.random() < 0.5}
    if rnd.random() < 0.2 and any(p[0] == 'close' for p in peer):
        # an application whose OnDisconnect joins its reader goroutines: a blocked reader must have been woken by then
        sc.update({'kind': 'server', 'ondisconnect': True, 'discbody': 'waitreaders', 'eagertimers': False})
    return sc


def gen_flush(rnd, i):
    if rnd.random() < 0.15:
        # timeout-then-flush shape: a timed flush far above the socket buffer, a peer that drains it eventually, then another large flush
        ops = [['WriteT', rnd.choice([200000, 300000])], [rnd.choice(['Write', 'WriteT']), rnd.choice([200000, 300000])]]
        if rnd.random() < 0.4:
            # the second flush starts only when the poller has sent what the timed-out one left behind (its completion signal is stale)
            ops.insert(1, ['WaitOut'])
        peer = [['drain', rnd.choice([65536, 200000, 400000])] for _ in range(rnd.choice([8, 30, 60, 120]))]
        return {'kind': rnd.choice(['client', 'fd']), 'onconnect': False, 'ondisconnect': False, 'onrequest': False, 'onprepare': True,
                'nclosecb': 1, 'handler': [], 'actors': [{'name': 'flusher', 'ops': ops}], 'peer': peer, 'sndbuf': 4096, 'focus': True}
    big = rnd.random() < 0.8
    ops = []
    for _ in range(rnd.randint(1, 3)):
        if rnd.random() < 0.12:
            ops.append(['WriteV', rnd.choice([3, 31, 32, 33, 40, 70]), rnd.choice([4097, 5000])])
        elif rnd.random() < 0.15:
            ops.append(['AppendV', rnd.choice([2, 31, 32, 33, 48, 70]), rnd.choice([10, 100])])
        else:
            ops.append([rnd.choice(['Write', 'WriteT', 'WriteT']), rnd.choice([200000, 400000, 300000]) if big and rnd.random() < 0.7 else rnd.choice([1, 100, 5000])])
    peer = []
    # the socket pair holds ~8 KiB: a 200-400 KB payload needs 25-50 peer reads to complete; sometimes the peer gives up early
    for _ in range(rnd.choice([0, 3, 8, 30, 60, 120, 120])):
        peer.append(['drain', rnd.choice([65536, 200000, 400000, 1000000])])
    if rnd.random() < 0.3:
        peer.insert(rnd.randint(0, len(peer)), ['close'])
        peer = peer[:peer.index(['close']) + 1]
    actors = [{'name': 'flusher', 'ops': ops}]
    if rnd.random() < 0.25 and not any(o[0] in ('WriteV', 'AppendV') for o in ops):  # one writer at a time is the contract
        actors.append({'name': 'flusher2', 'ops': [['Write', rnd.choice([1, 300000])]]})
    # A concurrent Close is only combined with Write (which holds the flushing lock that Close waits for): the
    # unlocked Writer methods (Malloc/WriteBinary/Append) racing closeBuffer() are outside C08 (see DESIGN, leads)
    if rnd.random() < 0.25 and not any(o[0] in ('WriteV', 'AppendV') for o in ops):
        actors += _closers(rnd, 1, 1)
    sc = {'kind': rnd.choice(['client', 'fd']), 'onconnect': False, 'ondisconnect': False, 'onrequest': False, 'onprepare': True,
          'nclosecb': 1, 'handler': [], 'actors': actors, 'peer': peer, 'sndbuf': 4096}
    if rnd.random() < 0.15 and any(p[0] == 'close' for p in peer):
        # an application whose OnDisconnect joins its writer goroutines: the blocked flusher must be woken before the callback returns
        sc.update({'kind': 'server', 'ondisconnect': True, 'discbody': 'waitwriters'})
    return sc


def gen_cb(rnd, i):
    peer = [['send', rnd.randint(1, 2)] for _ in range(rnd.randint(0, 2))]
    if rnd.random() < 0.8:
        peer.insert(rnd.randint(0, len(peer)), ['close'])
        peer = peer[:peer.index(['close']) + 1]
    hs = [{'consume': -1, 'then': rnd.choice(['return', 'return', 'close', 'yield'])}]
    return {'kind': rnd.choice(['server', 'server', 'client']), 'onconnect': rnd.random() < 0.8, 'ondisconnect': rnd.random() < 0.9,
            'onrequest': rnd.random() < 0.7, 'onprepare': True, 'nclosecb': rnd.randint(1, 2),
            'connbody': rnd.choice(['return', 'yield', 'yield', 'readclose', 'close']),
            'prepbody': 'close' if rnd.random() < 0.05 else 'return',
            'handler': hs, 'actors': _closers(rnd, 0, 1) if rnd.random() < 0.2 else [], 'peer': peer}


def gen_stream(rnd, i):
    if rnd.random() < 0.12:
        # spurious readiness: a backlog above one booking (4096) is buffered while the reader is slow, then a thief empties the socket
        # between the poller's fetch and its read (the readv finds nothing: InputAck(0)), then more data arrives and everything is read
        # (bookSize stays 8192 while maxSize follows the backlog: two nodes of 8192 fill up, the third is larger than one booking)
        k = rnd.randint(17, 20)
        peer = [['sendsync', 1000] for _ in range(k)] + [['send', rnd.randint(1, 20)], ['send', rnd.randint(1, 40)], ['send', rnd.randint(1, 40)], ['close']]
        return {'kind': 'client', 'onconnect': False, 'ondisconnect': False, 'onrequest': False, 'onprepare': True, 'nclosecb': 1, 'handler': [],
                'actors': [{'name': 'reader', 'ops': [['Next', 1000 * k - rnd.choice([0, 500])], ['Yield'], ['Next', -1], ['Yield'], ['Next', -1], ['Yield'], ['Next', -1], ['Yield'], ['Next', -1]]}],
                'peer': peer, 'steals': rnd.randint(1, 2), 'focus': True}
    # C04 under the controlled scheduler: a reader goroutine mixing Next and Until against any chunking,
    # or a handler consuming piecemeal, with the peer closing after its last byte
    total = rnd.randint(3, 30)
    peer, left = [], total
    while left > 0:
        k = rnd.randint(1, min(left, rnd.choice([1, 2, 3, 9])))
        peer.append(['send', k])
        left -= k
    peer.append(['close'])
    if rnd.random() < 0.5:
        ops, pos = [], 0
        while pos < total:
            if rnd.random() < 0.5:
                ops.append(['Until'])
                pos += 7 - pos % 7
            else:
                n = rnd.randint(1, 4)
                ops.append(['Next', n])
                pos += n
        return {'kind': 'client', 'onconnect': False, 'ondisconnect': False, 'onrequest': False, 'onprepare': True, 'nclosecb': 1,
                'handler': [], 'actors': [{'name': 'reader', 'ops': ops}], 'peer': peer}
    hs = [{'consume': rnd.choice([-1, 1, 2, 3]), 'then': rnd.choice(['return', 'yield'])} for _ in range(rnd.randint(1, 4))]
    return {'kind': 'server', 'onconnect': rnd.random() < 0.2, 'ondisconnect': False, 'onrequest': True, 'onprepare': True, 'nclosecb': 1,
            'connbody': 'return', 'handler': hs, 'actors': [], 'peer': peer}


GENS = {'stream': gen_stream, 'close': gen_close, 'req': gen_req, 'read': gen_read, 'flush': gen_flush, 'cb': gen_cb}


def gen_scenarios(family, n, seed):
    rnd = random.Random(seed * 7919 + sum(ord(ch) * (k + 1) for k, ch in enumerate(family)) % 1000)   # (not hash(): it differs from process to process)
    out = []
    for i in range(n):
        sc = GENS[family](rnd, i)
        sc['id'] = '%s-%d-%d' % (family, seed, i)
        sc['seed'] = seed * 100003 + i
        sc['strategy'] = rnd.choice(['random', 'random', 'pct'])
        sc['plan'] = []
        out.append(sc)
    return out


# ------------------------------------------------------------------ execution + validation
def run_scenarios(sc, binary, scs, tag, procs=8, test='TestVerifConnScenarios', chunk=1500):
    """Run the scenarios in harness processes: at most `procs` at a time, at most `chunk` scenarios per process (so that a process never
    runs into the test binary's own time limit however large the tier is). A process that dies in the middle of a scenario is reported
    with that scenario (`crashed`); one that merely ran out of time is an infrastructure failure, not a verdict."""
    from concurrent.futures import ThreadPoolExecutor
    res, crashed, slow = {}, [], []
    if not scs:
        return res, crashed
    size = min(chunk, (len(scs) + procs - 1) // procs)
    parts = [scs[i:i + size] for i in range(0, len(scs), size)]

    def one(args):
        c, part = args
        inp, outp = sc.path('cin_%s_%d.json' % (tag, c)), sc.path('cout_%s_%d.ndjson' % (tag, c))
        json.dump({'scenarios': part}, open(inp, 'w'))
        env = dict(vlib.GOENV, VERIF_IN=inp, VERIF_OUT=outp)
        p = subprocess.Popen([binary, '-test.run', '^%s$' % test, '-test.count=1', '-test.timeout', '1500s'],
                             cwd=sc.path('repo'), env=env, stdout=subprocess.PIPE, stderr=subprocess.STDOUT, text=True)
        try:
            o, _ = p.communicate(timeout=1600)
        except subprocess.TimeoutExpired:
            p.kill()
            o = 'test timed out (killed by the driver)'
        got = [json.loads(l) for l in open(outp)] if os.path.exists(outp) else []
        os.remove(inp)
        if os.path.exists(outp):
            os.remove(outp)
        return part, got, o

    with ThreadPoolExecutor(max_workers=procs) as ex:
        for part, got, o in ex.map(one, list(enumerate(parts))):
            for r in got:
                res[r['scenario']] = r
            if len(got) != len(part):
                done = {r['scenario'] for r in got}
                missing = [s for s in part if s['id'] not in done]
                if 'test timed out' in o:
                    slow.append(missing[0]['id'])
                else:
                    crashed.append((missing[0], o[-3000:]))
    if slow:
        raise vlib.Inconclusive('harness process ran out of time (%d processes, first unfinished scenario %s)' % (len(slow), slow[0]))
    return res, crashed


def validate(sc, results, order, tag, module='TraceConn', deps=('ConnObs.tla',), key='scenario', stop='Quiescent'):
    """Concatenate the event traces and let TLC judge them. Returns (violations, lines, stats)."""
    wd = sc.path('tv_' + tag)
    os.makedirs(wd, exist_ok=True)
    for f in tuple(deps) + (module + '.tla', module + '.cfg'):
        shutil.copy(os.path.join(vlib.SPEC, f), wd)
    index = []  # (trace id, scenario id, first line)
    n = 0
    with open(os.path.join(wd, 'trace.ndjson'), 'w') as f:
        for t, sid in enumerate(order, 1):
            r = results.get(sid)
            if not r:
                continue
            index.append((t, sid, n + 1))
            for e in r['events']:
                e = dict(e)
                e['t'] = t
                f.write(json.dumps(e) + '\n')
                n += 1
                if e['e'] == stop:
                    break
    if n == 0:
        return [], 0, {}
    p = vlib.run(['java', '-XX:+UseParallelGC', '-Xss64m', '-cp', vlib.TLA_CP, 'tlc2.TLC', '-workers', '1',
                  '-metadir', os.path.join(wd, 'md'), '-config', module + '.cfg', module + '.tla'], cwd=wd, timeout=1800, check=False)
    out = p.stdout
    m = re.search(r'<<\s*"TRACE-RESULT",(.*?)>>\s*\n(?=Model checking|Finished|The|$)', out, re.S)
    if not m or 'Model checking completed. No error has been found' not in out:
        raise vlib.Inconclusive('trace validation did not complete:\n' + '\n'.join(l for l in out.splitlines() if l.startswith('Error') or 'TLC threw' in l or 'Attempted' in l or 'overflow' in l)[:1500] + '\n' + out[-1200:])
    val = tlaval.parse('<<"TRACE-RESULT",' + m.group(1) + '>>')
    consumed, total, viol = val[1], val[2], val[3]
    if consumed != total or total != n:
        raise vlib.Inconclusive('trace validation consumed %s of %s lines (%d written)' % (consumed, total, n))
    byt = {t: sid for t, sid, _ in index}
    first = {t: fl for t, _, fl in index}
    vs = [{key: byt[v[0]], 'scenario': byt[v[0]], 'line': v[1] - first[v[0]], 'rule': v[2]} for v in viol]
    st = vlib.tlc_stats(out)
    return vs, n, {'states': st[1] if st else n, 'transitions': st[0] if st else n}


def stall_variants(scs, res, per_scenario=40, rnd=None, skip_actors=('poller', 'poller1', 'poller2')):
    """Single-stall exploration: for a scenario whose baseline run recorded the schedule points each actor passed, one variant per
    (actor, point, occurrence) in which that actor is held back there for as long as anything else can move - the systematic version of
    'insert one long delay at this line'."""
    import random as _r
    rnd = rnd or _r.Random(1)
    out = []
    for s in scs:
        r = res.get(s['id'])
        if not r or r['info'].get('stuck'):
            continue
        pts = []
        seen = set()
        for name, g in r['info'].get('gates', []):
            if g == 'env' or name in skip_actors:
                continue
            key = (name, g)
            if key not in seen:
                seen.add(key)
                pts.append(key)
        # a point passed many times (a poller loop, a retry loop) is represented by its first, its last and one random occurrence
        byk = {}
        for name, g in pts:
            pt, occ = g.split('#')
            byk.setdefault((name, pt), []).append(int(occ))
        pts = []
        for (name, pt), occs in byk.items():
            pick = {occs[0], occs[-1], rnd.choice(occs)}
            pts += [(name, '%s#%d' % (pt, o)) for o in sorted(pick)]
        # weighted sample without replacement: hand-off points (triggers, locks, CAS words, detach) before plain length loads
        W = {20: 6, 21: 6, 1: 5, 3: 4, 4: 4, 5: 5, 6: 3, 10: 3, 11: 4, 14: 5, 30: 3, 33: 4, 2: 2, 31: 1, 12: 2, 13: 2, 22: 3, 23: 3, 24: 3, 25: 3, 29: 3,
             40: 3, 41: 3, 42: 3, 60: 5, 61: 5, 62: 6, 63: 4, 65: 4, 66: 4}
        keyed = sorted(pts, key=lambda k: -(rnd.random() ** (1.0 / W.get(int(k[1].split('#')[0]), 1))))
        pts = keyed
        for name, g in pts[:per_scenario]:
            pt, occ = g.split('#')
            v = dict(s)
            v['id'] = '%s~%s@%s' % (s['id'], name, g)
            v['strategy'], v['plan'] = 'plan', list(r['info']['taken'][:0])
            v['strategy'] = s.get('strategy', 'random')
            v['stallname'], v['stallpt'], v['stallocc'] = name, int(pt), int(occ)
            out.append(v)
    return out


W_HANDOFF = {20: 6, 21: 6, 1: 5, 3: 4, 4: 4, 5: 5, 6: 3, 10: 3, 11: 4, 14: 5, 30: 3, 33: 4, 2: 2, 31: 1, 12: 2, 13: 2, 22: 3, 23: 3, 24: 3, 25: 3, 29: 3,
             40: 3, 41: 3, 42: 3, 60: 5, 61: 5, 62: 6, 63: 4, 65: 4, 66: 4, 7: 3}


def window_variants(scs, res, per_scenario=60, rnd=None, prefer=None):
    """Window exploration (two preemptions): one actor is held back at one of its schedule points until ANOTHER actor has arrived at
    one of its later schedule points, then let go - 'A pauses before this line until B is in the middle of that function'.
    Variants are sampled from the baseline run's record, hand-off points (locks, triggers, Store, sweep) preferred."""
    import random as _r
    rnd = rnd or _r.Random(1)
    out = []
    for s in scs:
        r = res.get(s['id'])
        if not r or r['info'].get('stuck'):
            continue
        gl = [(i, name, g) for i, (name, g) in enumerate(r['info'].get('gates', [])) if g != 'env']
        if len(gl) < 4:
            continue
        seen = set()
        tries = 0

        def add(an, ag, un, ug):
            key = (an, ag, un, ug)
            if key in seen:
                return
            seen.add(key)
            v = dict(s)
            v['id'] = '%s~%s@%s~until~%s@%s' % (s['id'], an, ag, un, ug)
            v['strategy'], v['plan'] = s.get('strategy', 'random'), []
            pt, occ = ag.split('#'); upt, uocc = ug.split('#')
            v['stallname'], v['stallpt'], v['stallocc'] = an, int(pt), int(occ)
            v['untilname'], v['untilpt'], v['untilocc'] = un, int(upt), int(uocc)
            out.append(v)
        if prefer:
            # every pair (A at one of these points, the named actor at any later point of its own): the hand-offs the family is about
            apts, uname = prefer
            for i, an, ag in gl:
                if int(ag.split('#')[0]) in apts and an != uname:
                    for j, n2, g2 in gl:
                        if j > i and n2 == uname and len(seen) < per_scenario * 3:
                            add(an, ag, n2, g2)
        while len(seen) < per_scenario and tries < per_scenario * 6:
            tries += 1
            i, an, ag = gl[rnd.randrange(len(gl))]
            if rnd.random() > W_HANDOFF.get(int(ag.split('#')[0]), 1) / 6.0:
                continue
            later = [(j, n2, g2) for j, n2, g2 in gl if j > i and n2 != an]
            if not later:
                continue
            j, un, ug = later[rnd.randrange(len(later))]
            if rnd.random() > (W_HANDOFF.get(int(ug.split('#')[0]), 1) + 2) / 8.0:
                continue
            add(an, ag, un, ug)
    return out


def known_match(findings, v, res):
    evs = res['events']
    ev = evs[v['line']] if 0 <= v['line'] < len(evs) else {}
    for f in findings:
        sig = f.get('signature', {})
        if sig.get('rule') and v['rule'] not in (sig['rule'] if isinstance(sig['rule'], list) else [sig['rule']]):
            continue
        if sig.get('ev_g_prefix') and not ev.get('g', '').startswith(sig['ev_g_prefix']):
            continue
        if sig.get('ev_k') and ev.get('k') != sig['ev_k']:
            continue
        npre = sig.get('closecb_not_by_prefix')
        if npre:
            starters = [e['g'] for e in evs[:v['line']] if e['e'] == 'CbStart' and e['k'].startswith('close')]
            if not starters or any(g.startswith(npre) for g in starters):
                continue
        pe = sig.get('prior_event')
        if pe and not any(all(e.get(k) == val for k, val in pe.items()) for e in evs[:v['line']]):
            continue
        if sig.get('err_regex') and not re.search(sig['err_regex'], ev.get('err', '')):
            continue
        pre = sig.get('closecb_by_prefix')
        if pre and not any(e['e'] == 'CbStart' and e['k'].startswith('close') and e['g'].startswith(pre) for e in evs[:v['line']]):
            continue
        return f
    return None


def main(pid, tier, replay_path=None):
    t0 = time.time()
    seed = vlib.seed()
    findings = vlib.load_findings(pid)
    fam = FAMILY_OF[pid]
    violations, known_hit, samples = [], {}, []
    try:
        with vlib.Scratch('conn') as sc:
            binary = vlib.build_harness(sc, '.', instrumented_pool=True)
            race_cov = {}
            if pid == 'C06' and (not replay_path or json.load(open(replay_path)).get('latereq_race')):
                # free-running: SetOnRequest against the poller's first delivery (a window without a schedule point)
                import subprocess
                outp = sc.path('latereq.json')
                env = dict(vlib.GOENV, VERIF_OUT=outp, VERIF_BUDGET_MS=str(4000 if tier == 'quick' else 60000))
                p_ = subprocess.run([binary, '-test.run', '^TestVerifLateSetOnRequestRace$', '-test.count=1', '-test.timeout', '300s'], cwd=sc.path('repo'), env=env,
                                    stdout=subprocess.PIPE, stderr=subprocess.STDOUT, text=True, timeout=400)
                if not os.path.exists(outp):
                    raise vlib.Inconclusive('SetOnRequest race run failed: ' + p_.stdout[-600:])
                lr = json.load(open(outp))
                if lr['detail'].startswith('harness:'):
                    raise vlib.Inconclusive('SetOnRequest race run: ' + lr['detail'])
                race_cov = {'late_setonrequest_race_rounds': lr['rounds'], 'late_setonrequest_race_stranded': lr['stranded']}
                if lr['stranded']:
                    violations.append(vlib.save_replay(pid, '%s_latereq' % tier, {'property': pid, 'rule': 'C06.input_stranded_without_handler', 'latereq_race': True, 'result': lr}))
                    vlib.log('violation C06.input_stranded_without_handler in the free-running SetOnRequest race: ' + lr['detail'])
                if replay_path:
                    vlib.finish(pid, violations, [])
            if replay_path:
                rp = json.load(open(replay_path))
                scs = [rp['scenario']]
            else:
                n_own = 1500 if tier == 'quick' else 30000
                n_other = 150 if tier == 'quick' else 2000
                scs = gen_scenarios(fam, n_own, seed)
                for other in GENS:
                    if other != fam:
                        scs += gen_scenarios(other, n_other, seed)
            res, crashed = run_scenarios(sc, binary, scs, 'a', procs=12)
            fp_cov, fp_scs = {}, []
            proto, pname = None, ''
            if pid == 'C08':
                import flushp as proto
                pname = 'flushproto'
            elif pid == 'C07':
                import readp as proto
                pname = 'readproto'
            elif pid in ('C05', 'C06', 'C09'):
                import connp as proto
                pname = 'connmodel'
            if proto and not replay_path:
                # the hand-off as an implementation-shaped model: exhaustive TLC, then its schedules on the real code
                fst, ftr = proto.exhaustive(sc, tier)
                fp_scs = proto.scenarios(sc, tier, seed)
                fres, fcr = run_scenarios(sc, binary, fp_scs, 'fp', procs=8)
                res.update(fres)
                crashed += fcr
                fp_cov = {pname + '_states': fst, pname + '_transitions': ftr, pname + '_schedules_replayed': len(fres),
                          pname + '_plans_that_drifted': sum(1 for s in fp_scs if fres.get(s['id'], {}).get('info', {}).get('drift', 0) > 0)}
            if not replay_path:
                # single-stall exploration over a sample of this property's own family
                own = [s for s in scs if s['id'].startswith(fam + '-')]
                nb = 60 if tier == 'quick' else 1200
                focus = [s for s in own if s.get('focus')][:nb // 2]      # shapes written for a known narrow window get half of the budget
                base = focus + [s for s in own if not s.get('focus')][:nb - len(focus)]
                extra = stall_variants(base, res, per_scenario=40 if tier == 'quick' else 80, rnd=random.Random(seed), skip_actors=())
                res2, crashed2 = run_scenarios(sc, binary, extra, 'b', procs=12)
                scs = scs + extra + fp_scs
                res.update(res2)
                crashed += crashed2
            order = [s['id'] for s in scs]
            vs, nlines, st = validate(sc, res, order, 'a')
            byid = {s['id']: s for s in scs}
            stuck = sum(1 for r in res.values() if r['info'].get('stuck'))
            other_crashes = 0
            for s0, o in crashed:
                # the test process died while running this scenario (fatal error / panic outside any recover): it belongs to the
                # property whose scenario family was running (a C08 run also executes a sample of the other families)
                owner = next((p_ for p_, f_ in FAMILY_OF.items() if s0['id'].split('~')[0].startswith(f_ + '-')), pid)
                if owner != pid:
                    other_crashes += 1
                    vlib.log('note: test process died in a scenario of another property\'s family (%s, %s); not judged here:\n%s' % (s0['id'], owner, o[-600:]))
                    continue
                kf = next((f for f in findings if f.get('signature', {}).get('crash_regex') and re.search(f['signature']['crash_regex'], o, re.S)), None)
                if kf:
                    known_hit.setdefault(kf['id'], kf)
                    continue
                p = vlib.save_replay(pid, '%s_crash%d' % (tier, len(violations)), {'property': pid, 'scenario': s0, 'output': o})
                violations.append(p)
                vlib.log('test process died in scenario %s:\n%s' % (s0['id'], o[-1500:]))
            mine = [v for v in vs if v['rule'].startswith(pid + '.')]
            seen = set()
            known_from = {}   # scenario -> first line explained by a known finding: what follows in that execution is its consequence
            for v in sorted(mine, key=lambda v: (v['scenario'], v['line'])):
                r = res[v['scenario']]
                if v['scenario'] in known_from and v['line'] >= known_from[v['scenario']]:
                    continue
                kf = known_match(findings, v, r)
                if not kf and pid == 'C08' and byid[v['scenario']].get('holdsetup') and r['info'].get('proj'):
                    # ask the model: does FlushProto.tla (the code as it is) follow this very schedule and reach the overlap of flush() and the
                    # poller's write path (finding F16) on it?
                    import flushp
                    c_, t_, excl = flushp.impl_check(sc, [(byid[v['scenario']], r)], 'k%d' % len(seen))
                    if c_ == t_ and not excl:
                        kf = next((f for f in findings if f['id'] == 'F16'), None)
                if not kf and pid == 'C09' and byid[v['scenario']].get('cnkind') and r['info'].get('proj') and v['rule'] in ('C09.ondisconnect_after_close_callbacks', 'C09.callback_after_close_callbacks'):
                    # ask the model: does Conn.tla (the code as it is) follow this very schedule and run OnDisconnect after the close callbacks on it (F11)?
                    import connp
                    c_, t_, rules = connp.impl_check(sc, [(byid[v['scenario']], r)], 'k%d' % len(seen))
                    if c_ == t_ and 'ondisconnect_after_close_callbacks' in rules:
                        kf = next((f for f in findings if f['id'] == 'F11'), None)
                if kf:
                    known_hit.setdefault(kf['id'], kf)
                    if kf.get('signature', {}).get('poisons_rest'):
                        known_from[v['scenario']] = v['line']
                    continue
                key = (v['scenario'], v['rule'])
                if key in seen:
                    continue
                seen.add(key)
                if len(violations) < 6:
                    s0 = dict(byid[v['scenario']])
                    s0['strategy'], s0['plan'] = 'plan', r['info']['taken']
                    p = vlib.save_replay(pid, '%s_%d' % (tier, len(violations)), {
                        'property': pid, 'rule': v['rule'], 'line': v['line'], 'scenario': s0, 'events': r['events']})
                    violations.append(p)
                    vlib.log('violation %s in %s at event %d' % (v['rule'], v['scenario'], v['line']))
                    for e in r['events'][max(0, v['line'] - 14):v['line'] + 1]:
                        vlib.log('     %-9s %-9s %-11s n=%s m=%s %s' % (e['g'], e['e'], e['k'], e['n'], e['m'], e['err']))
            ran = len(res)
            if ran and stuck * 2 > ran:
                raise vlib.Inconclusive('%d of %d scenarios did not run to a quiescent point' % (stuck, ran))
            for s in scs[:2]:
                r = res.get(s['id'])
                if r:
                    samples.append({'scenario': {k: s[k] for k in s if k not in ('plan',)}, 'schedule_taken': r['info']['taken'][:60],
                                    'events': ['%s:%s:%s' % (e['g'], e['e'], e['k']) for e in r['events'][:40]]})
            if fp_scs:
                c_, t_, _ = proto.impl_check(sc, [(s, res[s['id']]) for s in fp_scs if s['id'] in res and not res[s['id']]['info'].get('stuck')], 'all')
                fp_cov[pname + '_impl_spec_conformance'] = {'steps_followed': c_, 'steps_total': t_, 'all_followed': c_ == t_}
                if c_ != t_:
                    vlib.log('note: the implementation-shaped spec (%s) could not follow a recorded schedule (line %d of %d): the code no longer matches it' % (pname, c_ + 1, t_))
            steps = sum(r['info'].get('steps', 0) for r in res.values())
            cov = {'states': st.get('states', 1), 'transitions': st.get('transitions', 1),
                   'traces_validated_against_impl': ran, 'samples': samples,
                   'trace_events_validated': nlines, 'scheduler_steps': steps, 'scenarios_not_quiescent': stuck,
                   'distinct_schedules': len({tuple(r['info']['taken']) for r in res.values()}),
                   'violations_of_other_properties_seen': len([v for v in vs if not v['rule'].startswith(pid + '.')]),
                   'known_findings_matched': sorted(known_hit),
                   'spec_modules': vlib.spec_hashes(['ConnObs.tla', 'TraceConn.tla'] + ({'C08': ['FlushProto.tla', 'TraceFPImpl.tla'], 'C07': ['ReadProto.tla', 'TraceRPImpl.tla'], 'C05': ['Conn.tla', 'TraceConnImpl.tla'], 'C06': ['Conn.tla', 'TraceConnImpl.tla'], 'C09': ['Conn.tla', 'TraceConnImpl.tla']}.get(pid, []) if fp_scs else [])),
                   'explanation': 'real connection on a socketpair with a manual poller under the controlled scheduler (every locker/FDOperator/trigger/'
                                  'length primitive is a schedule point); each execution is a recorded event trace validated by TLC against ConnObs.tla; '
                                  'states/transitions are those of the trace-validation run (one state per event)'}
            cov.update(race_cov)
            if fp_cov:
                cov.update(fp_cov)
                cov['trace_validation_states'] = cov['states']
                cov['states'], cov['transitions'] = fp_cov[pname + '_states'], fp_cov[pname + '_transitions']   # the exhaustive model of this property
            vlib.write_evidence(pid, tier, 'model_checking', cov, time.time() - t0, len(violations),
                                ['TLC/SANY', 'Go toolchain', 'controlled scheduler and manual poller of the harness', 'kernel socketpair/epoll behaviour as observed',
                                 'handler scripts respect the documented contract (consume or close)'])
    except vlib.Inconclusive as e:
        vlib.log('INCONCLUSIVE: %s' % e)
        if violations:
            vlib.finish(pid, violations, [])
        vlib.finish(pid, [], [], inconclusive=str(e).splitlines()[0][:200])
    vlib.finish(pid, violations, ['%s %s' % (k, known_hit[k]['what']) for k in sorted(known_hit)])
