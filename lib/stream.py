"""C04: stream integrity. (a) 'stream' scenario family under the controlled scheduler (lib/conn.py), judged by ConnObs;
(b) free-running sessions on real TCP/unix sockets with the stock pollers, judged by StreamObs."""
import json, os, random, subprocess, sys, time
import vlib, conn


def gen_sessions(n, seed, big):
    rnd = random.Random(seed * 31337 + 5)
    out = []
    for i in range(n):
        total = rnd.choice([1, 100, 4096, 8192, 65536, 200000]) if not big else rnd.choice([65536, 1 << 20, 4 << 20])
        total += rnd.randint(0, 3000)
        sender = rnd.choice(['netpoll', 'netpoll', 'rawpeer'])
        out.append({'id': 'sess-%d-%d' % (seed, i), 'seed': seed * 1000 + i, 'transport': rnd.choice(['tcp', 'unix']), 'total': total,
                    'maxchunk': rnd.choice([16, 1500, 5000, 9000, 70000]), 'sender': sender,
                    'receiver': 'reader' if sender == 'rawpeer' else 'handler', 'slowread': rnd.random() < 0.3})
    return out


def run_sessions(sc, binary, sessions, procs=4, par=4):
    res = {}
    size = (len(sessions) + procs - 1) // procs if sessions else 1
    ps = []
    for c in range(procs):
        part = sessions[c * size:(c + 1) * size]
        if not part:
            continue
        inp, outp = sc.path('sin_%d.json' % c), sc.path('sout_%d.ndjson' % c)
        json.dump({'sessions': part, 'parallel': par}, open(inp, 'w'))
        env = dict(vlib.GOENV, VERIF_IN=inp, VERIF_OUT=outp)
        ps.append((subprocess.Popen([binary, '-test.run', '^TestVerifStreamFree$', '-test.count=1', '-test.timeout', '1500s'],
                                    cwd=sc.path('repo'), env=env, stdout=subprocess.PIPE, stderr=subprocess.STDOUT, text=True), outp, part))
    crashed = []
    for p, outp, part in ps:
        try:
            o, _ = p.communicate(timeout=1600)
        except subprocess.TimeoutExpired:
            p.kill()
            o = 'timeout'
        got = [json.loads(l) for l in open(outp)] if os.path.exists(outp) else []
        for r in got:
            res[r['session']] = {'events': r['events'], 'scenario': r['session']}
        if len(got) != len(part):
            crashed.append(o[-3000:])
    return res, crashed


def main(pid, tier, replay_path=None):
    t0 = time.time()
    seed = vlib.seed()
    violations, samples = [], []
    try:
        with vlib.Scratch('stream') as sc:
            binary = vlib.build_harness(sc, '.', instrumented_pool=True)
            if replay_path:
                rp = json.load(open(replay_path))
                scs = [rp['scenario']] if 'scenario' in rp and isinstance(rp['scenario'], dict) and 'peer' in rp['scenario'] else []
                sessions = [rp['session']] if 'session' in rp else []
            else:
                scs = conn.gen_scenarios('stream', 1500 if tier == 'quick' else 80000, seed)
                scs += conn.gen_scenarios('req', 200 if tier == 'quick' else 3000, seed)
                scs += conn.gen_scenarios('flush', 200 if tier == 'quick' else 3000, seed)
                sessions = gen_sessions(60 if tier == 'quick' else 4000, seed, False) + gen_sessions(4 if tier == 'quick' else 120, seed + 1, True)
            res, crashed = conn.run_scenarios(sc, binary, scs, 'a', procs=12) if scs else ({}, [])
            vs, nlines, st = conn.validate(sc, res, [s['id'] for s in scs], 'a') if scs else ([], 0, {})
            sres, scr = run_sessions(sc, binary, sessions) if sessions else ({}, [])
            if scr:
                raise vlib.Inconclusive('free-running stream process died:\n' + scr[0])
            svs, snl, sst = conn.validate(sc, sres, [s['id'] for s in sessions], 's', module='TraceStream', deps=('StreamObs.tla',), stop='__none__') if sessions else ([], 0, {})
            timeouts = [sid for sid, r in sres.items() if any(e['e'] in ('Timeout', 'SetupErr') for e in r['events'])]
            byid = {s['id']: s for s in scs}
            sbyid = {s['id']: s for s in sessions}
            for v in [v for v in vs if v['rule'].startswith('C04.')]:
                if len(violations) < 6:
                    r = res[v['scenario']]
                    s0 = dict(byid[v['scenario']]); s0['strategy'], s0['plan'] = 'plan', r['info']['taken']
                    violations.append(vlib.save_replay(pid, '%s_%d' % (tier, len(violations)), {'property': pid, 'rule': v['rule'], 'line': v['line'], 'scenario': s0, 'events': r['events']}))
                    vlib.log('violation %s in %s at event %d' % (v['rule'], v['scenario'], v['line']))
                    for e in r['events'][max(0, v['line'] - 12):v['line'] + 1]:
                        vlib.log('     %-9s %-9s %-11s n=%s m=%s %s' % (e['g'], e['e'], e['k'], e['n'], e['m'], e['err']))
            for v in [v for v in svs if v['rule'].startswith('C04.') and v['scenario'] not in timeouts]:
                if len(violations) < 6:
                    r = sres[v['scenario']]
                    violations.append(vlib.save_replay(pid, '%s_s%d' % (tier, len(violations)), {'property': pid, 'rule': v['rule'], 'line': v['line'], 'session': sbyid[v['scenario']], 'events': r['events'][-60:]}))
                    vlib.log('violation %s in session %s %s at event %d' % (v['rule'], v['scenario'], sbyid[v['scenario']], v['line']))
            if sessions and len(timeouts) * 4 > len(sessions):
                raise vlib.Inconclusive('%d of %d free-running sessions did not finish' % (len(timeouts), len(sessions)))
            for s in scs[:1]:
                r = res.get(s['id'])
                if r:
                    samples.append({'scenario': {k: s[k] for k in s if k != 'plan'}, 'events': ['%s:%s:%s:%s' % (e['g'], e['e'], e['k'], e['n']) for e in r['events'][:40]]})
            for s in sessions[:2]:
                r = sres.get(s['id'])
                if r:
                    samples.append({'session': s, 'events': ['%s:%s' % (e['e'], e['n']) for e in r['events'][:30]]})
            cov = {'states': st.get('states', 0) + sst.get('states', 0) or 1, 'transitions': st.get('transitions', 0) + sst.get('transitions', 0) or 1,
                   'traces_validated_against_impl': len(res) + len(sres), 'samples': samples,
                   'controlled_scenarios': len(res), 'free_running_sessions': len(sres), 'sessions_not_finished': len(timeouts),
                   'bytes_streamed_free_running': sum(sbyid[k]['total'] for k in sres),
                   'trace_events_validated': nlines + snl,
                   'spec_modules': vlib.spec_hashes(['ConnObs.tla', 'TraceConn.tla', 'StreamObs.tla', 'TraceStream.tla']),
                   'explanation': 'controlled: reader/handler against every chunking of a position-coded stream under the controlled scheduler (ConnObs rules C04.*); '
                                  'free-running: TCP/unix sessions with the stock pollers, random Writer/Reader API mixes, validated against StreamObs'}
            vlib.write_evidence(pid, tier, 'model_checking', cov, time.time() - t0, len(violations),
                                ['TLC/SANY', 'Go toolchain', 'position-coded payload check of the harness', 'kernel TCP/unix socket behaviour as observed'])
    except vlib.Inconclusive as e:
        vlib.log('INCONCLUSIVE: %s' % e)
        if violations:
            vlib.finish(pid, violations, [])
        vlib.finish(pid, [], [], inconclusive=str(e).splitlines()[0][:200])
    vlib.finish(pid, violations, [])
