"""C12 (and the stale-call part of C10): the after-close decision table AfterClose.tla, every cell executed on a real connection."""
import json, os, re, subprocess, sys, time, shutil
import vlib, tlaval, conn


def cells_from_tlc(sc):
    wd = sc.path('ac')
    os.makedirs(wd, exist_ok=True)
    shutil.copy(os.path.join(vlib.SPEC, 'AfterClose.tla'), wd)
    open(os.path.join(wd, 'AfterClose.cfg'), 'w').write('')
    p = vlib.run(['java', '-cp', vlib.TLA_CP, 'tlc2.TLC', '-metadir', os.path.join(wd, 'md'), '-config', 'AfterClose.cfg', 'AfterClose.tla'],
                 cwd=wd, timeout=300, check=False)
    m = re.search(r'<<\s*"CELLS",(.*?)>>\s*\n(?=Starting|Computing|Finished|Model|\Z)', p.stdout, re.S)
    if not m:
        raise vlib.Inconclusive('TLC did not print the cell set:\n' + p.stdout[-1500:])
    val = tlaval.parse('<<"CELLS",' + m.group(1) + '>>')
    return [{'method': c[0], 'mode': c[1], 'inbuf': c[2], 'need': c[3], 'rep': c[4], 'hist': c[5]} for c in val[1]]


def main(pid, tier, replay_path=None):
    t0 = time.time()
    violations, samples = [], []
    findings = vlib.load_findings(pid)
    known_hit = {}
    try:
        with vlib.Scratch('after') as sc:
            binary = vlib.build_harness(sc, '.', instrumented_pool=True)
            cells = cells_from_tlc(sc)
            if replay_path:
                cells = [json.load(open(replay_path))['cell']]
            rounds = 1 if tier == 'quick' else 8
            allc = []
            for rd in range(rounds):
                for i, c in enumerate(cells):
                    c2 = dict(c)
                    c2['t'] = rd * len(cells) + i + 1
                    allc.append(c2)
            procs = 12
            size = (len(allc) + procs - 1) // procs
            ps = []
            for k in range(procs):
                part = allc[k * size:(k + 1) * size]
                if not part:
                    continue
                inp, outp = sc.path('ain_%d.json' % k), sc.path('aout_%d.ndjson' % k)
                json.dump({'cells': part}, open(inp, 'w'))
                env = dict(vlib.GOENV, VERIF_IN=inp, VERIF_OUT=outp)
                ps.append((subprocess.Popen([binary, '-test.run', '^TestVerifAfterClose$', '-test.count=1', '-test.timeout', '1200s'],
                                            cwd=sc.path('repo'), env=env, stdout=subprocess.PIPE, stderr=subprocess.STDOUT, text=True), outp, part))
            done = []
            for p, outp, part in ps:
                try:
                    o, _ = p.communicate(timeout=1300)
                except subprocess.TimeoutExpired:
                    p.kill()
                    o = 'timeout'
                got = [json.loads(l) for l in open(outp)] if os.path.exists(outp) else []
                done += got
                if len({c['t'] for c in got}) != len(part):
                    # the process died inside a cell (a fatal error that recover cannot catch)
                    bad = dict(part[len({c['t'] for c in got})])
                    bad.update({'have': 0, 'n': 0, 'out': 'panic', 'bystander': 'none', 'cbruns': 0, 'detail': 'test process died: ' + o[-400:]})
                    done.append(bad)
            setup = [c for c in done if c['out'] == 'setup']
            run = [c for c in done if c['out'] != 'setup']
            if len(setup) * 10 > len(done):
                raise vlib.Inconclusive('%d of %d cells could not be set up: %s' % (len(setup), len(done), setup[0]['detail']))
            wd = sc.path('tv')
            os.makedirs(wd, exist_ok=True)
            for f in ('AfterClose.tla', 'TraceAfterClose.tla', 'TraceAfterClose.cfg'):
                shutil.copy(os.path.join(vlib.SPEC, f), wd)
            with open(os.path.join(wd, 'trace.ndjson'), 'w') as f:
                for c in run:
                    f.write(json.dumps(c) + '\n')
            p = vlib.run(['java', '-Xss64m', '-cp', vlib.TLA_CP, 'tlc2.TLC', '-workers', '1', '-metadir', os.path.join(wd, 'md'),
                          '-config', 'TraceAfterClose.cfg', 'TraceAfterClose.tla'], cwd=wd, timeout=900, check=False)
            m = re.search(r'<<\s*"TRACE-RESULT",(.*?)>>\s*\n(?=Model checking|Finished|The|$)', p.stdout, re.S)
            if not m or 'No error has been found' not in p.stdout:
                raise vlib.Inconclusive('trace validation failed:\n' + p.stdout[-2000:])
            val = tlaval.parse('<<"TRACE-RESULT",' + m.group(1) + '>>')
            if val[1] != len(run):
                raise vlib.Inconclusive('trace validation consumed %s of %d cells' % (val[1], len(run)))
            st = vlib.tlc_stats(p.stdout)
            seen = set()
            for t, line, rule in val[3]:
                if not rule.startswith(pid + '.'):
                    continue
                c = run[line - 1]
                kf = None
                for f in findings:
                    sig = f.get('signature', {})
                    if sig.get('rule') == rule and (not sig.get('method') or sig['method'] == c['method']) and (not sig.get('rep') or sig['rep'] == c['rep']):
                        kf = f
                if kf:
                    known_hit[kf['id']] = kf
                    continue
                key = (c['method'], c['mode'], c['inbuf'], c['need'], c['rep'], c['hist'], rule)
                if key in seen:
                    continue
                seen.add(key)
                vlib.log('violation %s: %s' % (rule, json.dumps(c)))
                if len(violations) < 8:
                    violations.append(vlib.save_replay(pid, '%s_%d' % (tier, len(violations)), {'property': pid, 'rule': rule, 'cell': {k: c[k] for k in ('method', 'mode', 'inbuf', 'need', 'rep', 'hist')}, 'result': c}))
            # Close/Writer/Reader calls racing a close (blocked flush, timed reads) under the controlled scheduler
            if not replay_path:
                seed = vlib.seed()
                scs = conn.gen_scenarios('flush', 500 if tier == 'quick' else 20000, seed) + conn.gen_scenarios('close', 300 if tier == 'quick' else 12000, seed) \
                    + conn.gen_scenarios('read', 300 if tier == 'quick' else 12000, seed)
                cres, ccr = conn.run_scenarios(sc, binary, scs, 'c', procs=12)
                # single-stall exploration of the scenarios in which somebody closes while a call may be blocked
                import random as _rnd
                withclose = [s for s in scs if any(a['name'].startswith('closer') for a in s['actors']) or any(p[0] in ('close', 'rst') for p in s['peer'])]
                extra = conn.stall_variants(withclose[:40 if tier == 'quick' else 600], cres, per_scenario=30, rnd=_rnd.Random(seed), skip_actors=())
                cres2, ccr2 = conn.run_scenarios(sc, binary, extra, 'cs', procs=12)
                scs = scs + extra
                cres.update(cres2)
                ccr += ccr2
                cvs, cn, cst = conn.validate(sc, cres, [s['id'] for s in scs], 'c')
                cby = {s['id']: s for s in scs}
                for v in cvs:
                    if v['rule'].startswith(pid + '.') and len(violations) < 8:
                        r = cres[v['scenario']]
                        s0 = dict(cby[v['scenario']]); s0['strategy'], s0['plan'] = 'plan', r['info']['taken']
                        violations.append(vlib.save_replay(pid, '%s_c%d' % (tier, len(violations)), {'property': pid, 'rule': v['rule'], 'line': v['line'], 'scenario': s0, 'events': r['events']}))
                        vlib.log('violation %s in %s' % (v['rule'], v['scenario']))
                conn_runs = len(cres)
            else:
                conn_runs = 0
            outs = {}
            for c in run:
                outs[c['out'].split(':')[0]] = outs.get(c['out'].split(':')[0], 0) + 1
            cov = {'evaluations': len(run), 'distinct_nontrivial': len({(c['method'], c['mode'], c['inbuf'], c['need'], c['rep'], c['hist']) for c in run}),
                   'rule': 'every cell of AfterClose!Cells (method x close mode x buffered input x need x repetition), enumerated by TLC from the spec, executed on a real '
                           'connection; all cells are non-trivial (each calls the API on a connection whose close has completed); distinct = distinct cells',
                   'samples': run[:3], 'exhaustive': True, 'cells_in_spec': len(cells), 'controlled_scenarios_with_racing_close': conn_runs, 'cells_not_set_up': len(setup), 'outcomes': outs,
                   'states': (st[1] if st else len(run)), 'transitions': (st[0] if st else len(run)), 'traces_validated_against_impl': len(run),
                   'known_findings_matched': sorted(known_hit), 'spec_modules': vlib.spec_hashes(['AfterClose.tla', 'TraceAfterClose.tla'])}
            vlib.write_evidence(pid, tier, 'fault_enumeration', cov, time.time() - t0, len(violations),
                                ['TLC/SANY', 'Go toolchain', 'manual poller of the harness', '2 s watchdog stands for "never blocks"'])
    except vlib.Inconclusive as e:
        vlib.log('INCONCLUSIVE: %s' % e)
        if violations:
            vlib.finish(pid, violations, [])
        vlib.finish(pid, [], [], inconclusive=str(e).splitlines()[0][:200])
    vlib.finish(pid, violations, ['%s %s' % (k, known_hit[k]['what']) for k in sorted(known_hit)])
