"""C16: Adapters.tla behaviours (TLC -simulate) replayed against the stream adapters with scripted io doubles."""
import glob, json, os, shutil, subprocess, time
from concurrent.futures import ProcessPoolExecutor
import vlib, tlaval


def _parse(path):
    states, _ = tlaval.parse_sim_file(path, only={'last'})
    steps = []
    for st in states:
        l = st['last']
        if l['op'] == 'init':
            continue
        steps.append({'op': l['op'], 'n': l['n'], 'start': l['start'], 'len': l['len'], 'err': l['err'], 'sstart': l['sstart'], 'slen': l['slen'],
                      'src': l['src'], 'snk': l['snk']})
    return steps


def gen(sc, total, seed, procs=8):
    wd = sc.path('adsim')
    os.makedirs(wd, exist_ok=True)
    shutil.copy(os.path.join(vlib.SPEC, 'Adapters.tla'), wd)
    shutil.copy(os.path.join(vlib.SPEC, 'SIM_Adapters.cfg'), wd)
    per = max(1, total // procs)
    ps = []
    for k in range(procs):
        out = os.path.join(wd, 'p%d' % k)
        os.makedirs(out, exist_ok=True)
        ps.append(subprocess.Popen(['java', '-XX:+UseParallelGC', '-Xmx1g', '-cp', vlib.TLA_CP, 'tlc2.TLC', '-workers', '1', '-metadir', os.path.join(out, 'md'),
                                    '-config', 'SIM_Adapters.cfg', '-simulate', 'file=%s/b,num=%d' % (out, per), '-depth', '60', '-seed', str(seed * 1000 + k), 'Adapters.tla'],
                                   cwd=wd, stdout=subprocess.PIPE, stderr=subprocess.STDOUT, text=True))
    for p in ps:
        o, _ = p.communicate(timeout=1200)
        if 'traces generated' not in o:
            raise vlib.Inconclusive('TLC simulate failed:\n' + o[-1500:])
    files = sorted(glob.glob(os.path.join(wd, 'p*', 'b_*')))
    with ProcessPoolExecutor(max_workers=12) as ex:
        parsed = list(ex.map(_parse, files, chunksize=8))
    return [{'id': 'ad-s%d-%s' % (seed, '_'.join(f.split('/')[-2:])), 'steps': st} for f, st in zip(files, parsed)]


def main(pid, tier, replay_path=None):
    t0 = time.time()
    seed = vlib.seed()
    violations, samples = [], []
    try:
        with vlib.Scratch('adapt') as sc:
            binary = vlib.build_harness(sc, '.', instrumented_pool=True)
            out, wd, rc = vlib.tlc(sc, 'Adapters', 'MC_Adapters.cfg', workers=8, timeout=900, tag='mc')
            if not vlib.tlc_ok(out):
                raise vlib.Inconclusive('exhaustive check of Adapters.tla failed:\n' + out[-1500:])
            st = vlib.tlc_stats(out)
            behs = [json.load(open(replay_path))['behaviour']] if replay_path else gen(sc, 2400 if tier == 'quick' else 250000, seed)
            res = {}
            procs, size = [], (len(behs) + 7) // 8
            for c in range(8):
                part = behs[c * size:(c + 1) * size]
                if not part:
                    continue
                inp, outp = sc.path('adin_%d.json' % c), sc.path('adout_%d.ndjson' % c)
                json.dump({'behaviours': part}, open(inp, 'w'))
                env = dict(vlib.GOENV, VERIF_IN=inp, VERIF_OUT=outp)
                procs.append((subprocess.Popen([binary, '-test.run', '^TestVerifAdapters$', '-test.count=1', '-test.timeout', '900s'], cwd=sc.path('repo'), env=env,
                                               stdout=subprocess.PIPE, stderr=subprocess.STDOUT, text=True), outp, part))
            for p, outp, part in procs:
                o, _ = p.communicate(timeout=1000)
                got = [json.loads(l) for l in open(outp)] if os.path.exists(outp) else []
                for r in got:
                    res[r['id']] = r
                if len(got) != len(part):
                    raise vlib.Inconclusive('adapter replay process died: ' + o[-800:])
            for b in behs:
                r = res[b['id']]
                if r['ok']:
                    continue
                vlib.log('violation in %s at step %d (%s): %s' % (b['id'], r['step'], r['op'], r['detail']))
                vlib.log('   ' + ' '.join('%s(%s)' % (s['op'], s['n']) for s in b['steps'][:r['step'] + 1]))
                if len(violations) < 5:
                    violations.append(vlib.save_replay(pid, '%s_%d' % (tier, len(violations)), {'property': pid, 'behaviour': b, 'failure': r}))
            for b in behs[:2]:
                samples.append({'id': b['id'], 'ops': ['%s(%s)%s' % (s['op'], s['n'], '' if s['err'] == 'nil' else '->' + s['err']) for s in b['steps'][:40]]})
            cov = {'states': st[1], 'transitions': st[0], 'traces_validated_against_impl': len(res), 'samples': samples,
                   'spec_steps_replayed': sum(len(b['steps']) for b in behs),
                   'source_errors_exercised': sum(1 for b in behs for s in b['steps'] if s['op'] == 'SrcPlan' and s['err'] != 'nil'),
                   'short_sink_writes_exercised': sum(1 for b in behs for s in b['steps'] if s['op'] == 'SnkPlan' and s['err'] != 'nil'),
                   'spec_modules': vlib.spec_hashes(['Adapters.tla']),
                   'explanation': 'states/transitions: exhaustive TLC check of Adapters.tla (small constants); traces: TLC -simulate behaviours (scripts of source/sink results '
                                  'and adapter calls) executed against NewReader/NewWriter/NewIOReader/NewIOWriter with scripted doubles, every result and every buffer handed to the sink compared'}
            vlib.write_evidence(pid, tier, 'model_checking', cov, time.time() - t0, len(violations), ['TLC/SANY', 'scripted io.Reader/io.Writer doubles of the harness'])
    except vlib.Inconclusive as e:
        vlib.log('INCONCLUSIVE: %s' % e)
        if violations:
            vlib.finish(pid, violations, [])
        vlib.finish(pid, [], [], inconclusive=str(e).splitlines()[0][:200])
    vlib.finish(pid, violations, [])
