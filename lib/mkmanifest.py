"""Regenerates /verif/MANIFEST.json from the table below (kept in one place so that it is always valid)."""
import json, os, subprocess
V = os.path.dirname(os.path.dirname(os.path.abspath(__file__)))
props = [json.loads(l) for l in open(os.path.join(V, 'properties.jsonl'))]
commits = subprocess.run(['git', '-C', '/repo', 'log', '--format=%h %s'], capture_output=True, text=True).stdout.splitlines()
hook_commits = [c.split()[0] for c in commits if c.split()[1].startswith('verif:')][::-1]

MC, FE, EX = 'model_checking', 'fault_enumeration', 'exploration'
T = {
 'C01': (MC, 'bytequeue-replay', "ByteQueue.tla (observable FIFO + ownership spec) is model-checked exhaustively on small constants; thousands of TLC -simulate behaviours of the same spec with real threshold sizes are executed step by step on the real LinkBuffer and every result, Len/MallocLen, readable content, live zero-copy result, caller buffer and pool Malloc/Free event is compared with what the spec prescribes.",
         "Trusted: TLC, harness comparison code, instrumented pool (never reuses, poisons on free), contract guards of ByteQueue.tla. Bounded by behaviour depth (45-60 ops) and the size menus.",
         "TLA+ spec (ByteQueue) + TLC simulate-generated behaviours replayed into the real code + TLC exhaustive check of the spec"),
 'C04': (MC, 'conn-sched', "Stream integrity: (a) reader/handler against every chunking of a position-coded stream under the controlled scheduler, judged by ConnObs.tla (C04.* rules: right bytes, end-of-stream only after all data, everything offered before close callbacks, line reads); (b) free-running TCP/unix sessions with the stock pollers and random Writer/Reader API mixes, judged by StreamObs.tla.",
         "Trusted: TLC, position-coded payload check, kernel socket behaviour as observed. Kernel short-write amounts are observed (tiny SO_SNDBUF), not enumerated.",
         "TLA+ observable specs (ConnObs, StreamObs) + TLC trace validation of controlled-scheduler and real-socket executions"),
 'C05': (MC, 'conn-sched', "Teardown exactly once: closers, detach, peer hang-up/reset, handler returning/closing/panicking run as actors against a real connection under a controlled scheduler whose schedule points sit on every locker/FDOperator/trigger primitive; each execution's API-level trace is validated by TLC against ConnObs.tla.",
         "Trusted: TLC, controlled scheduler/manual poller (harness), kernel socketpair/epoll behaviour. Schedules are seeded random + PCT over generated scenarios, not exhaustive.",
         "TLA+ observable spec (ConnObs) + TLC trace validation of real executions under a controlled scheduler"),
 'C06': (MC, 'conn-sched', "Serial handling and no stranded input: poller deliveries in any chunking vs handler return, late SetOnRequest, OnConnect in progress and peer close interleaved by the controlled scheduler; traces validated against ConnObs.tla (depth <= 1; unread input at quiescence implies a handler in progress; input offered before close callbacks).", "as C05", "as C05"),
 'C07': (MC, 'conn-sched', "Blocked reader: timed/untimed reads vs deliveries around the n-th byte, timer expiry (fired by the scheduler on the connection's real timer), peer and local close; traces validated against ConnObs.tla (legal return classes, no timeout without expiry or with the bytes buffered, no data consumed by a timeout, nobody blocked once a wake-up condition holds, no panic).", "as C05", "as C05"),
 'C08': (MC, 'conn-sched', "Flush completion: payloads far above a 4 KiB socket buffer, many-node buffers, partial sends observed from the kernel, peer draining, timer expiry, close, a second flusher; traces validated against ConnObs.tla (nil only when the kernel holds every submitted byte, legal error classes, no flusher blocked while the socket is writable).", "as C05", "as C05"),
 'C09': (MC, 'conn-sched', "Callback order of harness-supplied OnPrepare/OnConnect/OnRequest/OnDisconnect/close callbacks under all scheduler interleavings of accept, first data, OnConnect duration and peer close; traces validated against ConnObs.tla ordering rules and exactly-one OnDisconnect at quiescence.", "as C05", "as C05"),
 'C10': (MC, 'slot-sched', "Slot/descriptor reuse: two or three real connections on one manual poller under the controlled scheduler (fetch and dispatch are separate steps; close, stale calls, reopen at any point, free list drained); traces validated against SlotObs.tla (single owner, no reassignment while fetched events are pending, bystander sees exactly its bytes, is never torn down by another's event, stays usable). Stale calls after a completed close with guaranteed slot reuse are enumerated by the C12 table.",
         "as C05", "TLA+ observable spec (SlotObs) + TLC trace validation under a controlled scheduler"),
 'C11': (FE, 'poll-table', "The finite space of event flags x kernel-side descriptor state x pending output x injection way x transport is enumerated by TLC from PollerVectors.tla; every vector is executed through the real defaultPoll.handler (kernel-reported and synthesised events) with a recording FDOperator and the callback sequence is validated against PollerObs.tla. The reactor loop as a whole (Wait, Trigger, Close, eventfd, level-/edge-triggered readiness, event-array growth) is the implementation-shaped PollLoop.tla, model-checked exhaustively; counterexample schedules of modelled deviations, TLC-simulated, random, PCT and single-stall schedules run on the real Wait loop under the controlled scheduler (scaled array), stock-size batches around 128/256/512 with edge-triggered registrations and trigger storms run free; all are validated against PollLoopObs.tla and, for conformance, replayed in PollLoop.tla (TracePLImpl).",
         "Trusted: TLC, Linux epoll/socket behaviour, the recording operator. Only the epoll poller is built here (kqueue out of reach).", "TLA+ decision table (PollerObs) enumerated by TLC + trace validation of the real handler's callbacks; implementation-shaped PollLoop.tla (TLC exhaustive) with schedule replay, trace validation (PollLoopObs) and conformance on the real Wait loop"),
 'C12': (FE, 'after-close', "The decision table AfterClose.tla (method x close mode x buffered input x need x repetition/slot reuse x timer history) is enumerated by TLC; every cell is executed on a real connection whose close has completed (manual poller), under recover and a 2 s watchdog, and judged by TLC with Allowed(); Close racing blocked flushes/reads is covered by controlled-scheduler scenarios (C12.* rules of ConnObs).",
         "Trusted: TLC, manual poller, watchdog as 'never blocks'.", "TLA+ decision table (AfterClose) enumerated by TLC + trace validation; controlled scheduler for racing closes"),
 'C15': (MC, 'fd-table', "Concurrent lifecycles of listeners, event loops, dials (ok/refused/timed out/unix), NewFDConnection (incl. failed registration), Detach, pollers (incl. descriptor exhaustion) with a foreign descriptor-churn goroutine; every open/close audit event is validated by TLC against FdTable.tla, /proc/self/fd is compared before/after, foreign descriptors are verified by inode.",
         "Trusted: TLC, the audit points cover every close(2)/descriptor-creating call site of the linux build, /proc/self/fd.", "TLA+ monitor spec (FdTable) + TLC trace validation of audited real lifecycles"),
 'C16': (MC, 'adapters-replay', "Adapters.tla (scripted io.Reader/io.Writer behaviours x adapter calls) is model-checked exhaustively on small constants; TLC -simulate behaviours with real sizes are replayed against NewReader/NewWriter/NewIOReader/NewIOWriter with scripted doubles; every result and every buffer handed to the sink is compared.",
         "Trusted: TLC, scripted doubles.", "TLA+ spec (Adapters) + TLC simulate-generated behaviours replayed into the real code"),
 'C17': (MC, 'shardq-sched', "The implementation-shaped ShardQueue.tla (one action per atomic operation) is model-checked exhaustively; TLC counterexamples of the modelled deviations and of the as-is model plus TLC-simulated and random/PCT schedules are replayed on the real ShardQueue under a controlled scheduler (every atomic op a schedule point); each execution is validated against ShardQueueObs.tla and, step by step with the projected shared words, against ShardQueue.tla itself.",
         "Trusted: TLC, the mux controlled scheduler, the connection double. Exhaustive for 2 shards x 2 adders x <=2 adds + Close.", "impl-shaped TLA+ spec model-checked by TLC; TLC-generated schedules replayed on the code; trace validation against observable and impl-shaped specs"),
 'C13': (MC, 'server-sched', "The server under the controlled scheduler: a real TCP listener on one manual poller, accepted connections on another, clients connecting/sending/closing, handlers of any duration, a server-side sender outside any handler, Shutdown with a deadline - all as scheduler choices (random, PCT and single-stall exploration); traces validated by TLC against ServerObs.tla (nothing closed stays tracked, Shutdown nil only with nothing tracked and then the listener closed, deadline error only with something to wait for, busy connections left running).",
         "Trusted: TLC, controlled scheduler, loopback TCP as observed. The EMFILE back-off path is not exercised.", "TLA+ observable spec (ServerObs) + TLC trace validation under a controlled scheduler"),
 'C14': (MC, 'dial-sched', "Dials: controlled (one DialTCP against a listening / closed / never-accepting port, manual poller, the context's expiry as a scheduler choice, single-stall exploration) and free-running (concurrent DialConnection over tcp/tcp6/unix with timeouts around the connect latency, echo on success, self-connect retry in a private network namespace); traces validated by TLC against DialObs.tla (exactly one of connection/error, Timeout() on expiry, no descriptor or poller slot left behind, usable both ways).",
         "Trusted: TLC, controlled scheduler, loopback connect behaviour; /proc/self/fd and slot audit events for the census.", "TLA+ observable spec (DialObs) + TLC trace validation of controlled and free-running dials"),
 'C18': (MC, 'pm-sched', "The implementation-shaped PollManager.tla (status word, two-step Run, round-robin counter, phases) is model-checked exhaustively; TLC-simulated schedules, the counterexample of the modelled deviation, random/PCT schedules (controlled scheduler on a private manager with real pollers) and free-running racing first Picks (spin barrier, real threads) are executed; each execution is validated against PollManagerObs.tla (picked poller running, exactly the configured number of loops after each phase, round-robin evenness, no panic) and, step by step, against PollManager.tla.",
         "Trusted: TLC, controlled scheduler, loop start/exit trace points. Exhaustive for 3 pickers x 2 picks x sizes 2,1,3.", "impl-shaped TLA+ spec model-checked by TLC; TLC-generated schedules replayed on the code; trace validation against observable and impl-shaped specs"),
 'C19': (EX, 'race-explore', "A specification cannot decide this property (a data race is below the grain of any spec action); the specs contribute the space of in-contract concurrent programs: TLC enumerates RaceScenarios.tla (who closes / reads / flushes / installs handlers, callback configuration), and every scenario plus the free-running drivers of C04/C15/C17/C18 runs without controlled scheduler or hooks under Go's race detector; a report counts when both racing accesses are in netpoll's own non-test code outside nocopy_linkbuffer*.go.",
         "The race detector is the oracle: it only sees accesses that actually overlap in a run. Harness-side accesses are excluded by the attribution rule.", "TLC-enumerated scenario space executed under the Go race detector (exploration; the spec does not decide the property)"),
}
for k in ('C02', 'C03'):
    T[k] = T['C01']
T['C06'] = T['C06'][:3] + T['C05'][3:]
for k in ('C07', 'C08', 'C09'):
    T[k] = T[k][:3] + T['C05'][3:]
T['C10'] = T['C10'][:3] + (T['C05'][3],) + (T['C10'][4],)

checks = []
for pid in sorted(T):
    cat, eng, text, note, tech = T[pid]
    checks.append({'property_id': pid, 'quick_cmd': './bin/check %s quick' % pid, 'thorough_cmd': './bin/check %s thorough' % pid,
                   'evidence_file': '/verif/evidence/%s.json' % pid, 'replay_cmd_template': './bin/check %s replay {path}' % pid, 'engine': eng,
                   'level_claimed': {'category': cat, 'text': text, 'design_ref': 'DESIGN.md §4/%s' % pid}, 'level_note': note, 'technique': tech})
engines = [
 {'name': 'bytequeue-replay', 'path': 'lib/buf.py', 'serves_properties': ['C01', 'C02', 'C03'], 'kind_free_text': 'TLC -simulate behaviours of spec/ByteQueue.tla replayed in-package with an instrumented mcache'},
 {'name': 'conn-sched', 'path': 'lib/conn.py', 'serves_properties': ['C04', 'C05', 'C06', 'C07', 'C08', 'C09'], 'kind_free_text': 'controlled scheduler + manual poller; traces judged by spec/ConnObs.tla (and StreamObs for free-running sessions)'},
 {'name': 'slot-sched', 'path': 'lib/slot.py', 'serves_properties': ['C10'], 'kind_free_text': 'multi-connection scenarios under the controlled scheduler judged by spec/SlotObs.tla'},
 {'name': 'poll-table', 'path': 'lib/polltab.py', 'serves_properties': ['C11'], 'kind_free_text': 'TLC-enumerated vectors through the real poller handler; PollLoop.tla schedules and free runs on the real Wait loop (lib/ploop.py)'},
 {'name': 'after-close', 'path': 'lib/after.py', 'serves_properties': ['C12'], 'kind_free_text': 'TLC-enumerated after-close table on real connections'},
 {'name': 'fd-table', 'path': 'lib/fdt.py', 'serves_properties': ['C15'], 'kind_free_text': 'descriptor audit traces vs spec/FdTable.tla'},
 {'name': 'adapters-replay', 'path': 'lib/adapt.py', 'serves_properties': ['C16'], 'kind_free_text': 'TLC -simulate behaviours of spec/Adapters.tla replayed with scripted io doubles'},
 {'name': 'server-sched', 'path': 'lib/server.py', 'serves_properties': ['C13'], 'kind_free_text': 'server scenarios under the controlled scheduler judged by spec/ServerObs.tla'},
 {'name': 'dial-sched', 'path': 'lib/dial.py', 'serves_properties': ['C14'], 'kind_free_text': 'dial scenarios (controlled + free-running) judged by spec/DialObs.tla'},
 {'name': 'race-explore', 'path': 'lib/race.py', 'serves_properties': ['C19'], 'kind_free_text': 'RaceScenarios.tla enumerated by TLC; free-running scenarios in a -race build'},
 {'name': 'pm-sched', 'path': 'lib/pm.py', 'serves_properties': ['C18'], 'kind_free_text': 'spec/PollManager.tla model-checked; schedules replayed on a private manager under the controlled scheduler; free-running racing Picks'},
 {'name': 'shardq-sched', 'path': 'lib/shardq.py', 'serves_properties': ['C17'], 'kind_free_text': 'spec/ShardQueue.tla model-checked; schedules replayed under the mux controlled scheduler'},
]
extra = os.path.join(V, 'lib', 'manifest_extra.json')
if os.path.exists(extra):
    ex = json.load(open(extra))
    checks += ex.get('checks', [])
    engines += ex.get('engines', [])
    checks.sort(key=lambda c: c['property_id'])
claimed = {c['property_id'] for c in checks}
na_reasons = json.load(open(os.path.join(V, 'lib', 'not_applicable.json'))) if os.path.exists(os.path.join(V, 'lib', 'not_applicable.json')) else {}
na = [{'property_id': p['id'], 'reason': na_reasons.get(p['id'], 'check not built yet (work in progress; see DESIGN.md §8.1 build order)')} for p in props if p['id'] not in claimed]
m = {'version': 1, 'setup_cmd': 'cd /verif && ./bin/setup',
     'hooks': {'guard': 'verif', 'enable': 'go test -tags verif (in a scratch copy of /repo with /verif/harness files added)',
               'baseline_off_cmd': 'cd /repo && GOFLAGS=-mod=mod go test -json -vet=off -count=1 -timeout 25m ./...', 'source_commits': hook_commits, 'add_only': True},
     'engines': engines, 'checks': checks,
     'notes': 'All checks are driven by bin/check <property> <quick|thorough|replay>; a VIOLATION is only ever printed for a recorded execution of the real code that a TLA+ specification rejects. Exit 2 = inconclusive (infrastructure), never a violation. Known findings: known_findings.jsonl.',
     'not_applicable': na}
json.dump(m, open(os.path.join(V, 'MANIFEST.json'), 'w'), indent=1)
print('claimed', sorted(claimed), 'hooks', hook_commits)
