"""C14: dials, controlled (manual poller, context expiry as a scheduler choice) and free-running (concurrent dials, census), judged by DialObs.tla."""
import json, os, random, time
import vlib, conn, dialp


def gen(n, nfree, seed):
    rnd = random.Random(seed * 48271 + 5)
    out = []
    for i in range(n):
        out.append({'id': 'dial-%d-%d' % (seed, i), 'seed': seed * 1009 + i, 'strategy': rnd.choice(['random', 'random', 'pct']), 'plan': [],
                    'peer': rnd.choice(['listen', 'listen', 'refuse', 'drop', 'rst', 'rst']), 'expire': rnd.random() < 0.7, 'free': False})
        if rnd.random() < 0.3:
            # a host name with two addresses (in-process resolver), dialled one after the other
            ks = [rnd.choice(['refuse', 'refuse', 'rst', 'drop', 'listen']), rnd.choice(['listen', 'refuse', 'drop', 'rst'])]
            out[-1].update(addrs=ks, peer='+'.join(ks))
    for i in range(nfree):
        peer = rnd.choice(['listen', 'listen', 'listen', 'refuse', 'drop', 'rst', 'multi'])
        out.append({'id': 'dialfree-%d-%d' % (seed, i), 'seed': seed * 1009 + i, 'free': True, 'peer': peer, 'dials': rnd.choice([1, 8, 64]),
                    'timeoutus': rnd.choice([1, 20, 50, 100, 200, 500, 2000, 200000]) if peer != 'drop' else rnd.choice([1, 100, 2000, 20000]),
                    'network': rnd.choice(['tcp', 'tcp', 'unix', 'tcp6']) if peer == 'listen' else 'tcp', 'strategy': 'free', 'plan': []})
        if peer == 'multi':
            out[-1].update(second=rnd.choice(['drop', 'drop', 'listen']), dials=1, timeoutus=rnd.choice([20000, 100000, 300000]))
        if peer == 'drop' and rnd.random() < 0.5:
            out[-1]['dials'] = 1
        if peer == 'drop' and rnd.random() < 0.5:
            # a child process (fork+exec) while the dials are in flight: it must not inherit their sockets
            out[-1].update(execchild=True, timeoutus=rnd.choice([60000, 150000]))
    return out


def selfconnect_runs(sc, binary, seed, n):
    """dials to a port of the (one-port) ephemeral range with no listener, in a private network namespace: the kernel connects the
    socket to itself, netpoll closes it and dials again.  -> (results by id, scenarios that ran)"""
    import subprocess
    selfs = [{'id': 'dialself-%d-%d' % (seed, i), 'seed': seed * 7 + i, 'free': True, 'peer': 'selfconnect', 'dials': 1, 'timeoutus': 50000,
              'network': 'tcp', 'strategy': 'free', 'plan': []} for i in range(n)]
    inp, outp = sc.path('self_in.json'), sc.path('self_out.ndjson')
    json.dump({'scenarios': selfs}, open(inp, 'w'))
    cmd = 'ip link set lo up; VERIF_IN=%s VERIF_OUT=%s exec %s -test.run "^TestVerifDialScenarios$" -test.count=1 -test.timeout 300s' % (inp, outp, binary)
    try:
        subprocess.run(['unshare', '-n', 'sh', '-c', cmd], cwd=sc.path('repo'), env=vlib.GOENV, stdout=subprocess.PIPE, stderr=subprocess.STDOUT, text=True, timeout=400)
    except Exception:
        return {}, []
    res, ran = {}, []
    if os.path.exists(outp):
        for l in open(outp):
            r = json.loads(l)
            if not any(e['e'] == 'SetupErr' for e in r['events']):
                res[r['scenario']] = r
                ran.append(next(s for s in selfs if s['id'] == r['scenario']))
    return res, ran


def main(pid, tier, replay_path=None):
    t0 = time.time()
    seed = vlib.seed()
    findings = vlib.load_findings(pid)
    violations, samples, known_hit = [], [], {}
    try:
        with vlib.Scratch('dial') as sc:
            binary = vlib.build_harness(sc, '.', instrumented_pool=True)
            scs = [json.load(open(replay_path))['scenario']] if replay_path else gen(600 if tier == 'quick' else 60000, 60 if tier == 'quick' else 5000, seed)
            ctl = [s for s in scs if not s['free']]
            free = [s for s in scs if s['free']]
            # design level: Dial.tla (exhaustive), and its behaviours as schedules for the real dial
            dstates, dtrans = dialp.exhaustive(sc, tier)
            msc = [] if replay_path else dialp.scenarios(sc, tier, seed)
            ctl += msc
            res, crashed = conn.run_scenarios(sc, binary, ctl, 'd', procs=12, test='TestVerifDialScenarios')
            if not replay_path:
                extra = conn.stall_variants(ctl[:40 if tier == 'quick' else 2500], res, per_scenario=40, rnd=random.Random(seed), skip_actors=())
                res2, cr2 = conn.run_scenarios(sc, binary, extra, 'e', procs=12, test='TestVerifDialScenarios')
                ctl += extra
                res.update(res2)
                crashed += cr2
            resf, crf = conn.run_scenarios(sc, binary, free, 'f', procs=3, test='TestVerifDialScenarios')
            # self-connect retry: needs a private network namespace (narrowed ephemeral port range); skipped where unshare is not permitted
            if not replay_path:
                rself, sself = selfconnect_runs(sc, binary, seed, 3 if tier == 'quick' else 40)
                resf.update(rself)
                free += sself
            res.update(resf)
            crashed += crf
            scs = ctl + free
            for s0, o in crashed:
                violations.append(vlib.save_replay(pid, '%s_crash%d' % (tier, len(violations)), {'property': pid, 'scenario': s0, 'output': o}))
                vlib.log('test process died in %s:\n%s' % (s0['id'], o[-1000:]))
            vs, nlines, st = conn.validate(sc, res, [s['id'] for s in scs], 'd', module='TraceDial', deps=('DialObs.tla',))
            byid = {s['id']: s for s in scs}
            # conformance with the implementation-shaped spec: every controlled execution, step by step
            idone, itotal, ibad = dialp.impl_check(sc, [(s, res[s['id']]) for s in ctl[:25000] if s['id'] in res and not res[s['id']]['info'].get('stuck')], 'all')
            if idone != itotal:
                vlib.log('note: Dial.tla could not follow a recorded schedule (step %d of %d, scenario %s): the code no longer matches it\n   %s' % (idone + 1, itotal, ibad[0], '\n   '.join(ibad[2])))
            seen = set()
            for v in vs:
                if not v['rule'].startswith(pid + '.') or (v['scenario'], v['rule']) in seen:
                    continue
                seen.add((v['scenario'], v['rule']))
                r, s0 = res[v['scenario']], byid[v['scenario']]
                kf = next((f for f in findings if f.get('signature', {}).get('rule') == v['rule']), None)
                if kf:
                    known_hit[kf['id']] = kf
                    continue
                vlib.log('violation %s in %s %s' % (v['rule'], v['scenario'], {k: s0[k] for k in s0 if k not in ('plan', 'id')}))
                for e in r['events'][max(0, v['line'] - 14):v['line'] + 1]:
                    vlib.log('     %-9s %-11s %-7s n=%s m=%s %s' % (e.get('g', ''), e['e'], e['k'], e['n'], e['m'], e['err']))
                if len(violations) < 6:
                    s1 = dict(s0)
                    if not s0['free']:
                        s1['strategy'], s1['plan'] = 'plan', r['info']['taken']
                    violations.append(vlib.save_replay(pid, '%s_%d' % (tier, len(violations)), {'property': pid, 'rule': v['rule'], 'scenario': s1, 'events': r['events'][:200]}))
            for s in (ctl[:1] + free[:1]):
                r = res.get(s['id'])
                if r:
                    samples.append({'scenario': {k: s[k] for k in s if k != 'plan'}, 'events': ['%s:%s:%s:%s' % (e['e'], e['k'], e['n'], e['m']) for e in r['events'][:30]]})
            cov = {'states': dstates, 'transitions': dtrans, 'trace_validation_states': st.get('states', 1), 'traces_validated_against_impl': len(res), 'samples': samples,
                   'Dial_impl_spec_conformance': {'steps_followed': idone, 'steps_total': itotal, 'all_followed': idone == itotal},
                   'tlc_behaviours_replayed': len(msc), 'tlc_counterexample_schedules_replayed': len([s for s in msc if s['id'].startswith('tlc-')]),
                   'controlled_dials': len(ctl), 'free_running_batches': len(free), 'free_running_dials': sum(s['dials'] for s in free), 'self_connect_batches': len([s for s in free if s['peer'] == 'selfconnect']),
                   'trace_events_validated': nlines, 'known_findings_matched': sorted(known_hit), 'spec_modules': vlib.spec_hashes(['Dial.tla', 'TraceDialImpl.tla', 'DialObs.tla', 'TraceDial.tla']),
                   'explanation': 'Dial.tla (dialTCP loop, connect, pollDesc, poller side of the temporary slot, kernel readiness) model-checked exhaustively (states/transitions are its); its counterexamples of three modelled deviations and simulated behaviours replayed as schedules; every controlled execution replayed step by step in Dial.tla; controlled: one dialTCP against a listening / closed / never-accepting / resetting port (the reset placed by the scheduler before, between or after the write-ready callback and the SO_ERROR read), manual poller, context expiry as scheduler choice, single-stall exploration; '
                                  'free-running: concurrent DialConnection (tcp/tcp6/unix; host names with two addresses via an in-process resolver: refused then dropping / accepting) with timeouts around the latency, echo on success, /proc/self/fd and slot census'}
            vlib.write_evidence(pid, tier, 'model_checking', cov, time.time() - t0, len(violations), ['TLC/SANY', 'controlled scheduler', 'loopback connect behaviour as observed', 'the self-connect retry needs a private network namespace (unshare -n); it is skipped if that is not permitted'])
    except vlib.Inconclusive as e:
        vlib.log('INCONCLUSIVE: %s' % e)
        if violations:
            vlib.finish(pid, violations, [])
        vlib.finish(pid, [], [], inconclusive=str(e).splitlines()[0][:200])
    vlib.finish(pid, violations, ['%s %s' % (k, known_hit[k]['what']) for k in sorted(known_hit)])
