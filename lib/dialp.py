"""C14 (model part): Dial.tla, the implementation-shaped model of dialTCP / netFD.connect / pollDesc and the poller's side of the
temporary slot, model-checked exhaustively; TLC counterexamples of the modelled deviations (SO_ERROR arm without Free, context
looked at before the success, first address's error on expiry) and TLC-simulated behaviours replayed as schedules on real dials
under the controlled scheduler; every execution validated against DialObs.tla (by the caller) and replayed step by step in
Dial.tla (TraceDialImpl.tla)."""
import json, os, re, shutil, glob
import vlib, tlaval


def tlc_run(sc, cfg, tag, workers=8, timeout=1200, extra=()):
    wd = sc.path('dl_' + tag)
    os.makedirs(wd, exist_ok=True)
    shutil.copy(os.path.join(vlib.SPEC, 'Dial.tla'), wd)
    shutil.copy(os.path.join(vlib.SPEC, cfg), wd)
    p = vlib.run(['java', '-XX:+UseParallelGC', '-cp', vlib.TLA_CP, 'tlc2.TLC', '-workers', str(workers), '-metadir', os.path.join(wd, 'md'), '-config', cfg] + list(extra) + ['Dial.tla'],
                 cwd=wd, timeout=timeout, check=False)
    return p.stdout, wd


CE = r'^State \d+: <(\w+)[^\n]*\n'
SIM = r'^\\\* <(\w+)[^\n]*\n'


def _scenario(sid, txt, pat, kind):
    parts = re.split(pat, txt, flags=re.M)
    m = re.search(r'/\\ addrs = (<<[^\n]*>>)', txt)
    if not m:
        return None
    kinds = tlaval.parse(m.group(1))
    plan, hupname, nh = [], {}, 0
    pstarted = False
    prev_hp = None
    expire = False
    for i in range(1, len(parts) - 1, 2):
        lab, body = parts[i], parts[i + 1]
        mh = re.search(r'/\\ hp = (<<[^\n]*>>)', body)
        hp = tlaval.parse(mh.group(1)) if mh else prev_hp
        if lab.startswith('D'):
            plan.append('dialer')
        elif lab.startswith('P') and lab != 'PeerRst':
            if not pstarted:
                plan.append('poller')   # the poller actor's own start step
                pstarted = True
            plan.append('poller')
        elif lab == 'HupNext':
            g = next(j for j in range(len(hp)) if prev_hp is None or hp[j] != prev_hp[j])
            if g not in hupname:
                nh += 1
                hupname[g] = 'hup%d' % nh
            plan.append(hupname[g])
        elif lab == 'Expire':
            plan.append('expire'); expire = True
        elif lab == 'PeerRst':
            plan.append('peerrst')
        prev_hp = hp
    return {'id': sid, 'seed': 1, 'strategy': 'plan', 'plan': plan, 'peer': '+'.join(kinds), 'addrs': kinds, 'expire': expire, 'free': False, 'dlkind': kind}


def scenarios(sc, tier, seed):
    scs = []
    for cfg in ('MC_Dial_DevNoFreeOnSoErr.cfg', 'MC_Dial_DevCtxBeforeSuccess.cfg', 'MC_Dial_DevFirstErr.cfg'):
        o, _ = tlc_run(sc, cfg, cfg[:-4], workers=1)
        if 'is violated' not in o:
            raise vlib.Inconclusive('no counterexample from %s' % cfg)
        s = _scenario('tlc-%s' % cfg[8:-4], o[o.index('State 1:'):], CE, 'window')
        if not s or not s['plan']:
            raise vlib.Inconclusive('no schedule from %s' % cfg)
        scs.append(s)
    n = 150 if tier == 'quick' else 3000
    o, wd = tlc_run(sc, 'MC_Dial_Sim.cfg', 'sim', workers=1, extra=['-simulate', 'file=%s,num=%d' % (sc.path('dl_sim', 'b'), n), '-depth', '45', '-seed', str(seed)])
    for i, f in enumerate(sorted(glob.glob(sc.path('dl_sim', 'b_*')))):
        s = _scenario('dlsim-%d-%d' % (seed, i), open(f).read(), SIM, 'sim')
        if s and s['plan']:
            scs.append(s)
    return scs


def exhaustive(sc, tier):
    out, _ = tlc_run(sc, 'MC_Dial.cfg', 'main')
    if not vlib.tlc_ok(out):
        raise vlib.Inconclusive('Dial.tla exhaustive check did not pass: %s' % (vlib.tlc_violation(out) or out[-800:]))
    st = vlib.tlc_stats(out)
    return st[1], st[0]


def impl_check(sc, runs, tag):
    """runs: [(scenario, result)] of controlled dials -> (steps followed, steps total, per-run first mismatch or None)"""
    wd = sc.path('dli_' + tag)
    os.makedirs(wd, exist_ok=True)
    for f in ('Dial.tla', 'TraceDialImpl.tla'):
        shutil.copy(os.path.join(vlib.SPEC, f), wd)
    open(os.path.join(wd, 'TraceDialImpl.cfg'), 'w').write(
        'SPECIFICATION TSpec\nPOSTCONDITION Report\nCHECK_DEADLOCK FALSE\nCONSTANTS\n  MaxAddrs = 2\n  MayExpire = TRUE\n  Dev_NoFreeOnSoErr = FALSE\n  Dev_CtxBeforeSuccess = FALSE\n  Dev_FirstErr = FALSE\n')
    blank = {'g': '', 'pt': 0, 'n': 0, 'slots': 0, 'fd': 0, 'wt': 0, 'ct': 0, 'opst': 0, 'exp': 0, 'rst': 0, 'ret': 0, 'na': 1, 'a1': '', 'a2': ''}
    n, starts = 0, []
    with open(os.path.join(wd, 'sched.ndjson'), 'w') as f:
        for s, r in runs:
            kinds = r['info'].get('kinds') or s.get('addrs') or [s['peer']]
            if not r['info'].get('proj') or any(e['e'] == 'SetupErr' for e in r['events']):
                continue
            f.write(json.dumps(dict(blank, g='reset', na=len(kinds), a1=kinds[0], a2=kinds[-1])) + '\n')
            n += 1
            starts.append((n, s['id']))
            for (name, gate), pj in zip(r['info']['gates'], r['info']['proj']):
                g = {'dialer': 'd', 'poller': 'p', 'expire': 'expire', 'peerrst': 'peerrst'}.get(name) or ('h' if name.startswith('hup') else 't')
                pt = int(gate.split('#')[0]) if gate != 'env' else 0
                if g in ('p', 'h') and pt == 1000:
                    continue
                f.write(json.dumps(dict(blank, g=g, pt=pt, slots=pj[0], fd=pj[1], wt=pj[2], ct=pj[3], opst=pj[4], exp=pj[5], rst=pj[6], ret=pj[7])) + '\n')
                n += 1
    if n == 0:
        return 0, 0, None
    p = vlib.run(['java', '-Xss64m', '-cp', vlib.TLA_CP, 'tlc2.TLC', '-workers', '1', '-metadir', os.path.join(wd, 'md'), '-config', 'TraceDialImpl.cfg', 'TraceDialImpl.tla'],
                 cwd=wd, timeout=1200, check=False)
    m = re.search(r'<<\s*"IMPL-RESULT",\s*(\d+),\s*(\d+),\s*(TRUE|FALSE)\s*>>', p.stdout)
    if not m:
        raise vlib.Inconclusive('Dial impl-level trace validation failed:\n' + p.stdout[-2000:])
    done = int(m.group(1))
    bad = None
    if done < n:
        bad = next((sid for st, sid in reversed(starts) if st <= done + 1), None)
        lines = open(os.path.join(wd, 'sched.ndjson')).read().splitlines()
        bad = (bad, done, lines[max(0, done - 3):done + 1])
    return done, n, bad
