#!/usr/bin/env python3
"""Write seeded/<id>/meta.json from the table below + the confirmation (confirm.json, bin/confirm_seed2) and the last check results
(check_<P>_<tier>.txt, bin/seedtest)."""
import json, os, glob, re
ROOT = os.path.dirname(os.path.dirname(os.path.abspath(__file__)))
T = {
 'C01_m1': ('C01', 'ReadByte no longer invalidates the Peek cache', 'multi-node Peek, ReadByte, Peek again on the same buffer'),
 'C01_m2': ('C01', 'MallocAck stops discarding at the first clean node', 'a Malloc that spills into a second node, partial MallocAck, growth that skips a node'),
 'C02_m1': ('C02', 'readCopy fast path recycles a node whose bytes were exposed', 'Skip over a node, Next (zero-copy result), ReadBinary/readCopy past it before Release'),
 'C02_m2': ('C02', 'nested Slice takes its reference on the wrong node', 'a Slice of a Slice, readers released in an order that frees the root while a result is owed'),
 'C03_m1': ('C03', 'Refer no longer flattens the origin chain: the root block is released twice through a nested Slice', 'r1 = buf.Slice, r2 = r1.Slice, both released while buf still holds unread data in the node'),
 'C03_m2': ('C03', 'growth writes into the spare capacity of a caller-owned slice', 'WriteBinary > 4 KiB of a slice with cap > len, then a small write'),
 'C04_m1': ('C04', 'handler loop stops on any close (not only a user close)', 'handler busy while more data and the FIN arrive'),
 'C04_m2': ('C04', 'connection Until marks the scanned prefix after the scan', 'bytes delivered during a scan for the delimiter'),
 'C05_m1': ('C05', 'the handler task\'s exit re-check no longer re-takes the processing lock', 'a Close in the window after unlock(processing)'),
 'C05_m2': ('C05', 'Close on a poller-closed connection skips force(closing,user)', 'peer hang-up, then the handler closes with unread input'),
 'C06_m1': ('C06', 'handler loop stops on any close', 'last packet + FIN while the handler runs (same change as C04_m1, own demonstration)'),
 'C06_m2': ('C06', 'SetOnRequest kicks a task only for an active connection', 'data + FIN buffered, then SetOnRequest'),
 'C07_m1': ('C07', 'read timer not drained after a trigger wins', 'expiry, trigger wins the select, next timed read'),
 'C07_m2': ('C07', 'no length re-check when the timer tick wins', 'data arrives between the tick and the reader waking up'),
 'C08_m1': ('C08', 'triggerWrite before the PollRW2R control', 'back-to-back large flushes'),
 'C08_m2': ('C08', 'flush compares the sendmsg count with the 32-vector total instead of the buffer', 'more than 32 nodes that fit into the socket buffer'),
 'C09_m1': ('C09', 'the OnConnect task helps OnDisconnect only while closing==poller', 'FIN during OnConnect, OnConnect itself closes'),
 'C09_m2': ('C09', 'the onRequest gate checks the connecting lock instead of the state', 'data between init and onConnect()'),
 'C10_m1': ('C10', 'operator cache reclaims freeable slots when the free list is empty', 'free list empty, close + open inside one batch'),
 'C10_m2': ('C10', 'pending hang-ups stored as slot pointers instead of callbacks', 'slow hang-up handling, slot reuse'),
 'C11_m1': ('C11', 'the event array grows between epoll_wait and the handler (fetched batch zeroed)', 'a batch that fills the array with an edge-triggered event in it'),
 'C11_m2': ('C11', 'trigger flag cleared before the eventfd is drained', 'a Trigger between the two statements, then a Trigger on the idle loop'),
 'C12_m1': ('C12', 'close triggers sent after closeCallback', 'Close while a Flush is blocked'),
 'C12_m2': ('C12', 'read timer armed lazily', 'timed-out read, close, read again'),
 'C13_m1': ('C13', 'isIdle ignores pending output', 'a sender outside any handler, then Shutdown'),
 'C13_m2': ('C13', 'untrack callback registered before init', 'descriptor reuse between close and Delete'),
 'C14_m1': ('C14', 'context checked before the success check', 'expiry exactly at success'),
 'C14_m2': ('C14', 'self-connected socket leaked when the redial fails', 'TCP self-connect (private netns, one ephemeral port)'),
 'C15_m1': ('C15', 'deferred cleanup misses the eventfd failure', 'one descriptor short of the limit when a poller is opened'),
 'C15_m2': ('C15', 'second close on failed registration', 'epoll refuses the descriptor (NewFDConnection on a regular file)'),
 'C16_m1': ('C16', 'zcReader.fill skips the ack on (0, nil)', 'an io.Reader returning (0, nil)'),
 'C16_m2': ('C16', 'zcWriter.Flush returns before Skip on a short write with error', 'an io.Writer returning (n < len, err)'),
 'C17_m1': ('C17', 'trigger counted before the ring slot is written', 'TLC window schedule (worker between the two statements)'),
 'C17_m2': ('C17', 'closed state published before the exit re-check', 'TLC window schedule'),
 'C18_m1': ('C18', 'pool initialisation lock taken without CAS', 'two first Picks racing (no schedule point inside the window: free-running)'),
 'C18_m2': ('C18', 'load balancer rebuilt empty on a mode change with unchanged size', 'SetLoadBalance between phases'),
 'C19_m1': ('C19', 'operator freed before the flush wait', 'Close during sendmsg'),
 'C19_m2': ('C19', 'c.ctx read before the lock', 'data arriving during OnConnect'),
 'X_F8_reverted': ('C13', 'revert of the repair of F8 (stale server tracking)', 'hang-up handled between onAccept\'s activity check and Store'),
 'X_L1_reverted': ('C08', 'revert of the repair of L1 (stale write signal)', 'write timeout while the poller is between PollRW2R and triggerWrite'),
 # round 2 (second set of independent sub-agents, after the first strengthening)
 'C01_r2m1': ('C01', 'WriteDirect rebases the split point with the read offset instead of the flushed length', 'WriteDirect into a node with flushed and partly read data'),
 'C01_r2m2': ('C01', 'Release advances the read cursor up to the malloc tail instead of the flushed boundary', 'Release while a pending Malloc has spilled into a node behind flush'),
 'C02_r2m1': ('C02', 'a recycled Slice node keeps its origin pointer', 'node-pool reuse of a former Slice node as an ordinary node, then release'),
 'C02_r2m2': ('C02', 'Release retires the Peek cache into caches but keeps pointing at it', 'multi-node Peek, Release, Peek again / second Release'),
 'C03_r2m1': ('C03', 'Release resets the whole mode byte of the read node (drops the unmanaged/read-only marks)', 'Release on a buffer whose read node is a WriteBinary / Slice node'),
 'C03_r2m2': ('C03', 'WriteBuffer detaches the donor\'s tail only when the donor had readable data', 'Append/WriteBuffer of a donor without readable data but with nodes behind its write node'),
 'C04_r2m1': ('C04', 'write interest registered before the direct send is accounted for', 'partial sendmsg, poller write-ready between Control and Skip'),
 'C04_r2m2': ('C04', 'an empty read no longer returns the booked input space', 'spurious readiness (EAGAIN / 0 bytes) followed by more data'),
 'C05_r2m1': ('C05', 'onHup starts the handler task for unread input and also runs the close callbacks itself', 'peer hang-up with unread input and a request handler'),
 'C05_r2m2': ('C05', 'Detach on a connection the poller already marked closed closes the descriptor', 'peer close, then Detach'),
 'C06_r2m1': ('C06', 'the more-input re-check is done before the task lock is released', 'data arriving between the re-check and the unlock'),
 'C06_r2m2': ('C06', 'the exit double-check uses a stale closedBy', 'hang-up recorded after the loop loaded the closing state, unread input left'),
 'C07_r2m1': ('C07', 'the timed wait loop looks at the closing status before the buffer', 'data + hang-up both in before the reader wakes (NOT COUNTED at HEAD, see note)'),
 'C07_r2m2': ('C07', 'expired-deadline check runs before the already-buffered fast path', 'read deadline in the past with enough bytes buffered'),
 'C08_r2m1': ('C08', 'a rejected Write releases the flushing lock of the flush in progress', 'Write during a blocked Flush, then a third flusher'),
 'C08_r2m2': ('C08', 'peer-close path wakes a blocked flusher only after OnDisconnect has returned', 'Flush blocked on a full socket, peer closes, OnDisconnect waits for the writer'),
 'C09_r2m1': ('C09', 'OnDisconnect without OnConnect tied to state connected', 'hang-up before onConnect() moved the state (no OnConnect configured)'),
 'C09_r2m2': ('C09', 'hang-up path offers unread input to OnRequest without looking at the connect state', 'data + FIN before OnConnect has started'),
 'C10_r2m1': ('C10', 'freeable queues the slot before waiting for the token and resetting it', 'slot reuse while the poller still dispatches through it'),
 'C10_r2m2': ('C10', 'close callback closes the descriptor before releasing the poller slot', 'descriptor number reused by an accept inside the window'),
 'C11_r2m1': ('C11', 'close message compared as a whole: lost when drained together with a Trigger', 'Close and Trigger coalesced in one eventfd read'),
 'C11_r2m2': ('C11', 'operator left in the do state on the ERR / empty-error-queue path', 'EPOLLERR with an empty error queue, then close of that connection'),
 'C12_r2m1': ('C12', 'a read that times out while the connection is being closed drains an already consumed timer', 'timer tick, then close before the reader re-checks'),
 'C12_r2m2': ('C12', 'Flush/Write on a closed connection keeps the flushing key', 'Flush after close, then Close'),
 'C13_r2m1': ('C13', 'Shutdown reads the accepts-in-progress counter after its sweep', 'an accept completing (Store, accepting--) between the sweep and the counter load'),
 'C13_r2m2': ('C13', 'off-by-one in the accept back-off table after EMFILE', 'more than seven consecutive failed re-accepts'),
 'C14_r2m1': ('C14', 'timed-out dial of a multi-address host reports the first address\'s error', 'host name with two addresses: refused, then silently dropping'),
 'C14_r2m2': ('C14', 'poller slot leaked when the connect error is only seen in SO_ERROR', 'reset between the write-ready callback and the SO_ERROR read'),
 'C15_r2m1': ('C15', 'second listener.Close closes a descriptor number the listener no longer owns', 'Close twice with a descriptor opened in between'),
 'C15_r2m2': ('C15', 'poller misses the close message when a Trigger wake-up is pending', 'Close and Trigger coalesced: epoll fd and eventfd never closed'),
 'C16_r2m1': ('C16', 'zcReader.fill returns the source\'s error before committing the bytes delivered with it', 'io.Reader returning (n > 0, err)'),
 'C16_r2m2': ('C16', 'ioWriter.Write hands p to WriteBinary and so retains the caller\'s buffer', 'Write of more than 4 KiB, caller reuses p'),
 'C17_r2m1': ('C17', 'worker releases the run flag only after the exit re-check', 'an Add between the re-check and the flag release (lost trigger)'),
 'C17_r2m2': ('C17', 'pending-shard counter given back before the shard\'s getters are run', 'Close between the counter update and deal'),
 'C18_r2m1': ('C18', 'round-robin counter restarted after each full round (add + store not atomic)', 'concurrent Picks around the wrap'),
 'C18_r2m2': ('C18', 'shrinking the pool closes the wrong pollers', 'SetNumLoops to a smaller number'),
 'C19_r2m1': ('C19', 'operator reset before the poller has let go of it', 'Close while the poller is inside do()/done() for that operator'),
 'C19_r2m2': ('C19', 'ShardQueue.Add tests the shard for emptiness before taking the shard lock', 'concurrent Add and worker swap'),
 'X_L1b_reverted': ('C08', 'revert of the repair of L1b (stale flush signal leaves write interest unregistered)', 'write timeout, stale signal consumed by the next flush'),
 'X_F12c_reverted': ('C05', 'revert of the repair of F12c (onHup takes the processing lock twice)', 'handler task exiting between the two lock attempts'),
 'X_F17_reverted': ('C13', 'revert of the repair of F17 (accepts in progress not counted by Shutdown)', 'Shutdown between accept(2) and Store'),
 'X_F8b_reverted': ('C13', 'revert of the repair of F8b (re-check uses IsActive, not the close-callback flag)', 'close callbacks running between Store and the re-check'),
 'X_F18_reverted': ('C13', 'revert of the repair of F18 (closing connections never tracked)', 'hang-up before onAccept, descriptor closed later'),
 'X_F19_reverted': ('C07', 'revert of the repair of F19 (EOF although the wanted bytes are buffered)', 'data and hang-up both in before the reader re-checks'),
}
NOTES = {
 'C09_m1': 'NOT COUNTED at HEAD: the repair of F6 (re-check after unlock(connecting)) makes this change behaviour-preserving - the demonstration passes with the patch applied and OnDisconnect still runs exactly once before the close callbacks; kept for the record (it was caught by C09 before that repair).',
 'C06_m1': 'same source change as C04_m1',
 'C07_r2m1': 'NOT COUNTED at HEAD: this change re-creates, in the timed loop only, the order of checks that the pinned tree had in both loops; the checks built for it found that the pinned tree itself breaks C07 that way (finding F19, repaired by 62c121c). With that repair in place the change is behaviour-preserving (the demonstration passes); X_F19_reverted is the counted form.',
 'C02_r2m2': 'caught by the C01 and C03 checks (wrong Peek result, double free); the C02 check sees the same executions but the first rule to fire is C01\'s',
}
for sd, (prop, what, needs) in sorted(T.items()):
    d = os.path.join(ROOT, 'seeded', sd)
    if not os.path.isdir(d):
        continue
    conf = json.load(open(os.path.join(d, 'confirm.json'))) if os.path.exists(os.path.join(d, 'confirm.json')) else None
    checks = {}
    for f in sorted(glob.glob(os.path.join(d, 'check_*.txt'))):
        txt = open(f).read()
        m = re.search(r'exit=(\d+)', txt)
        checks[os.path.basename(f)[6:-4]] = {'exit': int(m.group(1)) if m else None, 'first_lines': [l[:220] for l in txt.splitlines()[1:4]]}
    meta = {'seed': sd, 'property': prop, 'change': what, 'needs_to_manifest': needs,
            'origin': 'independent sub-agent given only the property text and a scratch worktree' if not sd.startswith('X_') else 'revert of a fix: commit of /repo',
            'files': sorted(os.listdir(d)),
            'confirmation': conf, 'what_was_run': 'bin/confirm_seed2 %s (scratch worktree of /repo HEAD: demonstration on the clean tree, patch, build with and without the tag, demonstration with the patch, repository suite); bin/seedtest %s <property> (the registered check against the patched scratch worktree)' % (sd, sd),
            'checks': checks, 'caught': any(c['exit'] == 1 for c in checks.values())}
    if sd in NOTES:
        meta['note'] = NOTES[sd]
    json.dump(meta, open(os.path.join(d, 'meta.json'), 'w'), indent=1)
print('ok')
