#!/usr/bin/env python3
"""Write seeded/<id>/meta.json from the table below + the confirmation (confirm.json, bin/confirm_seed2) and the last check results
(check_<P>_<tier>.txt, bin/seedtest)."""
import json, os, glob, re
ROOT = os.path.dirname(os.path.dirname(os.path.abspath(__file__)))
T = {
 'C01_m1': ('C01', 'ReadByte no longer invalidates the Peek cache', 'multi-node Peek, ReadByte, Peek again on the same buffer'),
 'C01_m2': ('C01', 'MallocAck stops discarding at the first clean node', 'a Malloc that spills into a second node, partial MallocAck, growth that skips a node'),
 'C02_m1': ('C02', 'readCopy fast path recycles a node whose bytes were exposed', 'Skip over a node, Next (zero-copy result), ReadBinary/readCopy past it before Release'),
 'C02_m2': ('C02', 'nested Slice takes its reference on the wrong node', 'a Slice of a Slice, readers released in an order that frees the root while a result is owed'),
 'C03_m1': ('C03', 'Refer no longer flattens the origin chain: the root block is released twice through a nested Slice', 'r1 = buf.Slice, r2 = r1.Slice, both released while buf still holds unread data in the node'),
 'C03_m2': ('C03', 'growth writes into the spare capacity of a caller-owned slice', 'WriteBinary > 4 KiB of a slice with cap > len, then a small write'),
 'C04_m1': ('C04', 'handler loop stops on any close (not only a user close)', 'handler busy while more data and the FIN arrive'),
 'C04_m2': ('C04', 'connection Until marks the scanned prefix after the scan', 'bytes delivered during a scan for the delimiter'),
 'C05_m1': ('C05', 'the handler task\'s exit re-check no longer re-takes the processing lock', 'a Close in the window after unlock(processing)'),
 'C05_m2': ('C05', 'Close on a poller-closed connection skips force(closing,user)', 'peer hang-up, then the handler closes with unread input'),
 'C06_m1': ('C06', 'handler loop stops on any close', 'last packet + FIN while the handler runs (same change as C04_m1, own demonstration)'),
 'C06_m2': ('C06', 'SetOnRequest kicks a task only for an active connection', 'data + FIN buffered, then SetOnRequest'),
 'C07_m1': ('C07', 'read timer not drained after a trigger wins', 'expiry, trigger wins the select, next timed read'),
 'C07_m2': ('C07', 'no length re-check when the timer tick wins', 'data arrives between the tick and the reader waking up'),
 'C08_m1': ('C08', 'triggerWrite before the PollRW2R control', 'back-to-back large flushes'),
 'C08_m2': ('C08', 'flush compares the sendmsg count with the 32-vector total instead of the buffer', 'more than 32 nodes that fit into the socket buffer'),
 'C09_m1': ('C09', 'the OnConnect task helps OnDisconnect only while closing==poller', 'FIN during OnConnect, OnConnect itself closes'),
 'C09_m2': ('C09', 'the onRequest gate checks the connecting lock instead of the state', 'data between init and onConnect()'),
 'C10_m1': ('C10', 'operator cache reclaims freeable slots when the free list is empty', 'free list empty, close + open inside one batch'),
 'C10_m2': ('C10', 'pending hang-ups stored as slot pointers instead of callbacks', 'slow hang-up handling, slot reuse'),
 'C11_m1': ('C11', 'the event array grows between epoll_wait and the handler (fetched batch zeroed)', 'a batch that fills the array with an edge-triggered event in it'),
 'C11_m2': ('C11', 'trigger flag cleared before the eventfd is drained', 'a Trigger between the two statements, then a Trigger on the idle loop'),
 'C12_m1': ('C12', 'close triggers sent after closeCallback', 'Close while a Flush is blocked'),
 'C12_m2': ('C12', 'read timer armed lazily', 'timed-out read, close, read again'),
 'C13_m1': ('C13', 'isIdle ignores pending output', 'a sender outside any handler, then Shutdown'),
 'C13_m2': ('C13', 'untrack callback registered before init', 'descriptor reuse between close and Delete'),
 'C14_m1': ('C14', 'context checked before the success check', 'expiry exactly at success'),
 'C14_m2': ('C14', 'self-connected socket leaked when the redial fails', 'TCP self-connect (private netns, one ephemeral port)'),
 'C15_m1': ('C15', 'deferred cleanup misses the eventfd failure', 'one descriptor short of the limit when a poller is opened'),
 'C15_m2': ('C15', 'second close on failed registration', 'epoll refuses the descriptor (NewFDConnection on a regular file)'),
 'C16_m1': ('C16', 'zcReader.fill skips the ack on (0, nil)', 'an io.Reader returning (0, nil)'),
 'C16_m2': ('C16', 'zcWriter.Flush returns before Skip on a short write with error', 'an io.Writer returning (n < len, err)'),
 'C17_m1': ('C17', 'trigger counted before the ring slot is written', 'TLC window schedule (worker between the two statements)'),
 'C17_m2': ('C17', 'closed state published before the exit re-check', 'TLC window schedule'),
 'C18_m1': ('C18', 'pool initialisation lock taken without CAS', 'two first Picks racing (no schedule point inside the window: free-running)'),
 'C18_m2': ('C18', 'load balancer rebuilt empty on a mode change with unchanged size', 'SetLoadBalance between phases'),
 'C19_m1': ('C19', 'operator freed before the flush wait', 'Close during sendmsg'),
 'C19_m2': ('C19', 'c.ctx read before the lock', 'data arriving during OnConnect'),
 'X_F8_reverted': ('C13', 'revert of the repair of F8 (stale server tracking)', 'hang-up handled between onAccept\'s activity check and Store'),
 'X_L1_reverted': ('C08', 'revert of the repair of L1 (stale write signal)', 'write timeout while the poller is between PollRW2R and triggerWrite'),
}
NOTES = {
 'C09_m1': 'NOT COUNTED at HEAD: the repair of F6 (re-check after unlock(connecting)) makes this change behaviour-preserving - the demonstration passes with the patch applied and OnDisconnect still runs exactly once before the close callbacks; kept for the record (it was caught by C09 before that repair).',
 'C06_m1': 'same source change as C04_m1',
}
for sd, (prop, what, needs) in sorted(T.items()):
    d = os.path.join(ROOT, 'seeded', sd)
    if not os.path.isdir(d):
        continue
    conf = json.load(open(os.path.join(d, 'confirm.json'))) if os.path.exists(os.path.join(d, 'confirm.json')) else None
    checks = {}
    for f in sorted(glob.glob(os.path.join(d, 'check_*.txt'))):
        txt = open(f).read()
        m = re.search(r'exit=(\d+)', txt)
        checks[os.path.basename(f)[6:-4]] = {'exit': int(m.group(1)) if m else None, 'first_lines': [l[:220] for l in txt.splitlines()[1:4]]}
    meta = {'seed': sd, 'property': prop, 'change': what, 'needs_to_manifest': needs,
            'origin': 'independent sub-agent given only the property text and a scratch worktree' if not sd.startswith('X_') else 'revert of a fix: commit of /repo',
            'files': sorted(os.listdir(d)),
            'confirmation': conf, 'what_was_run': 'bin/confirm_seed2 %s (scratch worktree of /repo HEAD: demonstration on the clean tree, patch, build with and without the tag, demonstration with the patch, repository suite); bin/seedtest %s <property> (the registered check against the patched scratch worktree)' % (sd, sd),
            'checks': checks, 'caught': any(c['exit'] == 1 for c in checks.values())}
    if sd in NOTES:
        meta['note'] = NOTES[sd]
    json.dump(meta, open(os.path.join(d, 'meta.json'), 'w'), indent=1)
print('ok')
