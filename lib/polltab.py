"""C11: the poller dispatch table PollerObs.tla; every vector executed through the real handler."""
import json, os, re, subprocess, sys, time, shutil
import vlib, tlaval, ploop


def vectors_from_tlc(sc):
    wd = sc.path('pv')
    os.makedirs(wd, exist_ok=True)
    shutil.copy(os.path.join(vlib.SPEC, 'PollerVectors.tla'), wd)
    open(os.path.join(wd, 'PollerVectors.cfg'), 'w').write('')
    p = vlib.run(['java', '-cp', vlib.TLA_CP, 'tlc2.TLC', '-metadir', os.path.join(wd, 'md'), '-config', 'PollerVectors.cfg', 'PollerVectors.tla'], cwd=wd, timeout=300, check=False)
    m = re.search(r'<<\s*"VECTORS",(.*?)>>\s*\n(?=Starting|Computing|Finished|Model|\Z)', p.stdout, re.S)
    if not m:
        raise vlib.Inconclusive('TLC did not print the vector set:\n' + p.stdout[-1500:])
    val = tlaval.parse('<<"VECTORS",' + m.group(1) + '>>')
    return [{'flags': sorted(v[0]), 'pending': v[1], 'peer': v[2], 'out': v[3], 'way': v[4], 'transport': v[5]} for v in val[1]]


def main(pid, tier, replay_path=None):
    t0 = time.time()
    violations, samples = [], []
    try:
        with vlib.Scratch('poll') as sc:
            binary = vlib.build_harness(sc, '.', instrumented_pool=True)
            vecs = vectors_from_tlc(sc)
            rp = json.load(open(replay_path)) if replay_path else None
            if rp and 'vector' in rp:
                vecs = [rp['vector']]
            elif rp:
                vecs = []
            elif tier == 'quick':
                vecs = [v for v in vecs if v['transport'] == 'unix' or v['peer'] == 'rst' or v['way'] == 'real' or 'ERR' in v['flags']]
            rounds = 1 if tier == 'quick' else 8
            allv = []
            for rd in range(rounds):
                for v in vecs:
                    v2 = dict(v); v2['t'] = len(allv) + 1
                    allv.append(v2)
            procs = 12
            size = (len(allv) + procs - 1) // procs
            ps = []
            for k in range(procs):
                part = allv[k * size:(k + 1) * size]
                if not part:
                    continue
                inp, outp = sc.path('pin_%d.json' % k), sc.path('pout_%d.ndjson' % k)
                json.dump({'vectors': part, 'loop': k == 0}, open(inp, 'w'))
                env = dict(vlib.GOENV, VERIF_IN=inp, VERIF_OUT=outp)
                ps.append((subprocess.Popen([binary, '-test.run', '^TestVerifPollTable$', '-test.count=1', '-test.timeout', '900s'],
                                            cwd=sc.path('repo'), env=env, stdout=subprocess.PIPE, stderr=subprocess.STDOUT, text=True), outp, part))
            runs = []
            for p, outp, part in ps:
                try:
                    o, _ = p.communicate(timeout=1000)
                except subprocess.TimeoutExpired:
                    p.kill()
                    o = 'timeout (a vector never returned: the handler did not terminate)'
                got = [json.loads(l) for l in open(outp)] if os.path.exists(outp) else []
                runs += got
                nvec = len([g for g in got if g['vector'].get('way') != 'loop'])
                if nvec != len(part):
                    bad = part[nvec]
                    runs.append({'vector': bad, 'events': [{'e': 'Init', 'k': bad['peer'], 'n': 0, 'm': 0, 'err': ''}, {'e': 'Panic', 'k': '', 'n': 0, 'm': 0, 'err': 'test process died or hung: ' + o[-300:]}]})
            setup = [r for r in runs if any(e['e'] == 'SetupErr' for e in r['events'])]
            runs = [r for r in runs if r not in setup]
            if len(setup) * 10 > len(runs) + len(setup):
                raise vlib.Inconclusive('%d vectors could not be set up: %s' % (len(setup), setup[0]['events']))
            wd = sc.path('tv')
            os.makedirs(wd, exist_ok=True)
            for f in ('PollerVectors.tla', 'PollerObs.tla', 'TracePoller.tla', 'TracePoller.cfg'):
                shutil.copy(os.path.join(vlib.SPEC, f), wd)
            index = []
            n = 0
            with open(os.path.join(wd, 'trace.ndjson'), 'w') as f:
                for i, r in enumerate(runs, 1):
                    for e in r['events']:
                        e = dict(e); e['t'] = i
                        for k, dv in (('k', ''), ('n', 0), ('m', 0), ('err', '')):
                            e.setdefault(k, dv)
                        f.write(json.dumps(e) + '\n')
                        n += 1
            p = vlib.run(['java', '-Xss64m', '-cp', vlib.TLA_CP, 'tlc2.TLC', '-workers', '1', '-metadir', os.path.join(wd, 'md'),
                          '-config', 'TracePoller.cfg', 'TracePoller.tla'], cwd=wd, timeout=900, check=False)
            m = re.search(r'<<\s*"TRACE-RESULT",(.*?)>>\s*\n(?=Model checking|Finished|The|$)', p.stdout, re.S)
            if not m or 'No error has been found' not in p.stdout:
                raise vlib.Inconclusive('trace validation failed:\n' + p.stdout[-2000:])
            val = tlaval.parse('<<"TRACE-RESULT",' + m.group(1) + '>>')
            if val[1] != n:
                raise vlib.Inconclusive('trace validation consumed %s of %d events' % (val[1], n))
            st = vlib.tlc_stats(p.stdout)
            seen = set()
            for t, line, rule in val[3]:
                r = runs[t - 1]
                key = (json.dumps(r['vector'], sort_keys=True), rule)
                if key in seen:
                    continue
                seen.add(key)
                vlib.log('violation %s: vector %s\n      events %s' % (rule, {k: r['vector'][k] for k in r['vector'] if k != 't'}, [(e['e'], e.get('n'), e.get('m')) for e in r['events']]))
                if len(violations) < 8:
                    violations.append(vlib.save_replay(pid, '%s_%d' % (tier, len(violations)), {'property': pid, 'rule': rule, 'vector': r['vector'], 'events': r['events']}))
            # the reactor loop as a whole: PollLoop.tla (exhaustive) + schedules/free runs on the real Wait loop
            if not rp or 'scenario' in rp:
                lviol, lcov = ploop.run(sc, binary, pid, tier, vlib.seed(), replay=rp['scenario'] if rp else None)
            else:
                lviol, lcov = [], {}
            for rule, s0, r in lviol:
                vlib.log('violation %s in poll-loop scenario %s (%s)' % (rule, s0['id'], {k: s0[k] for k in s0 if k not in ('plan', 'id')}))
                vlib.log('   schedule: ' + ' '.join(r['info'].get('taken', [])[:120]))
                vlib.log('   events: ' + ' '.join('%s:%s:%s:%s' % (e['g'], e['e'], e['k'], e['n']) for e in r['events'][-40:]))
                if len(violations) < 8:
                    s1 = dict(s0)
                    if s1['mode'] == 'controlled':
                        s1['strategy'], s1['plan'] = 'plan', r['info']['taken']
                    violations.append(vlib.save_replay(pid, '%s_%d' % (tier, len(violations)), {'property': pid, 'rule': rule, 'scenario': s1, 'events': r['events']}))
            cov = {'evaluations': len(runs) + lcov.get('pollloop_executions', 0), 'distinct_nontrivial': len({json.dumps({k: r['vector'][k] for k in r['vector'] if k != 't'}, sort_keys=True) for r in runs}),
                   'rule': 'every vector of PollerObs!Vectors (event flags x pending bytes x peer state x pending output x injection way x transport) enumerated by TLC; '
                           'each is executed through the real defaultPoll.handler with a recording FDOperator; distinct = distinct vectors (all involve a real dispatch)',
                   'samples': [{'vector': r['vector'], 'events': [(e['e'], e.get('n'), e.get('m')) for e in r['events']]} for r in runs[:3]],
                   'exhaustive': tier == 'thorough', 'vectors_in_spec': len(vectors_from_tlc(sc)) if False else len(vecs), 'vectors_not_set_up': len(setup),
                   'states': (st[1] if st else n), 'transitions': (st[0] if st else n), 'traces_validated_against_impl': len(runs),
                   'callbacks_recorded': n, 'spec_modules': vlib.spec_hashes(['PollerObs.tla', 'TracePoller.tla', 'PollLoop.tla', 'PollLoopObs.tla', 'TracePollLoop.tla', 'TracePLImpl.tla'])}
            cov.update(lcov)
            vlib.write_evidence(pid, tier, 'fault_enumeration', cov, time.time() - t0, len(violations),
                                ['TLC/SANY', 'Linux epoll/socket behaviour as observed', 'recording FDOperator of the harness', 'only the epoll poller is built on this platform (kqueue file out of reach)'])
    except vlib.Inconclusive as e:
        vlib.log('INCONCLUSIVE: %s' % e)
        if violations:
            vlib.finish(pid, violations, [])
        vlib.finish(pid, [], [], inconclusive=str(e).splitlines()[0][:200])
    vlib.finish(pid, violations, [])
