"""C11 (loop part): the reactor loop. Impl-shaped spec PollLoop.tla model-checked exhaustively; TLC counterexamples of the modelled
deviations and TLC-simulated behaviours replayed as schedules on the real defaultPoll.Wait under the controlled scheduler, random/PCT/
single-stall schedules, free-running stock-size batches and trigger storms; every execution validated against PollLoopObs.tla and (the
controlled ones) against PollLoop.tla itself (TracePLImpl.tla)."""
import json, os, random, re, shutil, glob, time
import vlib, tlaval, conn

STD = {'trigs': 2, 'calls': 2, 'lts': 2, 'ets': 1, 'sends': 2, 'size0': 2}


def tlc_run(sc, cfg, tag, workers=12, timeout=1200, extra=()):
    wd = sc.path('pl_' + tag)
    os.makedirs(wd, exist_ok=True)
    shutil.copy(os.path.join(vlib.SPEC, 'PollLoop.tla'), wd)
    shutil.copy(os.path.join(vlib.SPEC, cfg), wd)
    p = vlib.run(['java', '-XX:+UseParallelGC', '-cp', vlib.TLA_CP, 'tlc2.TLC', '-workers', str(workers), '-metadir', os.path.join(wd, 'md'), '-config', cfg] + list(extra) + ['PollLoop.tla'],
                 cwd=wd, timeout=timeout, check=False)
    return p.stdout, wd


def _name(lab, arg):
    arg = arg.strip('"')
    if lab in ('LWait', 'LEv', 'LDrain', 'LRearm'):
        return 'loop'
    if lab in ('TAdd', 'TMsg'):
        return arg
    if lab == 'KMsg':
        return 'closer'
    if lab == 'Send':
        return 'send:' + arg
    if lab == 'Reg':
        return 'reg:' + ('e1' if arg == 'e' else arg)
    return None


def plan_from(out, pat):
    plan = []
    for m in re.finditer(pat, out, re.M):
        n = _name(m.group(1), m.group(2) or '')
        if n:
            plan.append(n)
    return plan


def with_start_steps(plan):
    out, seen = [], set()
    for n in plan:
        if ':' not in n and n not in seen:
            seen.add(n)
            out.append(n)
        out.append(n)
    return out


def sim_plans(sc, n, seed):
    out, wd = tlc_run(sc, 'MC_PollLoop_Sim.cfg', 'sim', workers=1, timeout=600,
                      extra=['-simulate', 'file=%s,num=%d' % (sc.path('pl_sim', 'b'), n), '-depth', '60', '-seed', str(seed)])
    plans = []
    for f in sorted(glob.glob(sc.path('pl_sim', 'b_*'))):
        plans.append(plan_from(open(f).read(), r'^\\\* <(\w+)(?:\(([^)]*)\))?'))
    return plans


def impl_check(sc, runs, tag):
    """Replay the taken schedules + projections in PollLoop.tla (standard parameters). Returns (followed_all, consumed, total)."""
    wd = sc.path('pli_' + tag)
    os.makedirs(wd, exist_ok=True)
    for f in ('PollLoop.tla', 'TracePLImpl.tla'):
        shutil.copy(os.path.join(vlib.SPEC, f), wd)
    open(os.path.join(wd, 'TracePLImpl.cfg'), 'w').write(
        'SPECIFICATION TSpec\nPOSTCONDITION Report\nCHECK_DEADLOCK FALSE\nCONSTANTS\n  Trigs = {"t1", "t2"}\n  MaxCalls = 2\n  LTs = {"a", "b"}\n  ETs = {"e1"}\n'
        '  Size0 = 2\n  MaxSize = 8\n  WithClose = TRUE\n  MaxSend = 2\n  Dev_RearmBeforeDrain = FALSE\n  Dev_GrowAfterWait = FALSE\n  Dev_NoCoalesce = FALSE\n')
    n = 0
    blank = {'name': '', 'flag': 0, 'size': 0, 'at': 0, 'i': 0, 'n': 0, 'close': 0}
    with open(os.path.join(wd, 'sched.ndjson'), 'w') as f:
        for r, close in runs:
            f.write(json.dumps(dict(blank, g='reset', close=1 if close else 0)) + '\n')
            n += 1
            started = set()
            for name, pj in zip(r['info']['taken'], r['info']['proj']):
                if ':' in name:
                    g, nm = name.split(':')
                elif name == 'loop':
                    g, nm = 'loop', ''
                elif name == 'closer':
                    g, nm = 'k', ''
                else:
                    g, nm = 't', name
                if ':' not in name and name not in started:
                    started.add(name)     # the actor's start step has no counterpart in the model
                    continue
                f.write(json.dumps({'g': g, 'name': nm, 'flag': pj[0], 'size': pj[1], 'at': pj[2], 'i': pj[3], 'n': pj[4], 'close': 0}) + '\n')
                n += 1
    p = vlib.run(['java', '-Xss64m', '-cp', vlib.TLA_CP, 'tlc2.TLC', '-workers', '1', '-metadir', os.path.join(wd, 'md'), '-config', 'TracePLImpl.cfg', 'TracePLImpl.tla'],
                 cwd=wd, timeout=1200, check=False)
    m = re.search(r'<<\s*"IMPL-RESULT",\s*(\d+),\s*(\d+)\s*>>', p.stdout)
    if not m:
        raise vlib.Inconclusive('PollLoop impl-level trace validation failed:\n' + p.stdout[-2000:])
    return int(m.group(1)) == n, int(m.group(1)), n


def scenarios(sc, tier, seed):
    scs = []
    # window schedules: counterexamples of the modelled deviations
    for cfg in ('MC_PollLoop_DevRearm.cfg', 'MC_PollLoop_DevGrow.cfg'):
        o, _ = tlc_run(sc, cfg, cfg[:-4], workers=1, timeout=900)
        plan = plan_from(o, r'^State \d+: <(\w+)(?:\(([^)]*)\))?')
        if not plan:
            raise vlib.Inconclusive('no counterexample from %s' % cfg)
        scs.append(dict(STD, id='tlc-%s' % cfg[12:-4], mode='controlled', seed=1, strategy='plan', plan=with_start_steps(plan), close=False, kind='window'))
    for i, plan in enumerate(sim_plans(sc, 200 if tier == 'quick' else 12000, seed)):
        scs.append(dict(STD, id='sim-%d-%d' % (seed, i), mode='controlled', seed=seed * 1000 + i, strategy='plan', plan=with_start_steps(plan), close='closer' in plan, kind='sim'))
    rnd = random.Random(seed * 17 + 3)
    for i in range(600 if tier == 'quick' else 60000):
        std = rnd.random() < 0.5
        s = dict(STD) if std else {'trigs': rnd.randint(1, 3), 'calls': rnd.randint(1, 4), 'lts': rnd.randint(0, 4), 'ets': rnd.randint(0, 2), 'sends': rnd.randint(1, 3), 'size0': rnd.choice([1, 2, 2, 4])}
        scs.append(dict(s, id='rnd-%d-%d' % (seed, i), mode='controlled', seed=seed * 100000 + i, strategy=rnd.choice(['random', 'random', 'pct']), plan=[], close=rnd.random() < 0.5, kind='rnd'))
    return scs


def free_scenarios(tier, seed):
    rnd = random.Random(seed * 5 + 1)
    scs = []
    sizes = [126, 127, 128, 129, 130, 255, 256, 257] if tier == 'quick' else [120, 126, 127, 128, 129, 130, 200, 254, 255, 256, 257, 258, 300, 511, 512, 513]
    for k, tot in enumerate(sizes):
        for etfirst in (True, False):
            ets = rnd.choice([1, 2, 3])
            scs.append({'id': 'big-%d-%d-%s' % (seed, tot, 'ef' if etfirst else 'lf'), 'mode': 'bigbatch', 'seed': seed, 'lts': tot - ets, 'ets': ets, 'etfirst': etfirst,
                        'trigs': 0, 'calls': 0, 'sends': 0, 'close': False, 'size0': 128, 'strategy': 'free', 'plan': [], 'kind': 'free'})
    for k in range(12 if tier == 'quick' else 300):
        scs.append({'id': 'storm-%d-%d' % (seed, k), 'mode': 'storm', 'seed': seed, 'lts': 0, 'ets': 0, 'etfirst': False, 'trigs': rnd.choice([2, 4, 8]),
                    'calls': rnd.choice([2000, 20000, 50000]), 'sends': 0, 'close': rnd.random() < 0.5, 'size0': 128, 'strategy': 'free', 'plan': [], 'kind': 'free'})
    return scs


def run(sc, binary, pid, tier, seed, replay=None):
    """Returns (violations [(rule, scenario, result)], coverage dict)."""
    main_cfgs = ['MC_PollLoop_NoClose.cfg'] if tier == 'quick' else ['MC_PollLoop_NoClose.cfg', 'MC_PollLoop.cfg']
    states = trans = 0
    for cfg in main_cfgs:
        out, _ = tlc_run(sc, cfg, cfg[:-4], timeout=2400)
        if not vlib.tlc_ok(out):
            raise vlib.Inconclusive('PollLoop.tla exhaustive check (%s) did not pass: %s' % (cfg, vlib.tlc_violation(out) or out[-800:]))
        st = vlib.tlc_stats(out)
        states, trans = states + st[1], trans + st[0]
    if replay:
        scs = [replay]
    else:
        scs = scenarios(sc, tier, seed)
    ctrl = [s for s in scs if s['mode'] == 'controlled']
    res, crashed = conn.run_scenarios(sc, binary, ctrl, 'pl', procs=12, test='TestVerifPollLoop')
    if crashed:
        raise vlib.Inconclusive('PollLoop harness process died: ' + crashed[0][1][-600:])
    if not replay:
        base = [s for s in ctrl if s['kind'] == 'rnd'][:40 if tier == 'quick' else 1500]
        st_scs = conn.stall_variants(base, res, per_scenario=12, rnd=random.Random(seed), skip_actors=())
        r2, crashed = conn.run_scenarios(sc, binary, st_scs, 'pls', procs=12, test='TestVerifPollLoop')
        if crashed:
            raise vlib.Inconclusive('PollLoop harness process died: ' + crashed[0][1][-600:])
        res.update(r2)
        scs += st_scs
        free = free_scenarios(tier, seed)
    else:
        free = []
    if replay and replay['mode'] != 'controlled':
        free, ctrl = [replay], []
    r3, crashed = conn.run_scenarios(sc, binary, free, 'plf', procs=4, test='TestVerifPollLoop')
    if crashed:
        raise vlib.Inconclusive('PollLoop free-running process died: ' + crashed[0][1][-600:])
    res.update(r3)
    scs = [s for s in scs if s['mode'] == 'controlled'] + free
    setup = [s['id'] for s in scs if s['id'] in res and str(res[s['id']]['info'].get('stuck', '')).startswith('setup')]
    if len(setup) * 5 > len(scs):
        raise vlib.Inconclusive('%d poll-loop scenarios could not be set up: %s' % (len(setup), res[setup[0]]['info']['stuck']))
    order = [s['id'] for s in scs if s['id'] in res and s['id'] not in setup]
    vs, nlines, tst = conn.validate(sc, res, order, 'pl', module='TracePollLoop', deps=('PollLoopObs.tla',), stop='__none__')
    byid = {s['id']: s for s in scs}
    std = [(res[s['id']], s['close']) for s in scs if s['mode'] == 'controlled' and all(s[k] == STD[k] for k in STD) and s['id'] in res and not res[s['id']]['info'].get('stuck')][:600]
    followed, consumed, total = impl_check(sc, std, 'std') if std else (True, 0, 0)
    out = []
    seen = set()
    for v in vs:
        if (v['scenario'], v['rule']) in seen:
            continue
        seen.add((v['scenario'], v['rule']))
        out.append((v['rule'], byid[v['scenario']], res[v['scenario']]))
    drift = sum(1 for s in scs if s.get('strategy') == 'plan' and res.get(s['id'], {}).get('info', {}).get('drift', 0) > 0)
    cov = {'pollloop_states': states, 'pollloop_transitions': trans, 'pollloop_executions': len(order),
           'pollloop_window_schedules': len([s for s in scs if s['id'].startswith('tlc-')]), 'pollloop_simulated_schedules': len([s for s in scs if s['id'].startswith('sim-')]),
           'pollloop_single_stall_variants': len([s for s in scs if '~' in s['id']]), 'pollloop_free_running': len(free), 'pollloop_plans_that_drifted': drift,
           'pollloop_impl_spec_conformance': {'schedules_checked': len(std), 'steps_followed': consumed, 'steps_total': total, 'all_followed': followed},
           'pollloop_trace_events': nlines}
    if not followed:
        vlib.log('note: PollLoop.tla could not follow a recorded schedule (line %d of %d): the code no longer matches the implementation-shaped spec' % (consumed + 1, total))
    return out, cov
