"""C17: mux.ShardQueue. Impl-shaped spec ShardQueue.tla model-checked exhaustively; TLC counterexamples / simulated behaviours replayed as
schedules on the real ShardQueue under a controlled scheduler; every execution validated against ShardQueueObs.tla (observable) and, as a
conformance check, against ShardQueue.tla itself (TraceSQImpl.tla)."""
import json, os, random, re, shutil, subprocess, time, glob
import vlib, tlaval, conn


def tlc_run(sc, cfg, tag, workers=12, timeout=1200, extra=()):
    wd = sc.path('sq_' + tag)
    os.makedirs(wd, exist_ok=True)
    shutil.copy(os.path.join(vlib.SPEC, 'ShardQueue.tla'), wd)
    shutil.copy(os.path.join(vlib.SPEC, cfg), wd)
    p = vlib.run(['java', '-XX:+UseParallelGC', '-cp', vlib.TLA_CP, 'tlc2.TLC', '-workers', str(workers), '-metadir', os.path.join(wd, 'md'), '-config', cfg] + list(extra) + ['ShardQueue.tla'],
                 cwd=wd, timeout=timeout, check=False)
    return p.stdout, wd


def plan_from_trace(out):
    plan = []
    for m in re.finditer(r'^State \d+: <(\w+)(?:\(([^)]*)\))?', out, re.M):
        lab, arg = m.group(1), (m.group(2) or '').strip('"')
        if lab.startswith('A_'):
            plan.append(arg)
        elif lab == 'WStep':
            plan.append('w' + arg)
        elif lab.startswith('C_'):
            plan.append('closer')
    return plan


def with_start_steps(plan):
    """the harness parks every actor once before its body starts: one extra step per actor, before its first model step"""
    out, seen = [], set()
    for n in plan:
        if n not in seen:
            seen.add(n)
            out.append(n)
        out.append(n)
    return out


def cfg_params(cfg):
    s = open(os.path.join(vlib.SPEC, cfg)).read()
    adders = len(re.search(r'Adders = \{([^}]*)\}', s).group(1).split(','))
    return {'shards': int(re.search(r'NShards = (\d+)', s).group(1)), 'adders': adders, 'addsper': int(re.search(r'AddsPer = (\d+)', s).group(1))}


def sim_plans(sc, n, seed):
    out, wd = tlc_run(sc, 'MC_ShardQueue_Sim.cfg', 'sim', workers=1, timeout=600,
                      extra=['-simulate', 'file=%s,num=%d' % (sc.path('sq_sim', 'b'), n), '-depth', '80', '-seed', str(seed)])
    plans = []
    for f in sorted(glob.glob(sc.path('sq_sim', 'b_*'))):
        txt = open(f).read()
        plan = []
        for m in re.finditer(r'^\\\* <(\w+)(?:\(([^)]*)\))?', txt, re.M):
            lab, arg = m.group(1), (m.group(2) or '').strip('"')
            if lab.startswith('A_'):
                plan.append(arg)
            elif lab == 'WStep':
                plan.append('w' + arg)
            elif lab.startswith('C_'):
                plan.append('closer')
        plans.append(plan)
    return plans


def impl_check(sc, runs, params, tag):
    """Validate the taken schedules of `runs` (same params) against ShardQueue.tla. Returns (per-run results, followed_all)."""
    wd = sc.path('sqi_' + tag)
    os.makedirs(wd, exist_ok=True)
    for f in ('ShardQueue.tla', 'TraceSQImpl.tla'):
        shutil.copy(os.path.join(vlib.SPEC, f), wd)
    adders = ', '.join('"a%d"' % i for i in range(1, params['adders'] + 1))
    open(os.path.join(wd, 'TraceSQImpl.cfg'), 'w').write(
        'SPECIFICATION TSpec\nPOSTCONDITION Report\nCHECK_DEADLOCK FALSE\nCONSTANTS\n  NShards = %d\n  Adders = {%s}\n  AddsPer = %d\n  Dev_TrigBeforeRing = FALSE\n  Dev_EarlyClosed = FALSE\n'
        % (params['shards'], adders, params['addsper']))
    n = 0
    with open(os.path.join(wd, 'sched.ndjson'), 'w') as f:
        for i, r in enumerate(runs):
            started = set()
            for name, pj in zip(r['info']['taken'], r['info']['proj']):
                if name == 'late':        # the late adder is not a process of the model (its Add is ignored: no shared state changes)
                    continue
                if name not in started:   # the actor's start step has no counterpart in the model
                    started.add(name)
                    continue
                ev = {'g': 'a' if name.startswith('a') else ('w' if name.startswith('w') else 'c'), 'name': name, 'n': int(name[1:]) if name.startswith('w') else 0,
                      'trigger': pj[0], 'state': pj[1], 'runnum': pj[2], 'w': pj[3], 'r': pj[4]}
                f.write(json.dumps(ev) + '\n')
                n += 1
            f.write(json.dumps({'g': 'reset', 'name': '', 'n': i, 'trigger': 0, 'state': 0, 'runnum': 0, 'w': 0, 'r': 0}) + '\n')
            n += 1
    p = vlib.run(['java', '-Xss64m', '-cp', vlib.TLA_CP, 'tlc2.TLC', '-workers', '1', '-metadir', os.path.join(wd, 'md'), '-config', 'TraceSQImpl.cfg', 'TraceSQImpl.tla'],
                 cwd=wd, timeout=900, check=False)
    m = re.search(r'<<\s*"IMPL-RESULT",(.*?)>>\s*\n(?=Model checking|Finished|The|$)', p.stdout, re.S)
    if not m:
        raise vlib.Inconclusive('impl-level trace validation failed:\n' + p.stdout[-2000:])
    val = tlaval.parse('<<"IMPL-RESULT",' + m.group(1) + '>>')
    per = {r[0]: {'closewaits_at_ret': r[1], 'atmostonce': r[2], 'nothingstranded': r[3]} for r in val[3]}
    return per, val[1][0] == n, val[1][0], n


def main(pid, tier, replay_path=None):
    t0 = time.time()
    seed = vlib.seed()
    findings = vlib.load_findings(pid)
    violations, known_hit, samples = [], {}, []
    try:
        with vlib.Scratch('sq') as sc:
            binary = vlib.build_harness(sc, './mux', instrumented_pool=False)
            # 1. design level: the implementation-shaped model satisfies the properties it can (exhaustive)
            main_cfg = 'MC_ShardQueue_quick.cfg' if tier == 'quick' else 'MC_ShardQueue.cfg'
            out, _ = tlc_run(sc, main_cfg, 'main', timeout=2400)
            if not vlib.tlc_ok(out):
                raise vlib.Inconclusive('ShardQueue.tla exhaustive check did not pass: %s' % (vlib.tlc_violation(out) or out[-800:]))
            st = vlib.tlc_stats(out)
            scs = []
            if replay_path:
                scs = [json.load(open(replay_path))['scenario']]
            else:
                # 2. schedules from TLC: counterexamples of the as-is model (expected: finding F14) and of the modelled deviations (window schedules)
                for cfg, kind in (('MC_ShardQueue_CloseWaits.cfg', 'asis'), ('MC_ShardQueue_OneAdder.cfg', 'asis'),
                                  ('MC_ShardQueue_DevTrig.cfg', 'window'), ('MC_ShardQueue_DevClosed.cfg', 'window')):
                    o, _ = tlc_run(sc, cfg, cfg[:-4], workers=1, timeout=900)
                    plan = plan_from_trace(o)
                    if not plan:
                        raise vlib.Inconclusive('no counterexample from %s' % cfg)
                    prm = cfg_params(cfg)
                    scs.append(dict(prm, id='tlc-%s' % cfg[13:-4], seed=1, strategy='plan', plan=with_start_steps(plan), close=True, lateadd=False, kind=kind))
                for i, plan in enumerate(sim_plans(sc, 300 if tier == 'quick' else 5000, seed)):
                    scs.append({'id': 'sim-%d-%d' % (seed, i), 'seed': seed * 1000 + i, 'strategy': 'plan', 'plan': with_start_steps(plan), 'shards': 2, 'adders': 2, 'addsper': 2, 'close': True, 'lateadd': False, 'kind': 'sim'})
                rnd = random.Random(seed * 31 + 7)
                for i in range(1500 if tier == 'quick' else 40000):
                    scs.append({'id': 'rnd-%d-%d' % (seed, i), 'seed': seed * 100000 + i, 'strategy': rnd.choice(['random', 'random', 'pct']), 'plan': [],
                                'shards': rnd.choice([1, 2, 2, 3]), 'adders': rnd.randint(1, 3), 'addsper': rnd.randint(1, 3), 'close': rnd.random() < 0.7,
                                'lateadd': rnd.random() < 0.2, 'kind': 'rnd', 'nilmod': rnd.choice([0, 0, 2, 3, 11])})
            res, crashed = conn.run_scenarios(sc, binary, scs, 'q', procs=12, test='TestVerifShardQueue')
            if crashed:
                raise vlib.Inconclusive('ShardQueue harness process died: ' + crashed[0][1][-600:])
            vs, nlines, tst = conn.validate(sc, res, [s['id'] for s in scs], 'q', module='TraceShardQueue', deps=('ShardQueueObs.tla',))
            byid = {s['id']: s for s in scs}
            # 3. conformance with the implementation-shaped spec (a sample of the schedules with the standard parameters)
            std = [res[s['id']] for s in scs if s['shards'] == 2 and s['adders'] == 2 and s['addsper'] == 2 and not s.get('lateadd') and s['id'] in res][:400]
            per, followed, consumed, total = impl_check(sc, std, {'shards': 2, 'adders': 2, 'addsper': 2}, 'std') if std else ({}, True, 0, 0)
            seen = set()
            for v in vs:
                if not v['rule'].startswith(pid + '.') or (v['scenario'], v['rule']) in seen:
                    continue
                seen.add((v['scenario'], v['rule']))
                s0, r = byid[v['scenario']], res[v['scenario']]
                # is this the design defect of the as-is model?  ask the model: same schedule, same parameters
                kf = None
                if v['rule'] == 'C17.close_returned_before_an_earlier_getter_was_handled':
                    p1, fol, _, _ = impl_check(sc, [r], s0, 'k%d' % len(seen))
                    if fol and p1.get(0) and p1[0]['closewaits_at_ret'] is False:
                        kf = next((f for f in findings if f['id'] == 'F14'), None)
                if kf:
                    known_hit[kf['id']] = kf
                    continue
                vlib.log('violation %s in %s (%s)' % (v['rule'], v['scenario'], {k: s0[k] for k in ('shards', 'adders', 'addsper', 'close', 'lateadd')}))
                vlib.log('   schedule: ' + ' '.join(r['info']['taken']))
                vlib.log('   events: ' + ' '.join('%s:%s:%s' % (e['g'], e['e'], e['n']) for e in r['events']))
                if len(violations) < 6:
                    s1 = dict(s0); s1['strategy'], s1['plan'] = 'plan', r['info']['taken']
                    violations.append(vlib.save_replay(pid, '%s_%d' % (tier, len(violations)), {'property': pid, 'rule': v['rule'], 'scenario': s1, 'events': r['events']}))
            for s in scs[:2] + scs[4:5]:
                r = res.get(s['id'])
                if r:
                    samples.append({'scenario': {k: s[k] for k in s if k != 'plan'}, 'schedule_taken': r['info']['taken'][:60], 'events': ['%s:%s:%s' % (e['g'], e['e'], e['n']) for e in r['events'][:30]]})
            drift = sum(1 for s in scs if s['strategy'] == 'plan' and res.get(s['id'], {}).get('info', {}).get('drift', 0) > 0)
            cov = {'states': st[1], 'transitions': st[0], 'traces_validated_against_impl': len(res), 'samples': samples,
                   'tlc_counterexample_schedules_replayed': len([s for s in scs if s['id'].startswith('tlc-')]),
                   'tlc_simulated_schedules_replayed': len([s for s in scs if s['id'].startswith('sim-')]), 'plans_that_drifted': drift,
                   'impl_spec_conformance': {'schedules_checked': len(std), 'steps_followed': consumed, 'steps_total': total, 'all_followed': followed},
                   'trace_events_validated': nlines, 'known_findings_matched': sorted(known_hit),
                   'spec_modules': vlib.spec_hashes(['ShardQueue.tla', 'ShardQueueObs.tla', 'TraceShardQueue.tla', 'TraceSQImpl.tla']),
                   'explanation': 'states/transitions: exhaustive TLC check of the implementation-shaped ShardQueue.tla (AtMostOnce, TriggerNonNeg, NothingStranded); real executions: '
                                  'TLC counterexample/simulated schedules and random/PCT schedules on the real ShardQueue (every atomic op a schedule point), validated against '
                                  'ShardQueueObs.tla and (conformance) ShardQueue.tla'}
            if not followed and not violations:
                vlib.log('note: the implementation-shaped spec could not follow a recorded schedule (step %d of %d): the code no longer matches ShardQueue.tla' % (consumed, total))
            vlib.write_evidence(pid, tier, 'model_checking', cov, time.time() - t0, len(violations), ['TLC/SANY', 'controlled scheduler of the mux harness', 'connection double (Append/Flush recorded)'])
    except vlib.Inconclusive as e:
        vlib.log('INCONCLUSIVE: %s' % e)
        if violations:
            vlib.finish(pid, violations, [])
        vlib.finish(pid, [], [], inconclusive=str(e).splitlines()[0][:200])
    vlib.finish(pid, violations, ['%s %s' % (k, known_hit[k]['what']) for k in sorted(known_hit)])
