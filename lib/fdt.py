"""C15: descriptor lifecycles validated against FdTable.tla."""
import json, os, random, time
import vlib, conn

KINDS = ['listener', 'convert', 'serve', 'dialrefused', 'dialtimeout', 'dialunix', 'fdconn', 'detach', 'poller', 'fdconn_badfd']


def gen(n, seed):
    rnd = random.Random(seed * 65537 + 11)
    out = []
    for i in range(n):
        k = rnd.randint(1, 4)
        kinds = [rnd.choice(KINDS) for _ in range(k)]
        if i < len(KINDS):
            kinds[0] = KINDS[i]  # every lifecycle at least once
        if i % 10 == 9:
            kinds = ['poller_nofile']  # changes RLIMIT_NOFILE: runs alone
        out.append({'id': 'fd-%d-%d' % (seed, i), 'seed': seed * 1000 + i, 'kinds': kinds})
    return out


def main(pid, tier, replay_path=None):
    t0 = time.time()
    seed = vlib.seed()
    findings = vlib.load_findings(pid)
    violations, samples, known_hit = [], [], {}
    try:
        with vlib.Scratch('fd') as sc:
            binary = vlib.build_harness(sc, '.', instrumented_pool=True)
            progs = [json.load(open(replay_path))['scenario']] if replay_path else gen(1200 if tier == 'quick' else 20000, seed)
            res, crashed = conn.run_scenarios(sc, binary, progs, 'f', procs=6, test='TestVerifFdPrograms')
            if crashed:
                raise vlib.Inconclusive('descriptor lifecycle process died: ' + crashed[0][1][-800:])
            vs, nlines, st = conn.validate(sc, res, [p['id'] for p in progs], 'f', module='TraceFd', deps=('FdTable.tla',), stop='__none__')
            byid = {p['id']: p for p in progs}
            seen = set()
            for v in vs:
                if not v['rule'].startswith(pid + '.'):
                    continue
                r = res[v['scenario']]
                ev = r['events'][v['line']] if v['line'] < len(r['events']) else {}
                kf = None
                for f in findings:
                    sig = f.get('signature', {})
                    if sig.get('rule') == v['rule'] and (not sig.get('tag') or sig['tag'] == ev.get('k')):
                        kf = f
                if kf:
                    known_hit[kf['id']] = kf
                    continue
                key = (v['rule'], ev.get('k'))
                if key in seen:
                    continue
                seen.add(key)
                vlib.log('violation %s in %s (%s) at event %d: %s' % (v['rule'], v['scenario'], byid[v['scenario']]['kinds'], v['line'], ev))
                for e in r['events'][max(0, v['line'] - 8):v['line'] + 1]:
                    vlib.log('     %-8s tag=%-6s fd=%s m=%s' % (e['e'], e['k'], e['n'], e['m']))
                if len(violations) < 6:
                    violations.append(vlib.save_replay(pid, '%s_%d' % (tier, len(violations)), {'property': pid, 'rule': v['rule'], 'line': v['line'], 'scenario': byid[v['scenario']], 'events': r['events'][max(0, v['line'] - 30):v['line'] + 2]}))
            closes = sum(1 for r in res.values() for e in r['events'] if e['e'] == 'FdClose')
            opens = sum(1 for r in res.values() for e in r['events'] if e['e'] == 'FdOpen')
            # the dial retry after a TCP self-connect (private network namespace; skipped where unshare is not permitted): the discarded
            # socket is a "descriptor of a failed dial" too
            nself = 0
            if not replay_path or progs[0].get('peer') == 'selfconnect':
                import dial
                if replay_path:
                    progs = []
                rself, sself = dial.selfconnect_runs(sc, binary, seed, 3 if tier == 'quick' else 40)
                nself = len(rself)
                for s0 in sself:
                    census = [e for e in rself[s0['id']]['events'] if e['e'] == 'Census']
                    if census and census[-1]['n'] > 0 and len(violations) < 6:
                        vlib.log('violation C15.descriptor_left_open in %s: %d descriptor(s) opened by a dial that met itself and dialled again are still open' % (s0['id'], census[-1]['n']))
                        violations.append(vlib.save_replay(pid, '%s_self%d' % (tier, len(violations)), {'property': pid, 'rule': 'C15.descriptor_left_open', 'scenario': s0, 'events': rself[s0['id']]['events'][:100]}))
            for p in progs[:2]:
                r = res.get(p['id'])
                if r:
                    samples.append({'program': p, 'events': ['%s:%s:%s' % (e['e'], e['k'], e['n']) for e in r['events'][:40]]})
            cov = {'self_connect_dials': nself, 'states': st.get('states', 1), 'transitions': st.get('transitions', 1), 'traces_validated_against_impl': len(res), 'samples': samples,
                   'opens_audited': opens, 'closes_audited': closes, 'programs': len(res), 'known_findings_matched': sorted(known_hit),
                   'spec_modules': vlib.spec_hashes(['FdTable.tla', 'TraceFd.tla']),
                   'explanation': 'concurrent lifecycles of listeners, event loops, dials (ok/refused/timed out/unix), NewFDConnection, Detach and pollers with a foreign '
                                  'descriptor-churn goroutine; every open/close audit event validated by TLC against FdTable.tla; /proc/self/fd compared before/after; '
                                  'foreign descriptors verified by inode'}
            vlib.write_evidence(pid, tier, 'model_checking', cov, time.time() - t0, len(violations),
                                ['TLC/SANY', 'audit points cover every close(2)/descriptor-creating call site of the linux build', '/proc/self/fd', 'fcntl(F_GETFD) at the audit point'])
    except vlib.Inconclusive as e:
        vlib.log('INCONCLUSIVE: %s' % e)
        if violations:
            vlib.finish(pid, violations, [])
        vlib.finish(pid, [], [], inconclusive=str(e).splitlines()[0][:200])
    vlib.finish(pid, violations, ['%s %s' % (k, known_hit[k]['what']) for k in sorted(known_hit)])
