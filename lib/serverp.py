"""C13 (model part): Server.tla = Conn.tla + the listener's poller (accept, onAccept) + Shutdown's sweep, model-checked exhaustively;
TLC counterexamples of the modelled deviations (the code before the repairs F17, F8, F8b, F15) and TLC-simulated behaviours replayed as
schedules on the real server under the controlled scheduler; every execution validated against ServerObs.tla (by the caller) and replayed
step by step in Server.tla (TraceServerImpl.tla)."""
import json, os, re, shutil, glob
import vlib, tlaval

LNAME, QNAME = 'poller2', 'poller1'      # with two manual pollers the listener is registered on the second one, the connection on the first


def tlc_run(sc, cfg, tag, workers=12, timeout=1800, extra=()):
    wd = sc.path('sv_' + tag)
    os.makedirs(wd, exist_ok=True)
    for f in ('Server.tla', 'Conn.tla', cfg):
        shutil.copy(os.path.join(vlib.SPEC, f), wd)
    p = vlib.run(['java', '-XX:+UseParallelGC', '-cp', vlib.TLA_CP, 'tlc2.TLC', '-workers', str(workers), '-metadir', os.path.join(wd, 'md'), '-config', cfg] + list(extra) + ['Server.tla'],
                 cwd=wd, timeout=timeout, check=False)
    return p.stdout, wd


def _plan(txt, pat):
    """plan (actor names) and the client's operations, from a TLC behaviour"""
    plan, ops = [], []
    for lab, arg in re.findall(pat, txt, re.M):
        if lab == 'LNext':
            plan.append(LNAME)
        elif lab == 'SNext':
            plan.append('shutdown')
        elif lab == 'PollerS':
            plan.append(QNAME)
        elif lab == 'HupS':
            plan.append('hup1')
        elif lab == 'TaskS':
            plan.append('task' + arg)
        elif lab == 'ClientConnect':
            plan.append('client1')
        elif lab == 'ClientSend':
            plan.append('client1'); ops.append(['send', 1])
        elif lab == 'ClientClose':
            plan.append('client1'); ops.append(['close'])
    return plan, ops


def scenario(sid, txt, pat, kind):
    plan, ops = _plan(txt, pat)
    return {'id': sid, 'seed': 1, 'strategy': 'plan', 'plan': plan, 'clients': [ops], 'onconnect': False, 'handler': 'quick', 'shutdown': True, 'deadline': 1000,
            'pollers': 2, 'pusher': False, 'holdsetup': True, 'svkind': kind}


CE = r'^State \d+: <(\w+)(?:\((\d+)\))?'
SIM = r'^\\\* <(\w+)(?:\((\d+)\))?'


def scenarios(sc, tier, seed):
    scs = []
    for cfg in ('MC_Server_DevF17.cfg', 'MC_Server_DevF8.cfg', 'MC_Server_DevF8b.cfg', 'MC_Server_DevF15.cfg'):
        o, _ = tlc_run(sc, cfg, cfg[:-4], workers=1)
        s = scenario('tlc-%s' % cfg[10:-4], o, CE, 'window')
        if len(s['plan']) < 2:
            raise vlib.Inconclusive('no counterexample from %s' % cfg)
        scs.append(s)
    n = 150 if tier == 'quick' else 4000
    o, wd = tlc_run(sc, 'MC_Server_Sim.cfg', 'sim', workers=1, extra=['-simulate', 'file=%s,num=%d' % (sc.path('sv_sim', 'b'), n), '-depth', '120', '-seed', str(seed)])
    for i, f in enumerate(sorted(glob.glob(sc.path('sv_sim', 'b_*')))):
        scs.append(scenario('svsim-%d-%d' % (seed, i), open(f).read(), SIM, 'sim'))
    return scs


def exhaustive(sc, tier):
    out, _ = tlc_run(sc, 'MC_Server.cfg', 'main')
    if not vlib.tlc_ok(out):
        raise vlib.Inconclusive('Server.tla exhaustive check did not pass: %s' % (vlib.tlc_violation(out) or out[-800:]))
    st = vlib.tlc_stats(out)
    return st[1], st[0]


def impl_check(sc, runs, tag):
    wd = sc.path('svi_' + tag)
    os.makedirs(wd, exist_ok=True)
    for f in ('Server.tla', 'Conn.tla', 'TraceServerImpl.tla'):
        shutil.copy(os.path.join(vlib.SPEC, f), wd)
    open(os.path.join(wd, 'TraceServerImpl.cfg'), 'w').write(
        'SPECIFICATION TSpec\nPOSTCONDITION Report\nCHECK_DEADLOCK FALSE\nCONSTANTS\n  MaxTasks = 8\n  MaxSend = 8\n  WithCloser = FALSE\n  WithOnConnect = FALSE\n  WithOnDisconnect = FALSE\n  HandlerCloses = FALSE\n'
        '  Dev_NoConnRecheck = FALSE\n  Dev_NoInputRecheck = FALSE\n  Dev_NoHupTask = FALSE\n  Dev_HupLockTwice = FALSE\n  MaxSweeps = 40\n  AnyDeadline = TRUE\n'
        '  Dev_NoAccepting = FALSE\n  Dev_NoRecheck = FALSE\n  Dev_RecheckActive = FALSE\n  Dev_CountIdleOnly = FALSE\n')
    blank = {'g': '', 'i': 0, 'pt': 0, 'k': 0, 'closing': 0, 'connecting': 0, 'processing': 0, 'st': 0, 'inlen': 0, 'opst': 0, 'det': 0, 'tracked': 0, 'accepting': 0, 'cbrun': 0}
    n = 0
    with open(os.path.join(wd, 'sched.ndjson'), 'w') as f:
        for s, r in runs:
            if not r['info'].get('proj'):
                continue
            f.write(json.dumps(dict(blank, g='reset')) + '\n')
            n += 1
            h = r['info'].get('hold', 0)
            ci = -1
            ops = s['clients'][0]
            for (name, gate), pj in zip(r['info']['gates'][h:], r['info']['proj'][h:]):
                i, k = 0, 0
                if name.startswith('task'):
                    g, i = 't', int(name[4:])
                elif name == LNAME:
                    g = 'l'
                elif name == QNAME:
                    g = 'q'
                elif name.startswith('hup'):
                    g = 'h'
                elif name == 'shutdown':
                    g = 's'
                elif name == 'client1':
                    g = 'client'
                    if ci == -1:
                        k = -1
                    else:
                        op = ops[ci]
                        k = op[1] if op[0] == 'send' else 0
                    ci += 1
                else:
                    break
                pt = int(gate.split('#')[0]) if gate != 'env' else 0
                f.write(json.dumps(dict(blank, g=g, i=i, pt=pt, k=k, closing=pj[0], connecting=pj[1], processing=pj[2], st=pj[3], inlen=pj[4], opst=pj[5], det=pj[6],
                                        tracked=pj[7], accepting=pj[8], cbrun=pj[9])) + '\n')
                n += 1
    p = vlib.run(['java', '-Xss64m', '-cp', vlib.TLA_CP, 'tlc2.TLC', '-workers', '1', '-metadir', os.path.join(wd, 'md'), '-config', 'TraceServerImpl.cfg', 'TraceServerImpl.tla'],
                 cwd=wd, timeout=1500, check=False)
    m = re.search(r'<<\s*"IMPL-RESULT",\s*(\d+),\s*(\d+),\s*(\{.*?\})\s*>>', p.stdout, re.S)
    if not m:
        raise vlib.Inconclusive('Server impl-level trace validation failed:\n' + p.stdout[-2000:])
    return int(m.group(1)), n, set(tlaval.parse(m.group(3)))
