"""C19: in-contract concurrent scenarios (enumerated by TLC from RaceScenarios.tla, plus the free-running drivers of the other checks) under Go's race detector."""
import json, os, re, shutil, subprocess, time
import vlib, tlaval, stream, fdt


def scenarios_from_tlc(sc):
    wd = sc.path('rs')
    os.makedirs(wd, exist_ok=True)
    shutil.copy(os.path.join(vlib.SPEC, 'RaceScenarios.tla'), wd)
    open(os.path.join(wd, 'RaceScenarios.cfg'), 'w').write('')
    p = vlib.run(['java', '-cp', vlib.TLA_CP, 'tlc2.TLC', '-metadir', os.path.join(wd, 'md'), '-config', 'RaceScenarios.cfg', 'RaceScenarios.tla'], cwd=wd, timeout=300, check=False)
    m = re.search(r'<<\s*"SCENARIOS",(.*?)>>\s*\n(?=Starting|Computing|Finished|Model|\Z)', p.stdout, re.S)
    if not m:
        raise vlib.Inconclusive('TLC did not print the scenario set:\n' + p.stdout[-1500:])
    val = tlaval.parse('<<"SCENARIOS",' + m.group(1) + '>>')
    return [{'kind': v[0], 'cb': v[1], 'closers': v[2], 'timed': v[3]} for v in val[1]]


RACE = re.compile(r'WARNING: DATA RACE\n(.*?)\n==================', re.S)


def parse_reports(text):
    """returns list of (report text, [top netpoll frame of each access])"""
    out = []
    for m in RACE.finditer(text):
        rep = m.group(1)
        tops = []
        # the two access stacks: "Write at ... by goroutine" / "Previous read at ... by goroutine"
        for blk in re.split(r'\n\n', rep):
            if re.match(r'\s*(Previous )?(read|write|atomic read|atomic write)', blk, re.I):
                frames = re.findall(r'^\s+(\S+)\(\)\n\s+(\S+?):(\d+)', blk, re.M)
                # the access belongs to the first frame that is not standard-library / runtime code:
                # netpoll's own source -> in scope; test/harness code or another module -> not netpoll's access
                top = None
                for fn, path, line in frames:
                    if '/go-1.' in path or '/src/runtime/' in path or '/go/src/' in path or path.startswith('/usr/lib/go'):
                        continue
                    if 'cloudwego/netpoll' in fn and not path.endswith('_test.go') and '/gopkg/' not in path:
                        top = (fn, os.path.basename(path), line)
                    break
                tops.append(top)
        out.append((rep, tops))
    return out


def main(pid, tier, replay_path=None):
    t0 = time.time()
    seed = vlib.seed()
    violations, samples = [], []
    try:
        with vlib.Scratch('race') as sc:
            binary = vlib.build_harness(sc, '.', instrumented_pool=True, race=True)
            muxbin = vlib.build_harness(sc, './mux', instrumented_pool=True, race=True)
            scs = scenarios_from_tlc(sc)
            rounds = 300 if tier == 'quick' else 1200
            for i, s in enumerate(scs):
                s['id'] = 'race-%d' % i
                s['rounds'] = rounds
            jobs = []
            env0 = dict(vlib.GOENV, GORACE='halt_on_error=0')
            # the TLC-enumerated scenarios, split over processes
            procs = 8
            size = (len(scs) + procs - 1) // procs
            for k in range(procs):
                part = scs[k * size:(k + 1) * size]
                if part:
                    inp, outp = sc.path('rin_%d.json' % k), sc.path('rout_%d.ndjson' % k)
                    json.dump({'scenarios': part}, open(inp, 'w'))
                    jobs.append(('scen%d' % k, [binary, '-test.run', '^TestVerifRaceScenarios$', '-test.count=1', '-test.timeout', '1500s'], dict(env0, VERIF_IN=inp, VERIF_OUT=outp), sc.path('repo')))
            # the free-running drivers of the other checks, under the detector
            sess = stream.gen_sessions(80 if tier == 'quick' else 300, seed, False)
            json.dump({'sessions': sess, 'parallel': 4}, open(sc.path('rs_in.json'), 'w'))
            jobs.append(('stream', [binary, '-test.run', '^TestVerifStreamFree$', '-test.count=1', '-test.timeout', '1500s'], dict(env0, VERIF_IN=sc.path('rs_in.json'), VERIF_OUT=sc.path('rs_out.ndjson')), sc.path('repo')))
            progs = fdt.gen(120 if tier == 'quick' else 400, seed)
            progs = [p for p in progs if p['kinds'] != ['poller_nofile']]
            json.dump({'scenarios': progs}, open(sc.path('rf_in.json'), 'w'))
            jobs.append(('fd', [binary, '-test.run', '^TestVerifFdPrograms$', '-test.count=1', '-test.timeout', '1500s'], dict(env0, VERIF_IN=sc.path('rf_in.json'), VERIF_OUT=sc.path('rf_out.ndjson')), sc.path('repo')))
            pms = [{'id': 'pmfree-%d' % i, 'seed': seed * 100 + i, 'strategy': 'free', 'pickers': 4, 'picksper': 2, 'phases': [{'numloops': 1 + i % 3, 'lb': '', 'plan': []}, {'numloops': 1 + (i + 1) % 3, 'lb': 'random' if i % 2 else 'rr', 'plan': []}]} for i in range(20 if tier == 'quick' else 300)]
            json.dump({'scenarios': pms}, open(sc.path('rp_in.json'), 'w'))
            jobs.append(('pm', [binary, '-test.run', '^TestVerifPollManager$', '-test.count=1', '-test.timeout', '1500s'], dict(env0, VERIF_IN=sc.path('rp_in.json'), VERIF_OUT=sc.path('rp_out.ndjson')), sc.path('repo')))
            jobs.append(('mux', [muxbin, '-test.run', '^TestVerifShardQueueFree$', '-test.count=1', '-test.timeout', '1500s'], dict(env0, VERIF_OUT=sc.path('rm_out.json')), sc.path('repo', 'mux')))
            ps = [(name, subprocess.Popen(cmd, cwd=cwd, env=env, stdout=subprocess.PIPE, stderr=subprocess.STDOUT, text=True)) for name, cmd, env, cwd in jobs]
            reports, outputs, finished = [], {}, 0
            for name, p in ps:
                try:
                    o, _ = p.communicate(timeout=1700)
                except subprocess.TimeoutExpired:
                    p.kill()
                    o = ''
                outputs[name] = o
                if o and p.returncode is not None:   # ended by itself (passed, failed, race exit code 66, or died of a fault the race made possible)
                    finished += 1
                for rep, tops in parse_reports(o):
                    reports.append((name, rep, tops))
            seen = set()
            for name, rep, tops in reports:
                tops2 = [t for t in tops if t]
                # a violation: both racing accesses are in netpoll's own (non-test) code outside the documented buffer exemption
                if len(tops2) < 2 or any(t[1].startswith('nocopy_linkbuffer') for t in tops2):
                    continue
                key = tuple(sorted((t[1], t[2]) for t in tops2))
                if key in seen:
                    continue
                seen.add(key)
                vlib.log('data race in %s: %s' % (name, ' <-> '.join('%s (%s:%s)' % t for t in tops2)))
                if len(violations) < 6:
                    violations.append(vlib.save_replay(pid, '%s_%d' % (tier, len(violations)), {'property': pid, 'job': name, 'accesses': tops2, 'report': rep[:6000]}))
            if finished < len(ps) // 2 and not violations:
                raise vlib.Inconclusive('race-detector runs did not finish: ' + next(iter(outputs.values()))[-600:])
            runs = 0
            for k in range(procs):
                f = sc.path('rout_%d.ndjson' % k)
                if os.path.exists(f):
                    runs += sum(json.loads(l)['runs'] for l in open(f))
            cov = {'evaluations': runs + len(sess) + len(progs) + len(pms) + 300, 'distinct_nontrivial': len(scs) + 4,
                   'rule': 'TLC-enumerated scenario kinds of RaceScenarios.tla (each repeated with swept close delays) plus the free-running drivers of C04/C15/C18/C17 under the race detector; '
                           'distinct = distinct scenario kinds (every one runs at least two user goroutines against the pollers); a report counts only if both accesses are in netpoll non-test code '
                           'outside nocopy_linkbuffer*.go',
                   'samples': scs[:3], 'race_reports_total': len(reports), 'race_reports_in_scope': len(seen), 'jobs': [j[0] for j in jobs],
                   'spec_modules': vlib.spec_hashes(['RaceScenarios.tla'])}
            vlib.write_evidence(pid, tier, 'exploration', cov, time.time() - t0, len(violations), ['Go race detector is the oracle (it only sees accesses that overlap in a run)', 'TLC only enumerates the scenario space'])
    except vlib.Inconclusive as e:
        vlib.log('INCONCLUSIVE: %s' % e)
        if violations:
            vlib.finish(pid, violations, [])
        vlib.finish(pid, [], [], inconclusive=str(e).splitlines()[0][:200])
    vlib.finish(pid, violations, [])
