"""Common machinery for the netpoll verification checks (python3 stdlib only)."""
import json, os, re, shutil, subprocess, sys, tempfile, time, glob, hashlib

VERIF = os.path.dirname(os.path.dirname(os.path.abspath(__file__)))
REPO = os.environ.get('VERIF_REPO', '/repo')
SPEC = os.path.join(VERIF, 'spec')
HARNESS = os.path.join(VERIF, 'harness')
# developer override used only when trying the checks against seeded changes in a scratch worktree
EVDIR = os.environ.get('VERIF_EVIDENCE_DIR', os.path.join(VERIF, 'evidence'))
TLA_JAR = '/opt/veriftools/tla/tla2tools.jar'
TLA_CP = TLA_JAR + ':/opt/veriftools/tla/CommunityModules-deps.jar'
GOPKG_SRC = os.path.expanduser('~/go/pkg/mod/github.com/bytedance/gopkg@v0.1.1')

GOENV = dict(os.environ, GOFLAGS='-mod=mod', GOPROXY='off', GOSUMDB='off', GOTOOLCHAIN='local')


class Inconclusive(Exception):
    pass


def seed():
    try:
        return int(os.environ.get('VERIF_SEED', '1'))
    except ValueError:
        return 1


def log(*a):
    print(*a, file=sys.stderr, flush=True)


class Scratch:
    """A temporary directory removed on exit (outside /repo and /verif)."""

    def __init__(self, tag='v'):
        self.dir = tempfile.mkdtemp(prefix='verif-%s-' % tag)

    def path(self, *p):
        return os.path.join(self.dir, *p)

    def cleanup(self):
        shutil.rmtree(self.dir, ignore_errors=True)

    def __enter__(self):
        return self

    def __exit__(self, *a):
        self.cleanup()


def run(cmd, cwd=None, env=None, timeout=None, check=True, capture=True):
    t0 = time.time()
    try:
        p = subprocess.run(cmd, cwd=cwd, env=env, timeout=timeout, stdout=subprocess.PIPE if capture else None,
                           stderr=subprocess.STDOUT if capture else None, text=True)
    except subprocess.TimeoutExpired as e:
        raise Inconclusive('timeout after %ss: %s' % (timeout, ' '.join(cmd)[:200]))
    if check and p.returncode != 0:
        raise Inconclusive('command failed (%d): %s\n%s' % (p.returncode, ' '.join(cmd)[:300], (p.stdout or '')[-3000:]))
    return p


def build_harness(sc, pkg='.', instrumented_pool=True, race=False, extra_tags=''):
    """Copy /repo's working tree to the scratch dir, add the in-package harness files and build the test binary.
    Returns path of the test binary. pkg: '.' (netpoll) or './mux'."""
    dst = sc.path('repo')
    if not os.path.isdir(dst):
        run(['rsync', '-a', '--exclude', '.git', REPO + '/', dst + '/'])
        for f in glob.glob(os.path.join(HARNESS, 'inpkg', '*.go')):
            shutil.copy(f, dst)
        for f in glob.glob(os.path.join(HARNESS, 'inpkg_mux', '*.go')):
            shutil.copy(f, os.path.join(dst, 'mux'))
        if instrumented_pool:
            g = sc.path('gopkg')
            run(['cp', '-r', GOPKG_SRC, g])
            run(['chmod', '-R', 'u+w', g])
            for root, _, files in os.walk(os.path.join(HARNESS, 'gopkg_patch')):
                for fn in files:
                    rel = os.path.relpath(os.path.join(root, fn), os.path.join(HARNESS, 'gopkg_patch'))
                    shutil.copy(os.path.join(root, fn), os.path.join(g, rel))
            with open(os.path.join(dst, 'go.mod'), 'a') as f:
                f.write('\nreplace github.com/bytedance/gopkg => %s\n' % g)
    out = sc.path('netpoll%s%s.test' % ('_mux' if pkg != '.' else '', '_race' if race else ''))
    tags = 'verif' + (',' + extra_tags if extra_tags else '')
    cmd = ['go', 'test', '-c', '-vet=off', '-tags', tags, '-o', out]
    if race:
        cmd.append('-race')
    cmd.append(pkg)
    p = run(cmd, cwd=dst, env=GOENV, timeout=900, check=False)
    if p.returncode != 0:
        raise Inconclusive('harness build failed (the tree under test does not compile with the verification harness):\n' + p.stdout[-4000:])
    return out


def run_test_binary(binary, test, env_extra, cwd, timeout=600, args=()):
    env = dict(GOENV)
    env.update(env_extra)
    cmd = [binary, '-test.run', '^%s$' % test, '-test.count=1', '-test.timeout', '%ds' % timeout] + list(args)
    p = run(cmd, cwd=cwd, env=env, timeout=timeout + 30, check=False)
    return p


# ---------------------------------------------------------------- TLC

def tlc(sc, module, cfg, mode='check', workers=8, timeout=600, extra=(), sim=None, files=None, tag='t', depth=None,
        seed_=None, deadlock=False, dump=None, coverage=False):
    """Run TLC on spec/<module>.tla with spec/<cfg> in a scratch copy. Returns (stdout, workdir)."""
    wd = sc.path('tlc_' + tag)
    os.makedirs(wd, exist_ok=True)
    for f in glob.glob(os.path.join(SPEC, '*.tla')):
        shutil.copy(f, wd)
    shutil.copy(os.path.join(SPEC, cfg), wd)
    for f in (files or []):
        shutil.copy(f, wd)
    cmd = ['java', '-XX:+UseParallelGC', '-Xss64m', '-cp', TLA_CP]
    if mode == 'trace':
        cmd.insert(1, '-Dtlc2.tool.queue.IStateQueue=StateDeque')
    cmd += ['tlc2.TLC', '-workers', str(workers), '-metadir', os.path.join(wd, 'md'), '-config', os.path.basename(cfg)]
    if mode == 'simulate':
        cmd += ['-simulate', sim]
        if depth:
            cmd += ['-depth', str(depth)]
    if seed_ is not None:
        cmd += ['-seed', str(seed_)]
    if deadlock:
        pass
    if dump:
        cmd += ['-dump', 'dot,actionlabels', dump]
    if coverage:
        cmd += ['-coverage', '1']
    cmd += list(extra)
    cmd += [module + '.tla']
    p = run(cmd, cwd=wd, timeout=timeout, check=False)
    return p.stdout, wd, p.returncode


def tlc_stats(out):
    """Parse 'N states generated, M distinct states found' from TLC's summary."""
    m = re.search(r'(\d[\d,]*) states generated, (\d[\d,]*) distinct states found', out)
    if not m:
        return None
    return int(m.group(1).replace(',', '')), int(m.group(2).replace(',', ''))


def tlc_ok(out):
    return 'Model checking completed. No error has been found' in out


def tlc_violation(out):
    m = re.search(r'Error: (Invariant (\S+) is violated|Action property (\S+) is violated|Temporal properties were violated|Deadlock reached)', out)
    return m.group(0) if m else None


# ---------------------------------------------------------------- evidence / findings

def write_evidence(pid, tier, level, coverage, wall_s, violations, assumptions=None):
    os.makedirs(EVDIR, exist_ok=True)
    ev = {'property_id': pid, 'tier': tier, 'seed': seed(), 'level': level, 'coverage': coverage,
          'assumptions': assumptions or [], 'wall_s': round(wall_s, 2), 'violations': violations}
    with open(os.path.join(EVDIR, pid + '.json'), 'w') as f:
        json.dump(ev, f, indent=1, sort_keys=True)


def load_findings(pid):
    out = []
    p = os.path.join(VERIF, 'known_findings.jsonl')
    if os.path.exists(p):
        for l in open(p):
            l = l.strip()
            if not l or l.startswith('#'):
                continue
            j = json.loads(l)
            if j.get('property') == pid and j.get('status') == 'open':
                out.append(j)
    return out


def save_replay(pid, name, obj):
    d = os.path.join(EVDIR, 'replay')
    os.makedirs(d, exist_ok=True)
    p = os.path.join(d, '%s_%s.json' % (pid, name))
    with open(p, 'w') as f:
        json.dump(obj, f)
    return p


def spec_hashes(mods):
    out = {}
    for m in mods:
        p = os.path.join(SPEC, m)
        if os.path.exists(p):
            out[m] = hashlib.sha256(open(p, 'rb').read()).hexdigest()[:16]
    return out


def finish(pid, violations, known_lines, inconclusive=None):
    """Print the verdict lines and exit with the contract's code."""
    for k in known_lines:
        print('KNOWN-FINDING: property=%s %s' % (pid, k))
    if violations:
        for v in violations:
            print('VIOLATION property=%s replay=%s' % (pid, v))
        sys.exit(1)
    if inconclusive:
        print('INCONCLUSIVE property=%s %s' % (pid, inconclusive))
        sys.exit(2)
    print('OK property=%s' % pid)
    sys.exit(0)
