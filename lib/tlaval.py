"""Minimal reader for TLA+ values as printed by TLC (states in -simulate files, error traces, dot dumps).

Supported: integers, strings, TRUE/FALSE, model values/identifiers, sets {..}, sequences <<..>>,
records [a |-> v, ...], functions (k :> v @@ k :> v), intervals a..b (returned as list).
Records -> dict, sequences -> list, sets -> list (TLC prints them in a canonical order),
functions -> dict keyed by the python value of the key (ints/strings) or its repr.
"""
import re

_tok = re.compile(r'\s*(<<|>>|\|->|:>|@@|\.\.|[\[\]\{\}\(\),]|"(?:[^"\\]|\\.)*"|-?\d+|[A-Za-z_][A-Za-z0-9_!]*)')


def tokenize(s):
    pos = 0
    out = []
    n = len(s)
    while pos < n:
        m = _tok.match(s, pos)
        if not m:
            if s[pos:].strip() == '':
                break
            raise ValueError('bad TLA value at %r' % s[pos:pos + 40])
        out.append(m.group(1))
        pos = m.end()
    return out


class _P:
    def __init__(self, toks):
        self.t = toks
        self.i = 0

    def peek(self):
        return self.t[self.i] if self.i < len(self.t) else None

    def next(self):
        v = self.t[self.i]
        self.i += 1
        return v

    def expect(self, x):
        v = self.next()
        if v != x:
            raise ValueError('expected %s got %s' % (x, v))

    def value(self):
        v = self.atom()
        # function composition  a :> b @@ c :> d   (only appears inside parentheses)
        return v

    def atom(self):
        t = self.next()
        if t == '<<':
            out = []
            if self.peek() == '>>':
                self.next()
                return out
            while True:
                out.append(self.value())
                if self.peek() == ',':
                    self.next()
                    continue
                self.expect('>>')
                return out
        if t == '{':
            out = []
            if self.peek() == '}':
                self.next()
                return out
            while True:
                out.append(self.value())
                if self.peek() == ',':
                    self.next()
                    continue
                self.expect('}')
                return out
        if t == '[':
            d = {}
            if self.peek() == ']':
                self.next()
                return d
            while True:
                k = self.next()
                self.expect('|->')
                d[k] = self.value()
                if self.peek() == ',':
                    self.next()
                    continue
                self.expect(']')
                return d
        if t == '(':
            d = {}
            while True:
                k = self.value()
                self.expect(':>')
                v = self.value()
                d[k if isinstance(k, (int, str)) else repr(k)] = v
                if self.peek() == '@@':
                    self.next()
                    continue
                self.expect(')')
                return d
        if t[0] == '"':
            return bytes(t[1:-1], 'utf-8').decode('unicode_escape')
        if t == 'TRUE':
            return True
        if t == 'FALSE':
            return False
        if re.match(r'-?\d+$', t):
            v = int(t)
            if self.peek() == '..':
                self.next()
                hi = int(self.next())
                return list(range(v, hi + 1))
            return v
        return t  # model value / identifier


def parse(s):
    p = _P(tokenize(s))
    v = p.value()
    return v


def parse_state(text):
    """text: the body of one state as TLC prints it:  /\\ a = ...\\n/\\ b = ... (values may span lines)."""
    out = {}
    cur = None
    buf = []
    for line in text.splitlines():
        m = re.match(r'^/\\ ([A-Za-z_][A-Za-z0-9_]*) = (.*)$', line)
        if m:
            if cur is not None:
                out[cur] = parse(' '.join(buf))
            cur = m.group(1)
            buf = [m.group(2)]
        elif cur is not None:
            if line.strip() == '':
                continue
            buf.append(line.strip())
        else:
            m2 = re.match(r'^([A-Za-z_][A-Za-z0-9_]*) = (.*)$', line)
            if m2:  # single-variable spec
                cur = m2.group(1)
                buf = [m2.group(2)]
    if cur is not None:
        out[cur] = parse(' '.join(buf))
    return out


def parse_sim_file(path, only=None):
    """A file written by `tlc -simulate file=...`: returns list of (action_label, state_dict).
    `only`: optional set of variable names to parse (others skipped for speed)."""
    txt = open(path).read()
    return parse_behaviour_text(txt, only)


_state_hdr = re.compile(r'^\\\* (.*)$|^STATE_(\d+) ==', re.M)


def parse_behaviour_text(txt, only=None):
    # Format:  STATE_1 == \n /\ x = ...\n\n\* Next line ... \nSTATE_2 == ...
    states = []
    parts = re.split(r'^STATE_\d+ ==\s*$', txt, flags=re.M)
    labels = re.findall(r'^\\\* (.*)$', txt, flags=re.M)
    # parts[0] is preamble
    body = parts[1:]
    for idx, b in enumerate(body):
        b2 = re.sub(r'^\\\*.*$', '', b, flags=re.M)
        if only is not None:
            b2 = _filter_vars(b2, only)
        st = parse_state(b2)
        states.append(st)
    return states, labels


def _filter_vars(text, only):
    out = []
    keep = False
    for line in text.splitlines():
        m = re.match(r'^/\\ ([A-Za-z_][A-Za-z0-9_]*) = ', line)
        if m:
            keep = m.group(1) in only
        if keep:
            out.append(line)
    return '\n'.join(out)
