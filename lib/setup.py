"""Offline setup: SANY-parse every specification; verify the Go toolchain and the cached gopkg module are present."""
import glob, os, subprocess, sys, tempfile, shutil
sys.path.insert(0, os.path.dirname(os.path.abspath(__file__)))
import vlib
bad = 0
tmp = tempfile.mkdtemp(prefix='verif-setup-')
try:
    for f in glob.glob(os.path.join(vlib.SPEC, '*.tla')):
        shutil.copy(f, tmp)
    for f in sorted(glob.glob(os.path.join(tmp, '*.tla'))):
        p = subprocess.run(['java', '-cp', vlib.TLA_CP, 'tla2sany.SANY', os.path.basename(f)], cwd=tmp, stdout=subprocess.PIPE, stderr=subprocess.STDOUT, text=True)
        ok = p.returncode == 0 and 'Semantic errors' not in p.stdout and 'Parse Error' not in p.stdout and 'Fatal' not in p.stdout
        print(('ok   ' if ok else 'FAIL ') + os.path.basename(f))
        if not ok:
            print(p.stdout[-1500:])
            bad += 1
finally:
    shutil.rmtree(tmp, ignore_errors=True)
if not os.path.isdir(vlib.GOPKG_SRC):
    print('FAIL cached module missing: ' + vlib.GOPKG_SRC); bad += 1
p = subprocess.run(['go', 'version'], stdout=subprocess.PIPE, text=True)
print(p.stdout.strip())
sys.exit(1 if bad else 0)
