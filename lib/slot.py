"""C10: slot / descriptor reuse scenarios under the controlled scheduler (SlotObs.tla) + the stale-call cells of AfterClose."""
import json, os, random, time
import vlib, conn


def gen(n, seed):
    rnd = random.Random(seed * 104729 + 3)
    out = []
    for i in range(n):
        stale = [rnd.choice([['Release'], ['Release'], ['Write', 3], ['IsActive'], ['Close'], ['Yield']]) for _ in range(rnd.randint(0, 3))]  # (no reads: A's handler is its one reader)
        usera = [['Yield']] * rnd.randint(0, 2) + [['Close']] + stale
        peera = [['send', rnd.randint(1, 3)] for _ in range(rnd.randint(0, 3))]
        if rnd.random() < 0.5:
            peera.insert(rnd.randint(0, len(peera)), ['close'])
        if rnd.random() < 0.25:
            # A is torn down by its peer only (its close callbacks release the slot); the user never closes it but goes on calling it
            usera = [['Yield']] * rnd.randint(1, 4) + [rnd.choice([['Release'], ['Release'], ['IsActive'], ['Write', 3]]) for _ in range(rnd.randint(1, 3))]
            if ['close'] not in peera:
                peera.insert(rnd.randint(0, len(peera)), ['close'])
        out.append({'id': 'slot-%d-%d' % (seed, i), 'seed': seed * 7 + i, 'strategy': rnd.choice(['random', 'random', 'pct']), 'plan': [],
                    'usera': usera, 'peera': peera, 'peerb': [['send', rnd.randint(1, 3)] for _ in range(rnd.randint(1, 3))],
                    'openb': rnd.choice(['afterclose', 'any', 'any', 'afterbatch', 'afterbatch']), 'drain': rnd.random() < 0.4,
                    'withg': rnd.random() < 0.35, 'peerg': [['close']]})
    return out


def main(pid, tier, replay_path=None):
    t0 = time.time()
    seed = vlib.seed()
    violations, samples = [], []
    try:
        with vlib.Scratch('slot') as sc:
            binary = vlib.build_harness(sc, '.', instrumented_pool=True)
            scs = [json.load(open(replay_path))['scenario']] if replay_path else gen(2500 if tier == 'quick' else 120000, seed)
            res, crashed = conn.run_scenarios(sc, binary, scs, 's', procs=12, test='TestVerifSlotScenarios')
            if not replay_path:
                extra = conn.stall_variants(scs[:60 if tier == 'quick' else 3000], res, per_scenario=30 if tier == 'quick' else 60, rnd=random.Random(seed), skip_actors=())
                res2, crashed2 = conn.run_scenarios(sc, binary, extra, 't', procs=12, test='TestVerifSlotScenarios')
                scs = scs + extra
                res.update(res2)
                crashed += crashed2
            for s0, o in crashed:
                violations.append(vlib.save_replay(pid, '%s_crash%d' % (tier, len(violations)), {'property': pid, 'scenario': s0, 'output': o}))
                vlib.log('test process died in %s:\n%s' % (s0['id'], o[-1200:]))
            # the slot level: SlotCache.tla exhaustive; its window / simulated schedules and random ones on the real cache and poller
            mcov, mscs = {}, []
            if not replay_path or (scs and 'conns' in scs[0]):
                import slotp
                if replay_path:
                    mscs, scs, mst, mtr = scs, [], 0, 0
                else:
                    mst, mtr = slotp.exhaustive(sc, tier)
                    mscs = slotp.scenarios(sc, tier, seed)
                mres, mcr = conn.run_scenarios(sc, binary, mscs, 'm', procs=10, test='TestVerifSlotCache')
                if not replay_path:
                    base = [s for s in mscs if s['slkind'] == 'rnd'][:40 if tier == 'quick' else 1500]
                    extra = conn.stall_variants(base, mres, per_scenario=25, rnd=random.Random(seed + 5), skip_actors=())
                    extra += conn.window_variants(base[:20 if tier == 'quick' else 600], mres, per_scenario=40, rnd=random.Random(seed + 6), prefer=({13, 14, 12}, 'poller'))
                    mres2, mcr2 = conn.run_scenarios(sc, binary, extra, 'n', procs=10, test='TestVerifSlotCache')
                    mscs += extra; mres.update(mres2); mcr += mcr2
                res.update(mres)
                crashed += mcr
                for s0, o in mcr:
                    violations.append(vlib.save_replay(pid, '%s_crash%d' % (tier, len(violations)), {'property': pid, 'scenario': s0, 'output': o}))
                    vlib.log('test process died in %s:\n%s' % (s0['id'], o[-1200:]))
                c_, t_, ibad = slotp.impl_check(sc, [(s, mres[s['id']]) for s in mscs if s['id'] in mres and not mres[s['id']]['info'].get('stuck')], 'all')
                mcov = {'slotcache_states': mst, 'slotcache_transitions': mtr, 'slotcache_executions': len(mres),
                        'slotcache_tlc_behaviours_replayed': len([s for s in mscs if s.get('slkind') in ('window', 'sim')]),
                        'slotcache_impl_spec_conformance': {'steps_followed': c_, 'steps_total': t_, 'all_followed': c_ == t_}}
                if c_ != t_:
                    vlib.log('note: SlotCache.tla could not follow a recorded schedule (step %d of %d, scenario %s): the code no longer matches it\n   %s' % (c_ + 1, t_, ibad[0], '\n   '.join(ibad[2])))
                scs = scs + mscs
            vs, nlines, st = conn.validate(sc, res, [s['id'] for s in scs], 's', module='TraceSlot', deps=('SlotObs.tla',))
            byid = {s['id']: s for s in scs}
            seen = set()
            for v in vs:
                if not v['rule'].startswith(pid + '.') or (v['scenario'], v['rule']) in seen:
                    continue
                seen.add((v['scenario'], v['rule']))
                r = res[v['scenario']]
                if len(violations) < 6:
                    s0 = dict(byid[v['scenario']]); s0['strategy'], s0['plan'] = 'plan', r['info']['taken']
                    violations.append(vlib.save_replay(pid, '%s_%d' % (tier, len(violations)), {'property': pid, 'rule': v['rule'], 'line': v['line'], 'scenario': s0, 'events': r['events']}))
                    vlib.log('violation %s in %s at event %d' % (v['rule'], v['scenario'], v['line']))
                    for e in r['events'][max(0, v['line'] - 14):v['line'] + 1]:
                        vlib.log('     %-9s %-9s %-11s n=%s m=%s %s' % (e['g'], e['e'], e['k'], e['n'], e['m'], e['err']))
            stuck = sum(1 for r in res.values() if r['info'].get('stuck'))
            if res and stuck * 2 > len(res):
                raise vlib.Inconclusive('%d of %d scenarios did not reach a quiescent point' % (stuck, len(res)))
            reuse = sum(1 for r in res.values() if 'events' in r and len({e['n'] for e in r['events'] if e['e'] == 'Opened'}) == 1 and sum(1 for e in r['events'] if e['e'] == 'Opened') == 2)
            for s in scs[:2]:
                r = res.get(s['id'])
                if r:
                    samples.append({'scenario': {k: s[k] for k in s if k != 'plan'}, 'events': ['%s:%s:%s:%s' % (e['g'], e['e'], e['k'], e['n']) for e in r['events'][:40]]})
            cov = {'states': mcov.get('slotcache_states') or st.get('states', 1), 'transitions': mcov.get('slotcache_transitions') or st.get('transitions', 1),
                   'trace_validation_states': st.get('states', 1), 'traces_validated_against_impl': len(res), 'samples': samples,
                   'trace_events_validated': nlines, 'scenarios_where_B_inherited_As_slot': reuse, 'scenarios_not_quiescent': stuck,
                   'distinct_schedules': len({tuple(r['info']['taken']) for r in res.values()}),
                   'spec_modules': vlib.spec_hashes(['SlotCache.tla', 'TraceSlotCacheImpl.tla', 'SlotObs.tla', 'TraceSlot.tla']),
                   'explanation': 'SlotCache.tla (operator cache, state word, detach-once, reset, handler dispatch) model-checked exhaustively (states/transitions are its); its deviation counterexamples, simulated and random schedules run on the real cache and poller with recording callbacks and are replayed step by step in the model; two real connections on one manual poller under the controlled scheduler: close/stale calls on A, fetch and dispatch as separate '
                                  'scheduler steps, B opened at any point; traces validated by TLC against SlotObs.tla. (Stale calls after a completed close with '
                                  'guaranteed slot reuse are additionally enumerated by the C12 table, rule C10.stale_call_disturbed_another_connection.)'}
            cov.update(mcov)
            vlib.write_evidence(pid, tier, 'model_checking', cov, time.time() - t0, len(violations),
                                ['TLC/SANY', 'controlled scheduler and manual poller of the harness', 'kernel descriptor-number reuse as observed'])
    except vlib.Inconclusive as e:
        vlib.log('INCONCLUSIVE: %s' % e)
        if violations:
            vlib.finish(pid, violations, [])
        vlib.finish(pid, [], [], inconclusive=str(e).splitlines()[0][:200])
    vlib.finish(pid, violations, [])
