import sys, os
sys.path.insert(0, os.path.dirname(os.path.abspath(__file__)))
import vlib

def main():
    if len(sys.argv) < 3:
        print('usage: check <property> <quick|thorough|replay> [file]'); sys.exit(2)
    pid, tier = sys.argv[1], sys.argv[2]
    rp = sys.argv[3] if len(sys.argv) > 3 else None
    os.environ['VERIF_TIER'] = tier
    if pid in ('C01', 'C02', 'C03'):
        import buf
        buf.main(pid, 'quick' if tier == 'replay' else tier, rp)
    elif pid == 'C04':
        import stream
        stream.main(pid, 'quick' if tier == 'replay' else tier, rp)
    elif pid == 'C10':
        import slot
        slot.main(pid, 'quick' if tier == 'replay' else tier, rp)
    elif pid == 'C11':
        import polltab
        polltab.main(pid, 'quick' if tier == 'replay' else tier, rp)
    elif pid == 'C15':
        import fdt
        fdt.main(pid, 'quick' if tier == 'replay' else tier, rp)
    elif pid == 'C16':
        import adapt
        adapt.main(pid, 'quick' if tier == 'replay' else tier, rp)
    elif pid == 'C17':
        import shardq
        shardq.main(pid, 'quick' if tier == 'replay' else tier, rp)
    elif pid == 'C18':
        import pm
        pm.main(pid, 'quick' if tier == 'replay' else tier, rp)
    elif pid == 'C13':
        import server
        server.main(pid, 'quick' if tier == 'replay' else tier, rp)
    elif pid == 'C14':
        import dial
        dial.main(pid, 'quick' if tier == 'replay' else tier, rp)
    elif pid == 'C19':
        import race
        race.main(pid, 'quick' if tier == 'replay' else tier, rp)
    elif pid == 'C12':
        import after
        after.main(pid, 'quick' if tier == 'replay' else tier, rp)
    elif pid in ('C05', 'C06', 'C07', 'C08', 'C09'):
        import conn
        conn.main(pid, 'quick' if tier == 'replay' else tier, rp)
    else:
        print('INCONCLUSIVE property=%s no check registered' % pid); sys.exit(2)

try:
    main()
except SystemExit:
    raise
except BaseException:
    # a failure of the machinery itself is never a verdict about the code under test
    import traceback
    traceback.print_exc()
    print('INCONCLUSIVE property=%s internal error of the check (see the traceback above)' % (sys.argv[1] if len(sys.argv) > 1 else '?'))
    sys.exit(2)
