"""C10 (model part): SlotCache.tla, the implementation-shaped model of the poller's operator slots (operatorCache alloc / freeable /
free, the FDOperator state word, detach-once, reset, the handler's do / dispatch / appendHup / done), model-checked exhaustively;
counterexamples of two modelled deviations and TLC-simulated behaviours replayed as schedules on the real cache and poller (slot-level
harness); every execution validated against SlotObs.tla and replayed step by step in SlotCache.tla (TraceSlotCacheImpl.tla)."""
import json, os, re, shutil, glob, random
import vlib, tlaval, conn

CE = r'^State \d+: <(\w+)\(?("?\w*"?)\)?[^\n]*\n'
SIM = r'^\\\* <(\w+)\(?("?\w*"?)\)?[^\n]*\n'


def tlc_run(sc, cfg, tag, workers=8, timeout=2400, extra=()):
    wd = sc.path('sl_' + tag)
    os.makedirs(wd, exist_ok=True)
    shutil.copy(os.path.join(vlib.SPEC, 'SlotCache.tla'), wd)
    shutil.copy(os.path.join(vlib.SPEC, cfg), wd)
    p = vlib.run(['java', '-XX:+UseParallelGC', '-cp', vlib.TLA_CP, 'tlc2.TLC', '-workers', str(workers), '-metadir', os.path.join(wd, 'md'), '-config', cfg] + list(extra) + ['SlotCache.tla'],
                 cwd=wd, timeout=timeout, check=False)
    return p.stdout, wd


def cfg_params(cfg):
    txt = open(os.path.join(vlib.SPEC, cfg)).read()
    conns = re.findall(r'"(\w)"', re.search(r'Conns = \{([^}]*)\}', txt).group(1))
    return {'conns': conns, 'supply': int(re.search(r'Supply = (\d+)', txt).group(1)), 'maxsend': int(re.search(r'MaxSend = (\d+)', txt).group(1))}


def _scenario(sid, txt, pat, prm, kind):
    parts = re.split(pat, txt, flags=re.M)
    plan, pstarted, nh = [], False, 0
    for i in range(1, len(parts) - 2, 3):
        lab, arg = parts[i], parts[i + 1].strip('"')
        if lab.startswith('U'):
            plan.append('u' + arg)
        elif lab in ('PWait', 'PFetched', 'PEv', 'PDo', 'PDet', 'PDone'):
            if not pstarted:
                plan.append('poller'); pstarted = True
            plan.append('poller')
        elif lab == 'HRun':
            nh += 1
            plan.append('hup%d' % nh)
        elif lab == 'PeerSend':
            plan.append('send' + arg)
        elif lab == 'PeerClose':
            plan.append('close' + arg)
    return dict(prm, id=sid, seed=1, strategy='plan', plan=plan, slkind=kind)


def scenarios(sc, tier, seed):
    scs = []
    for cfg in ('MC_SlotCache_DevReclaim.cfg', 'MC_SlotCache_DevQueue.cfg', 'MC_SlotCache_DevFreeStart.cfg', 'MC_SlotCache_DevLateHup.cfg'):
        o, _ = tlc_run(sc, cfg, cfg[:-4], workers=4, timeout=900)
        if 'is violated' not in o:
            raise vlib.Inconclusive('no counterexample from %s' % cfg)
        s = _scenario('tlc-%s' % cfg[13:-4], o[o.index('State 1:'):], CE, cfg_params(cfg), 'window')
        if not s['plan']:
            raise vlib.Inconclusive('no schedule from %s' % cfg)
        scs.append(s)
    n = 200 if tier == 'quick' else 4000
    o, wd = tlc_run(sc, 'MC_SlotCache_Sim.cfg', 'sim', workers=1, extra=['-simulate', 'file=%s,num=%d' % (sc.path('sl_sim', 'b'), n), '-depth', '70', '-seed', str(seed)])
    prm = cfg_params('MC_SlotCache_Sim.cfg')
    for i, f in enumerate(sorted(glob.glob(sc.path('sl_sim', 'b_*')))):
        s = _scenario('slsim-%d-%d' % (seed, i), open(f).read(), SIM, prm, 'sim')
        if s['plan']:
            scs.append(s)
    rnd = random.Random(seed * 613 + 11)
    for i in range(400 if tier == 'quick' else 20000):
        scs.append({'id': 'slrnd-%d-%d' % (seed, i), 'seed': seed * 100000 + i, 'strategy': rnd.choice(['random', 'random', 'pct']), 'plan': [],
                    'conns': rnd.choice([['A', 'B'], ['A', 'B', 'G'], ['A', 'B', 'G']]), 'supply': rnd.choice([1, 2, 2, 3, 30]), 'maxsend': rnd.choice([1, 2]), 'slkind': 'rnd'})
    return scs


def exhaustive(sc, tier):
    out, _ = tlc_run(sc, 'MC_SlotCache_quick.cfg' if tier == 'quick' else 'MC_SlotCache.cfg', 'main', workers=12, timeout=3000)
    if not vlib.tlc_ok(out):
        raise vlib.Inconclusive('SlotCache.tla exhaustive check did not pass: %s' % (vlib.tlc_violation(out) or out[-800:]))
    st = vlib.tlc_stats(out)
    return st[1], st[0]


def impl_check(sc, runs, tag):
    wd = sc.path('sli_' + tag)
    os.makedirs(wd, exist_ok=True)
    for f in ('SlotCache.tla', 'TraceSlotCacheImpl.tla'):
        shutil.copy(os.path.join(vlib.SPEC, f), wd)
    open(os.path.join(wd, 'TraceSlotCacheImpl.cfg'), 'w').write(
        'SPECIFICATION TSpec\nPOSTCONDITION Report\nCHECK_DEADLOCK FALSE\nCONSTANTS\n  Conns = {"A", "B", "G"}\n  Supply = 2\n  Block = 38\n  MaxSend = 2\n  Dev_ReclaimOnEmpty = FALSE\n  Dev_QueueBeforeReset = FALSE\n  Dev_FreeAtHandlerStart = FALSE\n  Dev_LateOnHup = FALSE\n')
    z4 = [0, 0, 0, 0]
    blank = {'g': '', 'c': '', 'pt': 0, 'supply': 0, 'st': z4, 'ow': z4, 'dt': z4, 'np': 0, 'pend': z4, 'nr': 0, 'ret': z4}
    n, starts = 0, []
    with open(os.path.join(wd, 'sched.ndjson'), 'w') as f:
        for s, r in runs:
            if not r['info'].get('proj') or any(e['e'] in ('SetupErr', 'Panic') for e in r['events']):
                continue
            f.write(json.dumps(dict(blank, g='reset', supply=s['supply'])) + '\n')
            n += 1
            starts.append((n, s['id']))
            for (name, gate), pj in zip(r['info']['gates'], r['info']['proj']):
                pt = int(gate.split('#')[0]) if gate != 'env' else 0
                if name == 'poller':
                    if pt in (1000, 45):
                        continue
                    g, c = 'p', ''
                elif name.startswith('hup'):
                    g, c = 'h', ''
                elif name.startswith('send'):
                    g, c = 'send', name[4:]
                elif name.startswith('close'):
                    g, c = 'close', name[5:]
                elif name.startswith('u'):
                    g, c = 'u', name[1:]
                else:
                    g, c = 'x', ''
                row = dict(blank, g=g, c=c, pt=pt, st=[pj[0], pj[3], pj[6], pj[9]], ow=[pj[1], pj[4], pj[7], pj[10]], dt=[pj[2], pj[5], pj[8], pj[11]],
                           np=pj[12], pend=pj[13:17], nr=pj[17], ret=pj[18:22])
                f.write(json.dumps(row) + '\n')
                n += 1
    if n == 0:
        return 0, 0, None
    p = vlib.run(['java', '-Xss64m', '-cp', vlib.TLA_CP, 'tlc2.TLC', '-workers', '1', '-metadir', os.path.join(wd, 'md'), '-config', 'TraceSlotCacheImpl.cfg', 'TraceSlotCacheImpl.tla'],
                 cwd=wd, timeout=1800, check=False)
    m = re.search(r'<<\s*"IMPL-RESULT",\s*(\d+),\s*(\d+),\s*(TRUE|FALSE)\s*>>', p.stdout)
    if not m:
        raise vlib.Inconclusive('SlotCache impl-level trace validation failed:\n' + p.stdout[-2000:])
    done = int(m.group(1))
    bad = None
    if done < n:
        sid = next((sid for st, sid in reversed(starts) if st <= done + 1), None)
        lines = open(os.path.join(wd, 'sched.ndjson')).read().splitlines()
        bad = (sid, done, lines[max(0, done - 3):done + 1])
    return done, n, bad
